import Oas3Model.Driver.Util
import Oas3Model.Sem.Discr
open Lean Oas3.Driver Oas3.Discr

/-! Driver op `disc.run` (property C14): reads the SAME OpenAPI document the implementation was
given, abstracts it to `Oas3.Discr.Spec`, runs the model `F`, projects the implementation's facts to
the same `Facts` structure, compares, and evaluates the judge on the IMPLEMENTATION's facts. -/
namespace Oas3.Driver.Discr

def objList (j : Json) : List (String × Json) :=
  match j with | .obj m => m.toList | _ => []

def refName (j : Json) : Option Str :=
  match j.getObjVal? "$ref" with
  | .ok (.str r) =>
    let pre := "#/components/schemas/"
    if r.startsWith pre then some (r.drop pre.length).toString.toList else none
  | _ => none

def strArr (j : Json) : List Str :=
  match j with | .arr a => a.toList.filterMap (fun x => match x with | .str s => some s.toList | _ => none) | _ => []

partial def pinfoOf (schemas : Json) (j : Json) (depth : Nat := 3) : PInfo :=
  match refName j with
  | some n =>
    let tgt := fieldD schemas (String.ofList n) Json.null
    let inner := if depth = 0 then ({} : PInfo) else pinfoOf schemas tgt (depth - 1)
    { inner with ref := some n }
  | none =>
    { ref := none,
      const := (match j.getObjVal? "const" with | .ok (.str s) => some s.toList | _ => none),
      enumVals := strArr (fieldD j "enum" (Json.arr #[])) }

def propsOf (schemas : Json) (j : Json) : List (Str × PInfo) :=
  mkMap ((objList (fieldD j "properties" Json.null)).map (fun (k, v) => (k.toList, pinfoOf schemas v)))

def denyOf (j : Json) : Bool := match j.getObjVal? "additionalProperties" with | .ok (.bool false) => true | _ => false

def refsOf (j : Json) : List Str :=
  match j with | .arr a => a.toList.filterMap refName | _ => []

def discOf (j : Json) : Option Disc :=
  match j.getObjVal? "discriminator" with
  | .ok d =>
    match d.getObjVal? "propertyName" with
    | .ok (.str p) =>
      let mapping := match d.getObjVal? "mapping" with
        | .ok (.obj m) => some (mkMap (m.toList.filterMap (fun (k, v) => (refName (Json.mkObj [("$ref", v)])).map (fun n => (k.toList, n)))))
        | _ => none
      some { prop := p.toList, mapping }
    | _ => none
  | _ => none

def schOf (schemas : Json) (j : Json) : Sch :=
  { props := propsOf schemas j,
    oneOf := refsOf (fieldD j "oneOf" Json.null),
    anyOf := refsOf (fieldD j "anyOf" Json.null),
    allOf := (match fieldD j "allOf" Json.null with
      | .arr a => a.toList.map (fun p => match refName p with | some n => Part.ref n | none => Part.inl (propsOf schemas p) (denyOf p))
      | _ => []),
    disc := discOf j,
    deny := denyOf j }

/-- every `$ref` to a component below `j` -/
partial def allRefs (j : Json) : List Str :=
  match j with
  | .obj m => (match refName j with | some n => [n] | none => []) ++ m.toList.flatMap (fun (_, v) => allRefs v)
  | .arr a => a.toList.flatMap allRefs
  | _ => []

def httpMethods : List String := ["get", "put", "post", "delete", "options", "head", "patch", "trace"]

def rootsOf (spec : Json) (only : Option (List String)) : List Str :=
  (objList (fieldD spec "paths" Json.null)).flatMap (fun (_, item) =>
    (objList item).flatMap (fun (m, op) =>
      if !httpMethods.contains m then [] else
      let id := match op.getObjVal? "operationId" with | .ok (.str s) => s | _ => ""
      match only with
      | some l => if l.contains id then allRefs op else []
      | none => allRefs op))

def specOf (inp : Json) : Except String Spec := do
  let spec ← field inp "spec"
  let schemasJ := fieldD (fieldD spec "components" Json.null) "schemas" Json.null
  let only : Option (List String) := match inp.getObjVal? "only" with
    | .ok (.arr a) => some (a.toList.filterMap (fun x => match x with | .str s => some s | _ => none))
    | _ => none
  let all := match (fieldD inp "cfg" Json.null).getObjVal? "all_schemas" with | .ok (.bool b) => b | _ => false
  pure { schemas := mkMap ((objList schemasJ).map (fun (k, v) => (k.toList, schOf schemasJ v))),
         roots := rootsOf spec only, all }

-- ------------------------------------------------------------------------------------------
-- Facts <-> JSON

def modeJson : FMode → Json
  | .fixed v => Json.mkObj [("fixed", str v)]
  | .skip => Json.str "skip"
  | .plain => Json.str "plain"

def pairJson (p : Str × Str) : Json := Json.arr #[str p.1, str p.2]

def enumJson (e : EnumF) : Json :=
  Json.mkObj [("name", str e.name), ("untagged", e.untagged), ("tag", str e.tag), ("arms", Json.arr (e.arms.map pairJson).toArray),
    ("fallback", optStr e.fallback), ("types", strList e.types)]

def sortBy {α : Type} (key : α → Str) (l : List α) : List α :=
  l.foldl (fun acc x =>
    let rec insert : List α → List α
      | [] => [x]
      | a :: r => if ltS (key x) (key a) then x :: a :: r else a :: insert r
    insert acc) []

/-- a `#[serde(skip)]` field loses its `rename` (`serde_attrs.clear()`), so only the Rust identifier is
visible in the emitted code; such fields are compared by their lower-cased alphanumeric characters -/
def normSkip (k : Str) : Str := (k.filter Char.isAlphanum).map Char.toLower

def structJson (s : StructF) : Json :=
  Json.mkObj [("name", str s.name), ("deny", s.deny), ("fields", Json.arr ((sortBy (·.1) (s.fields.map (fun f =>
    match f.2 with | .skip => (normSkip f.1, f.2) | _ => f))).map (fun f => Json.arr #[str f.1, modeJson f.2])).toArray)]

def factsJson (fx : Facts) : Json :=
  Json.mkObj [
    ("cache", Json.arr (fx.cache.map (fun e => Json.arr #[str e.1, str e.2.field, str e.2.value])).toArray),
    ("effective", Json.mkObj (fx.effective.map (fun e => (String.ofList e.1, match e.2 with | some m => Json.arr (m.map pairJson).toArray | none => Json.null)))),
    ("parents", Json.mkObj (fx.parents.map (fun e => (String.ofList e.1, str e.2)))),
    ("reach", match fx.reach with | some r => strList r | none => Json.null),
    ("enums", Json.arr ((sortBy (·.name) fx.enums).map enumJson).toArray),
    ("structs", Json.arr ((sortBy (·.name) fx.structs).map structJson).toArray)]

def unbox (t : String) : Str :=
  if t.startsWith "Box<" && t.endsWith ">" then ((t.drop 4).dropEnd 1).toString.toList else t.toList

def pairOf (j : Json) : Except String (Str × Str) :=
  match j with
  | .arr #[.str a, .str b] => pure (a.toList, b.toList)
  | _ => throw "pair"

def serOnlyMark : Str := "?serialize-only".toList

/-- projection of the implementation's emitted facts; anything the projection cannot read faithfully
is turned into a value the model never produces (so that it shows up as a mismatch) -/
def implFacts (impl : Json) : Except String Facts := do
  let reg ← field impl "registry"
  let em ← field impl "emitted"
  let cache ← (← arr (← field reg "cache")).mapM (fun j => match j with
    | .arr #[.str a, .str b, .str c] => pure (a.toList, (⟨b.toList, c.toList⟩ : DM))
    | _ => throw "cache entry")
  let effective ← (objList (← field reg "effective")).mapM (fun (k, v) => do
    match v with
    | .null => pure (k.toList, none)
    | _ => pure (k.toList, some (← (← arr v).mapM pairOf)))
  let parents := (objList (← field reg "parents")).filterMap (fun (k, v) => match v with | .str s => some (k.toList, s.toList) | _ => none)
  let reach ← match ← field reg "reach" with
    | .null => pure none
    | r => pure (some (← charsList r))
  let enums ← (objList (← field em "enums")).mapM (fun (name, e) => do
    let variants ← (← arr (← field e "variants")).mapM (fun v => match v with
      | .arr #[.str vn, .str ty] => pure (vn.toList, unbox ty)
      | _ => throw "variant")
    let untagged ← boolOf (← field e "untagged")
    if untagged then
      pure ({ name := name.toList, untagged := true, tag := [], arms := [], fallback := none, types := variants.map (·.2) } : EnumF)
    else if fieldD e "de" Json.null == Json.null then
      -- no `Deserialize` impl at all (a type that only ever travels in requests): nothing to dispatch
      pure ({ name := name.toList, untagged := false, tag := ← chars (← field e "tag"), arms := [], fallback := some serOnlyMark, types := variants.map (·.2) } : EnumF)
    else
      let de ← field e "de"
      let odd := (← arr (fieldD de "odd" (Json.arr #[]))).length
      let shapeOk := odd == 0 && fieldD de "other" Json.null == Json.str "err"
        && fieldD de "scrutinee" Json.null == Json.str "value.get(Self::DISCRIMINATOR_FIELD).and_then(|v|v.as_str())"
        && (match fieldD e "ser" Json.null with | .arr a => a.toList == variants.map (fun v => str v.1) | _ => false)
      let tyOf (vn : Str) : Str := (look vn variants).getD ("?unknown-variant".toList ++ vn)
      let arms ← (← arr (← field de "arms")).mapM (fun a => do let (t, vn) ← pairOf a; pure (t, tyOf vn))
      let fallback ← match ← field de "none" with
        | .str s => if s == "missing" then pure none
                    else if s.startsWith "fallback:" then pure (some (tyOf (s.drop 9).toString.toList))
                    else pure (some ("?odd-none-arm".toList))
        | _ => throw "none arm"
      let tag0 ← chars (← field e "tag")
      let dupNames := (variants.map (·.1)).any (fun n => ((variants.map (·.1)).filter (· == n)).length > 1)
      let tag := if !shapeOk then "?odd-shape".toList else if dupNames then "?duplicate-variant-names".toList else tag0
      pure { name := name.toList, untagged := false, tag, arms, fallback, types := variants.map (·.2) })
  let structs ← (objList (← field em "structs")).mapM (fun (name, s) => do
    let flags ← charsList (← field s "serde")
    let structDefault := flags.contains "default".toList
    let fields ← (← arr (← field s "fields")).mapM (fun f => do
      let wire ← chars (← field f "wire")
      let fl ← charsList (← field f "serde")
      let has (x : String) := fl.contains x.toList
      let mode : FMode :=
        if has "skip" then .skip
        else if has "skip_deserializing" then
          (match fieldD f "default" Json.null with
           | .str v => if has "default" && structDefault then .fixed v.toList else .fixed ("?no-default-attr".toList)
           | _ => .fixed ("?no-default-literal".toList))
        else if has "skip_serializing" then .fixed ("?skip_serializing".toList)
        else .plain
      pure (wire, mode))
    pure ({ name := name.toList, deny := flags.contains "deny_unknown_fields".toList, fields := mkMap fields } : StructF))
  pure { cache := mkMap cache, effective := mkMap effective, parents := mkMap parents, reach := reach.map mkSet, enums, structs }

def clauseStr : Clause → String
  | .emitted => "emitted" | .tagDispatch => "tag-dispatch" | .dispatch => "dispatch" | .accept => "accept"
  | .roundtrip => "roundtrip" | .member => "member" | .unmapped => "unmapped"

def knownStr : Known → String
  | .memberNotInMapping => "KnownMemberNotInMapping" | .tagLostOnDecode => "KnownTagLostOnDecode" | .sharedChild => "KnownSharedChildTag"
  | .unreachableChild => "KnownUnreachableChildDropped" | .denyUnknownTag => "KnownDenyUnknownTag"
  | .siteUntyped => "KnownSiteUntyped" | .implicitNotSynth => "KnownInlineImplicitMappingIgnored"
  | .namedTwin => "KnownNamedTwinDiscriminator" | .inlineTwin => "KnownInlineTwinMapping"
  | .arrayWrapperFlattened => "KnownArrayWrapperFlattened"

def failureStr (f : Failure) : String :=
  s!"{clauseStr f.clause}[{String.ofList f.schema}: tag '{String.ofList f.tag}' -> {String.ofList f.target}]" ++
    (match f.known with | some k => "{" ++ knownStr k ++ "}" | none => "{UNCLASSIFIED}")

def run : Handler := fun req => do
  let inp ← field req "in"
  let impl ← field req "impl"
  let sp ← specOf inp
  let mf := F sp
  let modelJ := factsJson mf
  match impl.getObjVal? "registry" with
  | .error _ =>
    -- the generator refused the spec (or the emitted file does not parse): never predicted by the model
    pure (Json.mkObj [("model", modelJ), ("match", false), ("judge", verdict false [] s!"implementation produced no output: {impl.compress}"), ("branch", "impl-error")])
  | .ok _ =>
    let fx ← implFacts impl
    -- structs of operations (`…Request`) are not schema types
    let fx := { fx with structs := fx.structs.filter (fun s => !(String.ofList s.name).endsWith "Request"),
                        effective := fx.effective, parents := fx.parents }
    let implJ := factsJson fx
    let fails := judge sp fx
    let mfails := judge sp mf
    -- a failure is attributed to a known class only when the model exhibits exactly the same failures
    let known := if fails == mfails then (knownOf fails).map knownStr else []
    let why := String.intercalate "; " ((fails.take 6).map failureStr) ++ (if fails == mfails then "" else " [model predicts different failures]")
    let nd := (sp.schemas.filter (fun x => x.2.disc.isSome)).length
    let kinds := (sp.schemas.filter (fun x => x.2.disc.isSome)).map (fun x =>
      (if !(x.2.oneOf.isEmpty && x.2.anyOf.isEmpty) then (if x.2.oneOf.isEmpty then "a" else "o") else "b") ++
      (match x.2.disc with | some d => (if d.mapping.isSome then "E" else "I") | none => ""))
    let branch := if nd == 0 then "trivial" else
      String.intercalate "," kinds ++ (if sp.all then "+all" else "") ++ s!"|e{mf.enums.length}u{(mf.enums.filter (·.untagged)).length}f{fails.length}"
    -- Sem predictions on the implementation's facts, for the arena tie (thorough tier)
    let wantProbes := match inp.getObjVal? "want_probes" with | .ok (.bool true) => true | _ => false
    let probes : List Json := if !wantProbes then [] else
      let e := envOf sp
      (sp.schemas.filter (fun x => x.2.disc.isSome && isReach e.reach x.1)).flatMap (fun x =>
        match x.2.disc, intended sp.schemas x.2, findEnum fx x.1 with
        | some d, some m, some en =>
          if en.untagged then [] else
          let fuel := sp.schemas.length + 2
          let members := membersOf sp.schemas x.1 x.2
          let extra := ((allTags sp.schemas ++ [unmappedProbe]).filter (fun t => (look t m).isNone)).take 3
          let entries := m.map (fun y => (y.1, leafOf sp.schemas d.prop y.1 fuel y.2, permits e d.prop y.1 (leafOf sp.schemas d.prop y.1 fuel y.2)))
            ++ extra.map (fun t => (t, members.headD x.1, false))
          entries.filterMap (fun (t, leaf, valid) =>
            if (look leaf sp.schemas).isNone || isUnionSch sp.schemas leaf then none else
            let doc := validDoc e d.prop t leaf
            let r := decT fx fuel x.1 doc
            some (Json.mkObj [("ty", str x.1), ("prop", str d.prop), ("tag", str t), ("leaf", str leaf), ("valid", valid),
              ("accept", r.isSome), ("first", optStr (dispatch en t)),
              ("retag", match r with | some st => optStr (encodeTag st d.prop (some t)) | none => Json.null)]))
        | _, _, _ => [])
    pure (Json.mkObj [("model", modelJ), ("match", modelJ == implJ), ("impl_facts", implJ),
      ("judge", verdict fails.isEmpty known why), ("branch", branch), ("probes", Json.arr probes.toArray)])


-- ------------------------------------------------------------------------------------------
-- `disc.site`: use sites

def isNullSch (j : Json) : Bool := fieldD j "type" Json.null == Json.str "null"

def isArraySch (j : Json) : Bool := fieldD j "type" Json.null == Json.str "array"

def unionList (j : Json) : Option (Bool × List Json) :=
  match fieldD j "oneOf" Json.null, fieldD j "anyOf" Json.null with
  | .arr a, .null => some (true, a.toList)
  | .null, .arr a => some (false, a.toList)
  | _, _ => none

/-- a union of component refs (nothing else) -/
def plainUnion (schemas : Json) (j : Json) : Except String Sch :=
  match unionList j with
  | some (_, l) => if !l.isEmpty && l.all (fun x => (refName x).isSome) then pure (schOf schemas j) else throw "site: union members must be component refs"
  | none => throw "site: not a union"

/-- abstraction of the schema written at a use site; spellings outside the modelled grammar are refused -/
def siteSchOf (schemas : Json) (j : Json) : Except String SiteSch := do
  let arrOr (x : Json) : Except String (Bool × Sch) := do
    if isArraySch x then pure (true, ← plainUnion schemas (fieldD x "items" Json.null)) else pure (false, ← plainUnion schemas x)
  match unionList j with
  | some (one, [a, b]) =>
    if isNullSch b && (refName a).isNone then
      let (ar, u) ← arrOr a
      pure { arr := ar, wrap := some one, outerDisc := discOf j, u }
    else
      let (ar, u) ← arrOr j
      pure { arr := ar, u }
  | _ =>
    let (ar, u) ← arrOr j
    pure { arr := ar, u }

def opSchema (spec : Json) (opId : String) (resp : Bool) : Except String Json := do
  let found := (objList (fieldD spec "paths" Json.null)).flatMap (fun (_, item) =>
    (objList item).filter (fun (m, op) => httpMethods.contains m && fieldD op "operationId" Json.null == Json.str opId))
  match found with
  | (_, op) :: _ =>
    let content := if resp then fieldD (fieldD (fieldD op "responses" Json.null) "200" Json.null) "content" Json.null
                   else fieldD (fieldD op "requestBody" Json.null) "content" Json.null
    field (fieldD content "application/json" Json.null) "schema"
  | [] => throw s!"site: no operation {opId}"

def siteOf (spec : Json) (j : Json) : Except String Site := do
  let id ← chars (← field j "id")
  let at_ ← field j "at"
  let schemasJ := fieldD (fieldD spec "components" Json.null) "schemas" Json.null
  let g (k : String) : Except String String := do match ← field at_ k with | .str s => pure s | _ => throw "site: string expected"
  match ← g "k" with
  | "named" =>
    let n ← g "name"
    pure { id, pos := .named, holder := n.toList, s := ← siteSchOf schemasJ (← field schemasJ n) }
  | "field" =>
    let h ← g "holder"; let f ← g "field"
    pure { id, pos := .field, holder := h.toList, field := f.toList,
           s := ← siteSchOf schemasJ (← field (← field (← field schemasJ h) "properties") f) }
  | "body" => let o ← g "op"; pure { id, pos := .body, holder := o.toList, s := ← siteSchOf schemasJ (← opSchema spec o false) }
  | "resp" => let o ← g "op"; pure { id, pos := .resp, holder := o.toList, s := ← siteSchOf schemasJ (← opSchema spec o true) }
  | k => throw s!"site: unknown kind {k}"

def enumNoName (e : EnumF) : Json := enumJson { e with name := [] }

def siteTyJson (id : Str) (t : SiteTy) : Json :=
  Json.mkObj [("id", str id), ("vec", t.vec), ("value", t.value), ("enum", match t.en with | some e => enumNoName e | none => Json.null)]

/-- the implementation's type at a site; anything unreadable becomes a value the model never produces -/
def implSiteTy (fx : Facts) (j : Json) : Except String (Str × SiteTy) := do
  let id ← chars (← field j "id")
  let vec ← natOf (← field j "vec")
  let core ← chars (← field j "core")
  let kind := match fieldD j "kind" Json.null with | .str s => s | _ => "?"
  let odd (why : String) : SiteTy := { vec, value := false, en := some { name := [], untagged := false, tag := ("?" ++ why).toList, arms := [], fallback := none, types := [] } }
  match kind with
  | "value" => pure (id, { vec, value := true, en := none })
  | "tag" | "untagged" =>
    (match findEnum fx core with
     | some e => pure (id, { vec, value := false, en := some { e with name := [] } })
     | none => pure (id, odd "enum-not-in-facts"))
  | k => pure (id, odd k)

def shapesOf (em : Json) : Except String (List ShapeF) := do
  let venums := fieldD em "venums" Json.null
  (objList (← field em "structs")).mapM (fun (name, s) => do
    let flags ← charsList (← field s "serde")
    let cdefault := flags.contains "default".toList
    let fields ← arr (← field s "fields")
    let infos ← fields.mapM (fun f => do
      let wire ← chars (← field f "wire")
      let fl ← charsList (← field f "serde")
      let ty := match fieldD f "ty" Json.null with | .str t => t | _ => ""
      let opt := ty.startsWith "Option<"
      let skipped := fl.contains "skip".toList || fl.contains "skip_deserializing".toList
      let hasDefault := fl.contains "default".toList
      let inner := (if opt then ((ty.drop 7).dropEnd 1).toString else ty)
      let inner := String.ofList (unbox inner)
      let allowed : Option (List Str) := if skipped then none else
        match venums.getObjVal? inner with
        | .ok (.arr a) => some (a.toList.filterMap (fun x => match x with | .str v => some v.toList | _ => none))
        | _ => none
      pure (wire, !opt && !skipped && !hasDefault && !cdefault, allowed))
    pure ({ name := name.toList, req := (infos.filter (·.2.1)).map (·.1),
            allowed := infos.filterMap (fun i => i.2.2.map (fun a => (i.1, a))) } : ShapeF))

def originStr : Origin → String
  | .own _ => "own" | .named n => "named:" ++ String.ofList n | .earlier _ => "earlier" | .value => "value"

def posStr : Pos → String
  | .named => "N" | .field => "F" | .body => "B" | .resp => "R"

def runSite : Handler := fun req => do
  let inp ← field req "in"
  let impl ← field req "impl"
  let spec ← field inp "spec"
  let sp0 ← specOf inp
  -- member refs nested inside inline wrappers/arrays are invisible to `Sch`; they are reachable through their holder
  let sp := { sp0 with roots := sp0.roots ++ allRefs (fieldD (fieldD spec "components" Json.null) "schemas" Json.null) }
  let sites ← (← arr (← field inp "sites")).mapM (siteOf spec)
  let pred := FSites sp sites
  let mf := F sp
  let modelJ := Json.mkObj [
    ("cache", Json.arr (mf.cache.map (fun e => Json.arr #[str e.1, str e.2.field, str e.2.value])).toArray),
    ("sites", Json.arr ((sortBy (·.1.id) pred).map (fun x => siteTyJson x.1.id x.2.2)).toArray)]
  match impl.getObjVal? "registry" with
  | .error _ =>
    pure (Json.mkObj [("model", modelJ), ("match", false), ("judge", verdict false [] s!"implementation produced no output: {impl.compress}"), ("branch", "impl-error")])
  | .ok _ =>
    let fx ← implFacts impl
    let shapes ← shapesOf (← field impl "emitted")
    let isites ← (← arr (← field impl "sites")).mapM (implSiteTy fx)
    let implJ := Json.mkObj [
      ("cache", Json.arr (fx.cache.map (fun e => Json.arr #[str e.1, str e.2.field, str e.2.value])).toArray),
      ("sites", Json.arr ((sortBy (·.1) isites).map (fun x => siteTyJson x.1 x.2)).toArray)]
    -- a tag enum that is only ever SERIALISED has no dispatch table: tag constant and variant list are compared, decoding is not judged
    let serOnly (id : Str) : Bool := match look id isites with
      | some t => (match t.en with | some e => e.fallback == some serOnlyMark | none => false)
      | none => false
    let pred := pred.map (fun x =>
      if serOnly x.1.id then
        (x.1, x.2.1, { x.2.2 with en := x.2.2.en.map (fun e => if e.untagged then e else { e with arms := [], fallback := some serOnlyMark }) })
      else x)
    let modelJ := Json.mkObj [
      ("cache", Json.arr (mf.cache.map (fun e => Json.arr #[str e.1, str e.2.field, str e.2.value])).toArray),
      ("sites", Json.arr ((sortBy (·.1.id) pred).map (fun x => siteTyJson x.1.id x.2.2)).toArray)]
    let judgedPred := pred.filter (fun x => !serOnly x.1.id)
    -- the member structs (tag field treatment) must agree too: the judge reads them
    let memberNames := mkSet (sites.flatMap (fun s => unionRefs s.s.u))
    let leafJ (f : Facts) := Json.arr ((sortBy (·.name) (f.structs.filter (fun s => memberNames.contains s.name))).map structJson).toArray
    let structsOk := leafJ mf == leafJ fx
    let missing : SiteTy := { vec := 0, value := false, en := none }
    let fails := judgedPred.flatMap (fun x => judgeSite sp fx shapes x.1 ((look x.1.id isites).getD missing) (siteClass sp x.1 x.2.1))
    let mfails := judgedPred.flatMap (fun x => judgeSite sp mf shapes x.1 x.2.2 (siteClass sp x.1 x.2.1))
    let known := if fails == mfails then (knownOf fails).map knownStr else []
    let why := String.intercalate "; " ((fails.take 6).map failureStr) ++ (if fails == mfails then "" else " [model predicts different failures]")
    let judged := pred.filter (fun x => (siteCore x.1.s).disc.isSome)
    let branch := if judged.isEmpty then "trivial" else
      String.intercalate "," ((sortBy (·.1.id) judged).map (fun x =>
        posStr x.1.pos ++ (if x.1.s.wrap.isSome then "w" else "") ++ (if x.1.s.arr then "a" else "") ++ ":" ++ originStr x.2.1))
        ++ s!"|f{fails.length}"
    let wantProbes := match inp.getObjVal? "want_probes" with | .ok (.bool true) => true | _ => false
    let probes : List Json := if !wantProbes then [] else
      let e := envOf sp
      let fuel := sp.schemas.length + 2
      judgedPred.flatMap (fun x =>
        let core := siteCore x.1.s
        match core.disc, intended sp.schemas core with
        | some d, some m =>
          let st := (look x.1.id isites).getD missing
          let members := unionRefs core
          let entries := (m.filter (fun y => members.contains y.2 && permits e d.prop y.1 y.2)).map (fun y => (y.1, y.2))
            ++ members.map (fun c => (unmappedProbe, c))
          entries.map (fun (t, leaf) =>
            let doc := validDoc e d.prop t leaf
            let r := siteDecode fx shapes fuel st doc
            Json.mkObj [("site", str x.1.id), ("prop", str d.prop), ("tag", str t), ("leaf", str leaf), ("vec", st.vec),
              ("dec", match r with | .rejected => Json.str "rejected" | .untyped => Json.str "untyped" | .member ty => Json.mkObj [("member", str ty)]),
              ("retag", match r with
                | .member ty => (match findStruct fx ty with | some s => optStr (encodeTag s d.prop (some t)) | none => Json.null)
                | _ => Json.null)])
        | _, _ => [])
    pure (Json.mkObj [("model", modelJ), ("match", modelJ == implJ && structsOk), ("impl_facts", implJ),
      ("judge", verdict fails.isEmpty known why), ("branch", branch), ("probes", Json.arr probes.toArray)])

def ops : List (String × Handler) := [("disc.run", run), ("disc.code", run), ("disc.site", runSite), ("disc.sitecode", runSite)]

end Oas3.Driver.Discr
