import Oas3Model.Driver.Util
import Oas3Model.Driver.Resp
import Oas3Model.Driver.Client
import Oas3Model.Model.Server
import Oas3Model.Model.ServerParams
import Oas3Model.Sem.Router
open Lean Oas3.Driver Oas3.Path Oas3.Client Oas3.Server Oas3.Resp Oas3.Status

namespace Oas3.Driver.Server

def strOf (j : Json) (k : String) : String := (fieldD j k (Json.str "")).getStr?.toOption.getD ""

/-- "* Path: `GET /a/{id}`" → ("GET", "/a/{id}") -/
def docRoute (docs : List Json) : Option (String × String) :=
  docs.findSome? fun d => match d with
    | .str s =>
      match (s.splitOn "Path: `") with
      | [_, rest] =>
        let inner := (rest.splitOn "`").head!
        match inner.splitOn " " with
        | m :: p :: _ => some (m, p)
        | _ => none
      | _ => none
    | _ => none

def statusNum (j : Json) : Option Nat :=
  match strOf j "k" with
  | "const" => lookup (strOf j "name").toList httpConstValue
  | "u16" => (fieldD j "n" Json.null).getNat?.toOption.map fun c => if 100 ≤ c && c ≤ 999 then c else 500
  | _ => none

def sortStrs (l : List String) : List String := (l.toArray.qsort (· < ·)).toList

/-- `serde(rename="x")` among the attributes of a field -/
def renameOf (attrs : List Json) : Option (List Char) :=
  attrs.findSome? fun a => match a with
    | .str t => if t.startsWith "serde(" then (match t.splitOn "rename=\"" with | _ :: r :: _ => some ((r.splitOn "\"").head!.toList) | _ => none) else none
    | _ => none

def sfieldOf (f : Json) : SField :=
  { ident := (strOf f "name").toList, rename := renameOf ((arr (fieldD f "attrs" (Json.arr #[]))).toOption.getD []), ty := (strOf f "ty").toList }

/-- the capture names of an axum route pattern: the texts between `{` and `}` -/
partial def capturesOf (s : List Char) : List (List Char) :=
  match s.dropWhile (· != '{') with
  | [] => []
  | _ :: r => let name := r.takeWhile (· != '}'); name :: capturesOf (r.dropWhile (· != '}'))

/-- the name serde knows a member by: its `rename`, else the identifier without the raw prefix -/
def serdeKey (f : SField) : List Char := f.rename.getD (match f.ident with | 'r' :: '#' :: r => r | i => i)

def locName : Loc → String
  | .path => "path" | .query => "query" | .header => "header" | .cookie => "cookie"

def run : Handler := fun req => do
  let inp ← field req "in"
  let opsJ ← arr (← field inp "ops")
  let impl ← field req "impl"
  -- model ------------------------------------------------------------
  let mut routesM : List String := []
  let mut tablesM : List (String × Json) := []
  let mut shapes : List (List Char × List Char × String) := []
  for d in opsJ do
    let method ← chars (← field d "method")
    let path ← chars (← field d "path")
    let ps ← Oas3.Driver.Client.paramsOf (fieldD d "params" (Json.arr #[]))
    let decl := pathDecl path ps
    match parsePath decl path with
    | .ok p =>
      let ax := Oas3.Driver.Path.axumPattern decl path p
      let line := s!"{String.ofList ax} {String.ofList (routerFn method)} {String.ofList (method.map Char.toUpper)} {String.ofList path}"
      -- (oas3 0.20.1 `PathItem::methods()` yields TRACE twice; since `fix:` cdf3874 the registry keeps one operation per
      -- (path, method): finding F05-1 / F08-6)
      routesM := routesM ++ [line]
      shapes := shapes ++ [(shape ax, ax, String.ofList (routerFn method))]
    | .error _ => pure ()
    let rs ← Oas3.Driver.Resp.responsesOf (fieldD d "responses" (Json.arr #[]))
    let arms := armsOf rs
    tablesM := tablesM ++ [(s!"{String.ofList (method.map Char.toUpper)} {String.ofList path}",
      Json.arr (arms.map fun a => Json.arr #[str a.variant, Json.num a.status, Json.bool a.json]).toArray)]
  let conflict := shapes.any fun (s1, a1, m1) => shapes.any fun (s2, a2, m2) => (s1 == s2 && a1 != a2) || (s1 == s2 && a1 == a2 && m1 == m2 && false)
  let dupRoute := (routesM.map fun r => ((r.splitOn " ").take 2)).eraseDups.length != routesM.length
  let hasTrace := opsJ.any fun d => (strOf d "method").toUpper == "TRACE"
  -- implementation projection -----------------------------------------
  let fns := (arr (fieldD impl "fns" (Json.arr #[]))).toOption.getD []
  let traitMethods := (fns.filter (fun f => strOf f "kind" == "trait")).flatMap fun t => (arr (fieldD t "methods" (Json.arr #[]))).toOption.getD []
  let docOf (h : String) : Option (String × String) :=
    (traitMethods.find? fun m => strOf m "name" == h).bind fun m => docRoute ((arr (fieldD m "docs" (Json.arr #[]))).toOption.getD [])
  let outOf (h : String) : String :=
    match traitMethods.find? fun m => strOf m "name" == h with
    | some m => strOf m "output" | none => ""
  let routesJ := (arr (fieldD impl "routes" (Json.arr #[]))).toOption.getD []
  let mut routesI : List String := []
  let mut handlerOf : List (String × String) := []
  for r in routesJ do
    for m in (arr (fieldD r "methods" (Json.arr #[]))).toOption.getD [] do
      let h := strOf m "handler"
      let (dm, dp) := (docOf h).getD ("?", "?")
      routesI := routesI ++ [s!"{strOf r "path"} {strOf m "m"} {dm} {dp}"]
      handlerOf := handlerOf ++ [(s!"{dm} {dp}", h)]
  let intoResp := fieldD impl "into_response" (Json.mkObj [])
  let enumOfHandler (h : String) : String :=
    -- `impl std::future::Future<Output=anyhow::Result<XResponse>>+Send`
    let o := outOf h
    match o.splitOn "anyhow::Result<" with
    | [_, rest] => (rest.splitOn ">").head!
    | _ => ""
  let tableI (key : String) : Json :=
    match handlerOf.lookup key with
    | some h =>
      match intoResp.getObjVal? (enumOfHandler h) with
      | .ok (.arr arms) => Json.arr (arms.map fun a => Json.arr #[Json.str (strOf a "variant"), (match statusNum (fieldD a "status" Json.null) with | some n => Json.num n | none => Json.null), Json.bool (strOf a "body" == "json")])
      | _ => Json.null
    | none => Json.null
  let model := Json.mkObj [("routes", Json.arr ((sortStrs routesM).map Json.str).toArray), ("tables", Json.mkObj tablesM)]
  let implP := Json.mkObj [("routes", Json.arr ((sortStrs routesI).map Json.str).toArray), ("tables", Json.mkObj (tablesM.map fun (k, _) => (k, tableI k)))]
  let panicked := (impl.getObjVal? "panic").toOption.isSome
  let matched := model == implP
  -- judge on the implementation ----------------------------------------
  let judge := Id.run do
    if panicked then return verdict false [] "generator panicked"
    if (impl.getObjVal? "err").toOption.isSome then return verdict false [] "generation failed"
    -- every declared operation has exactly one route to a handler documented as that operation
    for d in opsJ do
      let method := (strOf d "method").toUpper
      let path := strOf d "path"
      let hits := routesI.filter fun r => match r.splitOn " " with | [_, _, dm, dp] => dm == method && dp == path | _ => false
      if hits.length != 1 then return verdict false (if method == "TRACE" && hits.length == 2 then ["KnownTraceDuplicated"] else []) s!"operation {method} {path} is routed {hits.length} times"
      match hits with
      | [r] =>
        match r.splitOn " " with
        | [ax, rm, _, _] =>
          if rm != String.ofList (routerFn method.toList) then return verdict false [] s!"{method} {path} is registered under routing function {rm}"
          -- the pattern must be the template with parameters renamed, segment by segment
          -- segments as HTTP sees them: `/items/` is another path than `/items` (matchit treats the trailing slash as significant)
          let tsegs := Oas3.Path.templateSegments path.toList
          let asegs := Oas3.Path.templateSegments ax.toList
          if tsegs.map shape != asegs.map shape then
            let onlyEmpty := (tsegs.filter (!·.isEmpty)).map shape == (asegs.filter (!·.isEmpty)).map shape
            return verdict false (if onlyEmpty then ["KnownEmptySegmentDropped"] else []) s!"route pattern {ax} does not have the shape of template {path}"
        | _ => pure ()
      | _ => pure ()
    -- every parameter of the merged (path-item + operation) set reaches the handler: extractor present and
    -- one field per parameter in the location's struct
    for d in opsJ do
      let method := (strOf d "method").toUpper
      let path := strOf d "path"
      match handlerOf.lookup s!"{method} {path}" with
      | some h =>
        -- path-level parameters belong to the PATH ITEM: those declared through any operation of the same path apply here too
        let own := (Oas3.Driver.Client.paramsOf (fieldD d "params" (Json.arr #[]))).toOption.getD []
        let shared := (opsJ.filter fun o => strOf o "path" == path).flatMap fun o => ((Oas3.Driver.Client.paramsOf (fieldD o "params" (Json.arr #[]))).toOption.getD []).filter (·.pathLevel)
        let sharedU := shared.foldl (fun acc q => if acc.any (fun x => x.loc == q.loc && x.name == q.name) then acc else acc ++ [q]) []
        let ps := sharedU ++ own.filter (!·.pathLevel)
        let cps := collectParams ps
        let decl := pathDecl path.toList ps
        let fnJ := fns.find? fun f => strOf f "kind" == "fn" && strOf f "name" == h
        let inputs := match fnJ with | some f => ((arr (fieldD f "inputs" (Json.arr #[]))).toOption.getD []).map (strOf · "ty") | none => []
        let hasTy (p : String) : Bool := inputs.any fun t => (t.splitOn p).length > 1
        let reqTy := match traitMethods.find? (fun m => strOf m "name" == h) with
          | some m => (((arr (fieldD m "inputs" (Json.arr #[]))).toOption.getD []).filterMap fun i => if strOf i "pat" == "request" then some (strOf i "ty") else none).head?.getD ""
          | none => ""
        let nFields (sfx : String) : Nat := match (fieldD impl "items" Json.null).getObjVal? ("struct:" ++ reqTy ++ sfx) with
          | .ok st => ((arr (fieldD st "fields" (Json.arr #[]))).toOption.getD []).length
          | .error _ => 0
        let nq := (cps.filter (·.loc == .query)).length
        let nh := (cps.filter (·.loc == .header)).length
        if hasTy "Path<" != !decl.isEmpty then return verdict false [] s!"{method} {path}: Path extractor present/absent mismatch"
        if hasTy "Query<" != (nq > 0) then return verdict false [] s!"{method} {path}: Query extractor present/absent mismatch"
        if hasTy "HeaderMap" != (nh > 0) then return verdict false [] s!"{method} {path}: header extraction present/absent mismatch"
        if nFields "Query" != nq then return verdict false [] s!"{method} {path}: {nFields "Query"} query fields for {nq} declared query parameters"
        if nFields "Header" != nh then return verdict false [] s!"{method} {path}: {nFields "Header"} header fields for {nh} declared header parameters"
        if nFields "Path" != decl.length then return verdict false [] s!"{method} {path}: {nFields "Path"} path fields for {decl.length} template/declared path parameters"
        -- axum's `Path<T>` hands the captures of the matched route to serde BY NAME: every capture must be the serde name of a
        -- member of the path struct and vice versa (a raw identifier `r#type` is `type` for serde)
        let pathFields : List SField := match (fieldD impl "items" Json.null).getObjVal? ("struct:" ++ reqTy ++ "Path") with
          | .ok st => ((arr (fieldD st "fields" (Json.arr #[]))).toOption.getD []).map sfieldOf
          | .error _ => []
        let caps := ((routesI.filterMap fun r => match r.splitOn " " with | [ax, _, dm, dp] => if dm == method && dp == path then some ax else none | _ => none).head?.map
          fun ax => capturesOf ax.toList).getD []
        -- (members of parameters that the template does not mention — not a valid document — are left aside)
        let tmplFields := (capturesOf path.toList).filterMap fun n => decl.lookup n
        let keys := (pathFields.filter fun f => tmplFields.contains f.ident).map serdeKey
        if !pathFields.isEmpty && (!(caps.all keys.contains) || !(keys.all caps.contains)) then
          return verdict false [] s!"{method} {path}: the route captures {caps.map String.ofList} are not the serde names {keys.map String.ofList} of the members of {reqTy}Path (the extractor fails with `missing field`)"
        -- member by member: what the handler is handed for each parameter of the MERGED set (an operation-level
        -- parameter replaces the path-item one of the same location and name)
        let wOf (o : Json) : List WParam := (Oas3.Driver.Client.wparamsOf (fieldD o "params" (Json.arr #[]))).toOption.getD []
        let sharedW := ((opsJ.filter fun o => strOf o "path" == path).flatMap fun o => (wOf o).filter (·.pathLevel)).foldl
          (fun acc q => if acc.any (fun x => x.loc == q.loc && x.name == q.name) then acc else acc ++ [q]) []
        let mergedW := collectW (sharedW ++ (wOf d).filter (!·.pathLevel))
        let declaredPath := (mergedW.filter (·.loc == .path)).map (·.name)
        let synth : List WParam := (decl.filter fun (n, _) => !declaredPath.contains n).map fun (n, _) => { name := n, loc := .path, item := .string, required := true }
        let mergedAll := mergedW ++ synth
        if !mergedAll.any (·.hasDefault) then
          for (loc, sfx) in [(Loc.query, "Query"), (Loc.header, "Header"), (Loc.path, "Path")] do
            let fields : List SField := match (fieldD impl "items" Json.null).getObjVal? ("struct:" ++ reqTy ++ sfx) with
              | .ok st => ((arr (fieldD st "fields" (Json.arr #[]))).toOption.getD []).map sfieldOf
              | .error _ => []
            if !locOk mergedAll loc fields then
              let msg := match firstBad mergedAll loc fields with
                | some p => s!"{locName loc} parameter `{String.ofList p.name}` (required = {p.required}, array = {p.isArray}, type {reprStr p.item}) has no fitting member in {reqTy}{sfx}: members {fields.map fun f => (String.ofList (memberKey loc f), String.ofList f.ty)}"
                | none => s!"{reqTy}{sfx} has members beyond the declared {locName loc} parameters"
              return verdict false [] s!"{method} {path}: {msg}"
      | none => pure ()
    -- no two routes may claim the same (pattern shape, method) or conflicting patterns
    let keys := routesI.map fun r => match r.splitOn " " with | [ax, rm, _, _] => (String.ofList (shape ax.toList), rm) | _ => ("", "")
    if keys.eraseDups.length != keys.length then return verdict false (if hasTrace then ["KnownTraceDuplicated"] else []) "two operations share one (route pattern, method)"
    let pats := (routesI.map fun r => (r.splitOn " ").head!).eraseDups
    if pats.any fun a => pats.any fun b => a != b && shape a.toList == shape b.toList then
      return verdict false (if conflict then ["KnownConflictingPatterns"] else []) "two route patterns differ only in parameter names: axum/matchit rejects the router at start-up"
    -- BEHAVIOUR of the emitted router (stated axum semantics, Sem/Router.lean, tied to the real axum by `route.dispatch`)
    -- against what the document declares: every declared (method, path) reaches its own handler, an undeclared method on a
    -- declared path is refused (405), an undeclared path is not found (404)
    let lineOf (method path : String) : Option Nat :=
      (routesI.zipIdx.find? fun (r, _) => match r.splitOn " " with | [_, _, dm, dp] => dm == method && dp == path | _ => false).map (·.2)
    let implTable : Option (List Oas3.Router.Route) := Id.run do
      let mut t : List Oas3.Router.Route := []
      for ax in (routesI.map fun r => (r.splitOn " ").head!).eraseDups do
        match Oas3.ReqInterop.parsePattern ax.toList with
        | none => return none
        | some ps =>
          let ms := routesI.zipIdx.filterMap fun (r, i) => match r.splitOn " " with
            | [a, rm, _, _] => if a == ax then some (rm.toUpper.toList, i) else none
            | _ => none
          t := t ++ [{ pattern := ps, methods := ms }]
      return some t
    let specTable : Option (List Oas3.Router.Route) := Id.run do
      let mut t : List Oas3.Router.Route := []
      for pth in (opsJ.map fun d => strOf d "path").eraseDups do
        match Oas3.ReqInterop.parsePattern (splitOnce '?' pth.toList).1 with
        | none => return none
        | some ps =>
          let ms := opsJ.filterMap fun d => if strOf d "path" == pth then
            (lineOf (strOf d "method").toUpper pth).map fun i => ((strOf d "method").toUpper.toList, i) else none
          t := t ++ [{ pattern := ps, methods := ms }]
      return some t
    -- (the HEAD deviation concerns every GET-only path: it is NOTED and reported only when nothing else fails, so that it
    -- never stands in front of another failure)
    let mut headNote : Option String := none
    match implTable, specTable with
    | some it, some st =>
      for r in st do
        let own : List (List Char) := r.pattern.map fun sg => match sg with | .lit l => l | .cap pre _ => pre ++ ['v']
        for segs in [own, own ++ ["zz".toList]] do
          for m in Oas3.Server.oasMethods do
            let want := Oas3.Router.dispatchStrict st m segs
            let got := Oas3.Router.dispatch it m segs
            if want != got then
              let pathS := "/" ++ "/".intercalate (segs.map String.ofList)
              let showO (o : Oas3.Router.Outcome) : String := match o with
                | .handler i => s!"handler of `{((routesI.zipIdx.find? fun (_, k) => k == i).map (·.1)).getD "?"}`" | .notFound => "404" | .methodNotAllowed => "405"
              let cls : List String :=
                if r.pattern.any (fun sg => sg == .lit []) then ["KnownEmptySegmentDropped"]
                -- F05-6: axum's MethodRouter serves HEAD from the GET handler when no HEAD handler is registered
                else if m == Oas3.Router.mHEAD && want == .methodNotAllowed && Oas3.Router.dispatchStrict it m segs == .methodNotAllowed then ["KnownHeadServedByGet"]
                else if hasTrace then ["KnownTraceDuplicated"] else []
              let msg := s!"{String.ofList m} {pathS}: the document declares {showO want}, the emitted router answers {showO got}"
              if cls == ["KnownHeadServedByGet"] then
                if headNote.isNone then headNote := some msg
              else return verdict false cls msg
    | _, _ => pure ()     -- a template matchit refuses (text after a parameter): C06's F-C06-7
    -- response variants: status in the declared key's range, body encoding declared
    for d in opsJ do
      let key := s!"{(strOf d "method").toUpper} {strOf d "path"}"
      let rs := (Oas3.Driver.Resp.responsesOf (fieldD d "responses" (Json.arr #[]))).toOption.getD []
      if rs.isEmpty then continue
      let vs := variantsOf rs
      match tableI key with
      | .arr arms =>
        for a in arms do
          match a with
          | .arr #[.str vn, st, .bool isJson] =>
            match vs.find? (fun v => v.name == vn.toList) with
            | some v =>
              let dkey := match (sortKeys rs).find? (fun p => fromStr p.1 == v.tok) with | some p => p.1 | none => "default".toList
              match st.getNat?.toOption with
              | some n =>
                if !statusOkFor dkey n then
                  let known := (if !canonicalKey dkey then ["KnownNonCanonicalKey"] else [])
                  return verdict false known s!"variant {vn} (declared for {String.ofList dkey}) is sent with status {n}"
              | none => return verdict false [] s!"variant {vn}: unreadable status expression"
              -- media type: JSON encoding is right only for JSON-category payloads
              let cat := primaryCat v.medias
              if v.schemaType.isSome && isJson && cat != .json then
                return verdict false ["KnownAlwaysJson"] s!"variant {vn} declares a {reprStr cat} payload but is sent as JSON"
              if v.schemaType.isSome != isJson && !(v.schemaType.isSome && cat != .json) then
                return verdict false [] s!"variant {vn}: payload/body mismatch"
            | none => return verdict false [] s!"IntoResponse arm for unknown variant {vn}"
          | _ => return verdict false [] "unreadable IntoResponse arm"
      | _ => return verdict false [] s!"no IntoResponse table for {key}"
    -- handler errors become 500
    let handlers := fns.filter (fun f => strOf f "kind" == "fn" && strOf f "name" != "router")
    if !handlers.all (fun f => ((strOf f "body").splitOn "Err(e)=>").length > 1 && ((strOf f "body").splitOn "(axum::http::StatusCode::INTERNAL_SERVER_ERROR,format!(\"Internal error: {e}\")").length > 1 && ((strOf f "body").splitOn "Ok(response)=>response.into_response()").length > 1) then
      return verdict false [] "a handler does not map Err to 500"
    match headNote with
    | some msg => return verdict false ["KnownHeadServedByGet"] msg
    | none => return verdict true []
  let branch := s!"ops{opsJ.length}" ++ (if conflict then "+conflict" else "") ++ (if dupRoute then "+dup" else "")
  pure (Json.mkObj [("model", model), ("match", matched), ("judge", judge), ("branch", branch), ("impl_proj", implP)])

def ops : List (String × Handler) := [("server.op", run)]

end Oas3.Driver.Server
