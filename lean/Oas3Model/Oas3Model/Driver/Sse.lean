import Oas3Model.Driver.Util
import Oas3Model.Model.EventStream
import Oas3Model.Driver.Resp
open Lean Oas3.Driver Oas3.Sse Oas3.EventStream

namespace Oas3.Driver.Sse

/-- `serde_json::from_str`-like decoding of an event's data: ONE JSON value, white space around it, nothing else (the
property: "the decoded payload, or a decode error for that event alone").  Until `fix:` (F20-5) `EventStream::parse_event` did
not call `end()` and this reference had mirrored that: data `3\n4` or `1 x` counted as the payload `3` / `1`.  (Payload
alphabet of the generated cases is restricted to where Lean's and serde_json's grammars agree.) -/
def decJson (d : List Char) : Json :=
  let p : Std.Internal.Parsec.String.Parser Json := do
    Std.Internal.Parsec.String.ws
    let v ← Lean.Json.Parser.anyCore
    Std.Internal.Parsec.String.ws
    Std.Internal.Parsec.eof
    pure v
  match Std.Internal.Parsec.String.Parser.run p (String.ofList d) with
  | .ok v => Json.mkObj [("ok", v)]
  | .error _ => Json.str "jsonerr"

def scriptOf (j : Json) : Except String (List In) := do
  let a ← arr j
  a.mapM fun x => match x with
    | .str "p" => pure In.pending
    | .arr bs => do
      let ns ← bs.toList.mapM natOf
      pure (In.chunk (ns.map fun n => UInt8.ofNat n))
    | _ => throw "script item"

def outJson : OuterOut Json → Json
  | .pending => "pending"
  | .item r => r
  | .sseErr => "sseerr"
  | .done => "done"
  | .panic => "panic"

def allBytes : List In → List UInt8
  | [] => []
  | .chunk b :: r => b ++ allBytes r
  | .pending :: r => allBytes r

/-- reference (the property's reading of the SSE format): events of the WHOLE stream, where a CR
that is the very last character is a complete line terminator. -/
def specItems (whole : List UInt8) : List Json × Bool :=
  let (cs, rem) := utf8Split whole
  let cs := match cs with | c :: t => if c == bom then t else cs | [] => cs
  let cs' := if cs.getLast? == some '\r' then cs ++ ['\n'] else cs
  let (_, _, evs) := drainAll cs' []
  ((evs.filter (fun d => !d.isEmpty)).map decJson, rem.isEmpty)

/-- scripted transport: `[bytes..]` = `Ready(chunk)`, `"p"` = `Pending`, waker kept and woken after
the call, `"w"` = `Pending`, waker woken before returning -/
def stepsOf (j : Json) : Except String (List Step) := do
  let a ← arr j
  a.mapM fun x => match x with
    | .str "p" => pure Step.pendLater
    | .str "w" => pure Step.pendWake
    | .arr bs => do
      let ns ← bs.toList.mapM natOf
      pure (Step.chunk (ns.map fun n => UInt8.ofNat n))
    | _ => throw "script item"

def pendingJson (inner woke : Bool) : Json :=
  Json.mkObj [("pending", Json.mkObj [("inner", Json.bool inner), ("woke", Json.bool woke)])]

def seenJson : Seen Json → Json
  | .out .pending ip w => pendingJson ip w
  | .out o _ _ => outJson o
  | .stalled => Json.mkObj [("stalled", Json.bool true)]
  | .fuel => "no-end"

/-- what the harness reports per poll, read back -/
inductive ImplItem
  | pending (inner woke : Bool)
  | stalled (after : Nat) (inner : Bool)
  | noEnd
  | item (j : Json)

def implItemOf (j : Json) : ImplItem :=
  match j.getObjVal? "pending" with
  | .ok p => .pending ((p.getObjValAs? Bool "inner").toOption.getD false) ((p.getObjValAs? Bool "woke").toOption.getD false)
  | .error _ =>
    match j.getObjVal? "stalled" with
    | .ok _ => .stalled ((j.getObjValAs? Nat "after_events").toOption.getD 0) ((j.getObjValAs? Bool "inner").toOption.getD false)
    | .error _ => if j == Json.str "no-end" then .noEnd else .item j

def run : Handler := fun req => do
  let inp ← field req "in"
  let steps ← stepsOf (← field inp "script")
  let script := steps.map Step.toIn
  let impl ← field req "impl"
  -- the model under EXECUTOR semantics (re-poll only when a wake-up is due); `exactly_once_exec`
  let trace := execTrace decJson (innerRunW {} steps)
  let panics := trace.any (fun o => match o with | .out .panic _ _ => true | _ => false)
  let model := if panics then Json.mkObj [("panic", Json.bool true)] else Json.arr (trace.map seenJson).toArray
  let (want, cleanEnd) := specItems (allBytes script)
  let wantAll := want ++ (if cleanEnd then [] else [Json.str "sseerr"]) ++ [Json.str "done"]
  let judge ← match impl with
    | .arr xs =>
      let its := xs.toList.map implItemOf
      let items := its.filterMap fun i => match i with | .item j => some j | _ => none
      let modelItems := trace.filterMap fun s => match s with
        | .out .pending _ _ => none
        | .out o _ _ => some (outJson o)
        | _ => none
      let stall := its.findSome? fun i => match i with
        | .stalled k inner => some (k, inner)
        | .pending false false => some (items.length, false)
        | _ => none
      match stall with
      | some (k, inner) =>
        pure (verdict false [] (s!"lost wake-up: poll_next answered Pending after {k} item(s) with no wake-up due (" ++
          (if inner then "the transport took a waker, but waking it does not reach the task" else "the inner stream did not answer Pending in that call and the waker was not woken") ++
          "): under an executor the consumer sleeps forever; still to come: " ++ (Json.arr (wantAll.drop k).toArray).compress))
      | none =>
      if its.any (fun i => match i with | .noEnd => true | _ => false) || items.getLast? != some (Json.str "done") then
        pure (verdict false [] s!"the stream does not end: no Ready(None) after the byte stream ended; want {Json.arr wantAll.toArray |>.compress}")
      else if items == wantAll then pure (verdict true [])
      else if items == modelItems && ((utf8Split (allBytes script)).1.getLast? == some '\r') then
        pure (verdict false ["KnownTrailingCR"] "last event lost: stream ends in a bare CR")
      else pure (verdict false [] s!"items differ from the whole-stream parse (missing, duplicated or reordered): want {Json.arr wantAll.toArray |>.compress}")
    | _ =>
      if panics && impl == model then pure (verdict false ["KnownBomPanic"] "stream starting with U+FEFF makes eventsource-stream panic (&string[1..])")
      else pure (verdict false [] "implementation did not return a trace (panic/abort)")
  let nchunks := (script.filter (fun i => match i with | .chunk _ => true | _ => false)).length
  let skipped := ((innerRunW {} steps).filter (fun i => i == .ev [])).length
  let branch := s!"ev{want.length}" ++ (if !cleanEnd then "+utf8" else "") ++ (if nchunks > 1 then "+cut" else "") ++
    (if steps.any (fun i => match i with | .pendLater => true | _ => false) then "+pend" else "") ++
    (if steps.any (fun i => match i with | .pendWake => true | _ => false) then "+wake" else "") ++
    (if skipped ≥ 32 then "+skip32" else if skipped > 0 then "+skip" else "")
  pure (answer model impl judge (if want.isEmpty && nchunks ≤ 1 && skipped == 0 then "trivial" else branch))

/-! ### how the stream is OBTAINED: the emitted `parse_response` of a status that declares
`text/event-stream` next to other media types (tie E: client generated in-process) -/

open Oas3.Resp Oas3.Status Oas3.Driver.Resp in
def obtain : Handler := fun req => do
  let inp ← field req "in"
  let responses ← responsesOf (← field inp "responses")
  let impl ← field req "impl"
  let keys := (sortKeys responses).map (·.1)
  let modelChain := chainOf responses
  let modelJson := match modelChain with | some ch => chainJson ch | none => Json.null
  let implChainJ := fieldD impl "chain" Json.null
  let implChain := (chainOfJson implChainJ).toOption
  let matched := match modelChain, implChain with
    | some a, some b => a == b
    | none, none => implChainJ == Json.null
    | _, _ => false
  let variants := (arr (fieldD impl "variants" (Json.arr #[]))).toOption.getD []
  let vkey (name : List Char) : Option (List Char) :=
    (variants.find? fun v => (v.getObjValAs? String "name").toOption == some (String.ofList name)).map fun v =>
      docKey ((arr (fieldD v "docs" (Json.arr #[]))).toOption.getD [])
  -- the model names a variant `<Status><type string>` (two groups of one category under a status):
  -- `Okoas3_gen_support::EventStream<Pet>` is not an identifier, building the enum panics
  let identOk (s : List Char) : Bool := match s with | c :: r => c.isAlpha && r.all (fun c => c.isAlphanum || c == '_') | [] => false
  let modelBadIdent := (variantsOf responses).any fun v => !identOk v.name
  let implPanics := (impl.getObjVal? "panic").toOption.isSome
  let matched := matched || (modelBadIdent && implPanics)
  -- keys whose response declares an event stream WITH an event type
  let streamKeys := (responses.filter fun (_, ds) => ds.any fun d => catOf d.ct == .eventStream && d.schema.isSome).map (·.1)
  let answers : List (List Char) := ["text/event-stream", "text/event-stream; charset=utf-8"].map String.toList
  let judge := Id.run do
    if implPanics || (impl.getObjVal? "err").toOption.isSome then
      return verdict false (if modelBadIdent && implPanics then ["KnownVariantSuffixPanic"] else [])
        s!"no client (hence no stream) for a response set with an event stream, the generator fails: {impl.compress}"
    let some ch := implChain | return verdict false [] "no parse_response chain emitted"
    let mut bad : Option (Nat × List Char × List Char × Case) := none
    let mut badDefault : Option (Nat × List Char × List Char × Case) := none
    for n in List.range 500 do
      let n := n + 100
      let want := specKey keys n
      if streamKeys.contains want then
        for ct in answers do
          let got := evalChain ch n ct
          let gk := (vkey got.variant).getD []
          if !(got.extract == "event-stream".toList && lowerAscii gk == lowerAscii want) then
            -- the `default` response is answered by the fallback, which knows ONE variant only
            let viaFallback := (evalChainAux n ct ch.handlers).isNone && want == "default".toList &&
              (match modelChain with | some mch => evalChain mch n ct == got | none => false)
            if viaFallback then
              if badDefault.isNone then badDefault := some (n, ct, want, got)
            else
              if bad.isNone then bad := some (n, ct, want, got)
    let msg (b : Nat × List Char × List Char × Case) : String :=
      let (n, ct, want, got) := b
      s!"status {n} answered with content-type {String.ofList ct}: response {String.ofList want} declares text/event-stream, " ++
        s!"but parse_response picks {String.ofList got.variant} and reads the body with `{String.ofList got.extract}` (no EventStream is handed out)"
    match bad, badDefault with
    | some b, _ => return verdict false [] (msg b)
    | none, some b => return verdict false ["KnownDefaultStreamNotDispatched"] (msg b)
    | none, none => return verdict true []
  let nmedia := (responses.map fun r => r.2.length).foldl max 0
  let branch := s!"k{keys.length}s{streamKeys.length}m{nmedia}"
  pure (Json.mkObj [("model", modelJson), ("match", matched), ("judge", judge), ("branch", if streamKeys.isEmpty then "trivial" else branch)])

def ops : List (String × Handler) := [("sse.run", run), ("sse.obtain", obtain)]

end Oas3.Driver.Sse
