import Oas3Model.Driver.Util
import Oas3Model.Model.EventStream
open Lean Oas3.Driver Oas3.Sse Oas3.EventStream

namespace Oas3.Driver.Sse

/-- `serde_json::Deserializer::from_str(data)` + `deserialize::<Value>` WITHOUT `end()`: a JSON
value must parse at the front; trailing text is not looked at. (Payload alphabet of the generated
cases is restricted to where Lean's and serde_json's grammars agree.) -/
def decJson (d : List Char) : Json :=
  let p : Std.Internal.Parsec.String.Parser Json := do
    Std.Internal.Parsec.String.ws
    Lean.Json.Parser.anyCore
  match Std.Internal.Parsec.String.Parser.run p (String.ofList d) with
  | .ok v => Json.mkObj [("ok", v)]
  | .error _ => Json.str "jsonerr"

def scriptOf (j : Json) : Except String (List In) := do
  let a ← arr j
  a.mapM fun x => match x with
    | .str "p" => pure In.pending
    | .arr bs => do
      let ns ← bs.toList.mapM natOf
      pure (In.chunk (ns.map fun n => UInt8.ofNat n))
    | _ => throw "script item"

def outJson : OuterOut Json → Json
  | .pending => "pending"
  | .item r => r
  | .sseErr => "sseerr"
  | .done => "done"
  | .panic => "panic"

def allBytes : List In → List UInt8
  | [] => []
  | .chunk b :: r => b ++ allBytes r
  | .pending :: r => allBytes r

/-- reference (the property's reading of the SSE format): events of the WHOLE stream, where a CR
that is the very last character is a complete line terminator. -/
def specItems (whole : List UInt8) : List Json × Bool :=
  let (cs, rem) := utf8Split whole
  let cs := match cs with | c :: t => if c == bom then t else cs | [] => cs
  let cs' := if cs.getLast? == some '\r' then cs ++ ['\n'] else cs
  let (_, _, evs) := drainAll cs' []
  ((evs.filter (fun d => !d.isEmpty)).map decJson, rem.isEmpty)

def run : Handler := fun req => do
  let inp ← field req "in"
  let script ← scriptOf (← field inp "script")
  let impl ← field req "impl"
  let trace := outerTrace decJson (innerRun {} script)
  let panics := trace.any (fun o => match o with | .panic => true | _ => false)
  let model := if panics then Json.mkObj [("panic", Json.bool true)] else Json.arr (trace.map outJson).toArray
  let (want, cleanEnd) := specItems (allBytes script)
  let wantAll := want ++ (if cleanEnd then [] else [Json.str "sseerr"]) ++ [Json.str "done"]
  let judge ← match impl with
    | .arr xs =>
      let items := xs.toList.filter (· != Json.str "pending")
      let npend := (xs.toList.filter (· == Json.str "pending")).length
      let spend := (script.filter (fun i => match i with | .pending => true | _ => false)).length
      let modelItems := (trace.map outJson).filter (· != Json.str "pending")
      if items == wantAll then
        if npend ≤ spend then pure (verdict true [])
        else pure (verdict false [] "more Pending results than the transport produced (spurious not-ready)")
      else if items == modelItems && ((utf8Split (allBytes script)).1.getLast? == some '\r') then
        pure (verdict false ["KnownTrailingCR"] "last event lost: stream ends in a bare CR")
      else pure (verdict false [] s!"items differ from the whole-stream parse: want {Json.arr wantAll.toArray |>.compress}")
    | _ =>
      if panics && impl == model then pure (verdict false ["KnownBomPanic"] "stream starting with U+FEFF makes eventsource-stream panic (&string[1..])")
      else pure (verdict false [] "implementation did not return a trace (panic/abort)")
  let nchunks := (script.filter (fun i => match i with | .chunk _ => true | _ => false)).length
  let branch := s!"ev{want.length}" ++ (if !cleanEnd then "+utf8" else "") ++ (if nchunks > 1 then "+cut" else "") ++
    (if script.any (fun i => match i with | .pending => true | _ => false) then "+pend" else "")
  pure (answer model impl judge (if want.isEmpty && nchunks ≤ 1 then "trivial" else branch))

def ops : List (String × Handler) := [("sse.run", run)]

end Oas3.Driver.Sse
