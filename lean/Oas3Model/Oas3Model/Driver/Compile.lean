import Oas3Model.Driver.Util
import Oas3Model.Model.Compile
/-! Driver ops of C01: `comp.post` (tie K), `comp.gen` (tie E), `comp.rustc` (tie A). -/
open Lean
namespace Oas3.Driver.Compile
open Oas3.Driver Oas3.Comp

def boolD (j : Json) (k : String) : Bool := match (fieldD j k (Json.bool false)).getBool? with | .ok b => b | .error _ => false
def charsD (j : Json) (k : String) : List Char := match (fieldD j k (Json.str "")).getStr? with | .ok s => s.toList | .error _ => []
def listD (j : Json) (k : String) : List Json := match (fieldD j k (Json.arr #[])).getArr? with | .ok a => a.toList | .error _ => []
def namesD (j : Json) (k : String) : List Comp.Name := (listD j k).filterMap fun x => match x.getStr? with | .ok s => some s.toList | .error _ => none

def kindOf (s : List Char) : Kind :=
  if s == "request".toList then .request else if s == "path".toList then .path else if s == "query".toList then .query
  else if s == "header".toList then .header else if s == "enum".toList then .enum else if s == "alias".toList then .alias else .schema

def depOf (j : Json) : Dep :=
  match j.getStr? with
  | .ok s => { to := s.toList }
  | .error _ => if (j.getObjVal? "arr").isOk then { to := charsD j "arr", arr := true } else { to := charsD j "map", map := true }

def nodeOf (j : Json) : Node :=
  { name := charsD j "name", kind := kindOf (charsD j "kind"), deps := (listD j "deps").map depOf, attrs := boolD j "attrs", ci := boolD j "ci" }

def seedOf (j : Json) : Comp.Name × Flags :=
  match j.getArr? with
  | .ok a => ((match (a[0]?.getD Json.null).getStr? with | .ok s => s.toList | .error _ => []),
              ((match (a[1]?.getD Json.null).getBool? with | .ok b => b | .error _ => false),
               (match (a[2]?.getD Json.null).getBool? with | .ok b => b | .error _ => false)))
  | .error _ => ([], (false, false))

def typeOutJson (o : TypeOut) : Json :=
  Json.mkObj [("name", str o.name), ("ser", str o.ser), ("de", str o.de), ("derives", strList o.derives),
              ("nested", Json.arr (o.nested.map Json.bool).toArray)]

/-- the property on the IMPLEMENTATION's post-processing output: Serialize / Deserialize / Validate closure over
the graph edges; a break across a map edge is the characterised class -/
def judgePost (g : Graph) (impl : Json) : Json :=
  let outs := listD impl "types"
  let cap (k : String) (n : Comp.Name) : Option Bool :=
    (outs.find? fun o => charsD o "name" == n).map fun o => charsD o k != "none".toList
  let derivesVal (n : Comp.Name) : Option Bool :=
    (outs.find? fun o => charsD o "name" == n).map fun o => (namesD o "derives").contains "validator::Validate".toList
  -- serde direction is decided by usage for Schema structs and enums only; the other kinds have a fixed mode
  let serdeTarget (n : Comp.Name) : Bool := g.any fun x => x.name == n && (x.kind == .schema || x.kind == .enum)
  let bad : List (Option String × String) := g.flatMap fun nd =>
    if nd.kind == .alias then [] else
    let nestedI := match (outs.find? fun o => charsD o "name" == nd.name) with
      | some o => (listD o "nested").map fun (b : Json) => match b.getBool? with | .ok x => x | .error _ => false
      | none => []
    (nd.deps.zipIdx.flatMap fun (d, i) =>
      (["ser", "de"].flatMap fun k =>
        if cap k nd.name == some true && cap k d.to == some false && serdeTarget d.to then [((if d.map then some "KnownSerdeMapEdge" else if d.arr then some "KnownSerdeNestedArrayEdge" else none), s!"{String.ofList nd.name} has {k} but its member type {String.ofList d.to} has not")] else []) ++
      (if nestedI.getD i false && derivesVal d.to != some true then [((none : Option String), s!"{String.ofList nd.name}.f{i} is nested but {String.ofList d.to} does not derive Validate")] else []))
  if bad.isEmpty then verdict true []
  else if bad.all (·.1.isSome) then verdict false (bad.filterMap (·.1)).eraseDups (bad.head!.2)
  else verdict false [] ((bad.filter (·.1.isNone)).head!.2)

def postOp : Handler := fun req => do
  let inp ← field req "in"
  let impl ← field req "impl"
  let g := (listD inp "nodes").map nodeOf
  let server := charsD inp "target" == "server".toList
  let seeds := (listD inp "seeds").map seedOf
  match propagate g seeds with
  | none => pure (Json.mkObj [("model", Json.str "fuel-out"), ("match", Json.bool false), ("judge", judgePost g impl), ("branch", "fuel-out")])
  | some u =>
    let model := Json.mkObj [("types", Json.arr ((g.map (typeOut g server u)).map typeOutJson).toArray), ("uses", strList (uses g server u))]
    let implN := Json.mkObj [("types", fieldD impl "types" Json.null), ("uses", fieldD impl "uses" Json.null)]
    let hasMap := g.any fun nd => nd.deps.any fun d => d.map || d.arr
    let cyc := g.any fun nd => nd.deps.any fun d => d.to == nd.name
    let br := (if hasMap then "map+" else "") ++ (if cyc then "self+" else "") ++ (if server then "server" else "client") ++
      (if g.any (·.attrs) then "+attrs" else "") ++ s!"+n{g.length}"
    pure (Json.mkObj [("model", model), ("match", Json.bool (model == implN)), ("judge", judgePost g impl), ("branch", Json.str br)])

def refOf (j : Json) : Ref := { to := charsD j "to", map := boolD j "map", vec := boolD j "vec", arr := boolD j "arr", wrap := boolD j "wrap" }
def fldOf (j : Json) : Fld :=
  { name := charsD j "name", refs := (listD j "refs").map refOf, nested := boolD j "nested", len := boolD j "len", sep := boolD j "sep", sepStr := boolD j "sepStr", dur := boolD j "dur", opt := boolD j "opt", serdeAsAttr := boolD j "serdeAsAttr", asOpt := boolD j "asOpt", hdrOpt := boolD j "hdrOpt", hdrParse := boolD j "hdrParse", validated := boolD j "validated" }
def vbOf (j : Json) : Comp.Name × Bool := (charsD j "variant", boolD j "boxed")
def itemOf (j : Json) : Item :=
  { file := charsD j "file", kind := charsD j "kind", name := charsD j "name", vis := charsD j "vis", ser := boolD j "ser", de := boolD j "de",
    val := boolD j "val", bare := namesD j "bare", fields := (listD j "fields").map fldOf, variants := namesD j "variants",
    evstream := boolD j "evstream", respEnum := boolD j "respEnum", reqStruct := boolD j "reqStruct", serdeAs := boolD j "serdeAs", intoResp := boolD j "intoResp", params := namesD j "params", bytesBody := boolD j "bytesBody", optBody := boolD j "optBody",
    fromStr := boolD j "fromStr", vboxed := (listD j "vboxed").map vbOf, helperCtors := (listD j "helperCtors").map vbOf }

def objLists (j : Json) : List (Comp.Name × List Comp.Name) :=
  match j.getObj? with
  | .ok o => o.toList.map fun (k, v) => (k.toList, match v.getArr? with | .ok a => a.toList.filterMap (fun x => match x.getStr? with | .ok s => some s.toList | .error _ => none) | .error _ => [])
  | .error _ => []

def modOf (inp dig : Json) : Mod :=
  { mode := charsD inp "mode", visFile := charsD (fieldD inp "cfg" Json.null) "vis" == "file".toList, schemas := namesD inp "schemas", refd := (match inp.getObjVal? "refd" with | .ok (.arr _) => some (namesD inp "refd") | _ => none), items := (listD dig "items").map itemOf,
    imports := objLists (fieldD dig "imports" Json.null), mentions := objLists (fieldD dig "mentions" Json.null),
    constMentions := objLists (fieldD dig "const_mentions" Json.null) }

def errOf (j : Json) : RErr :=
  { code := charsD j "code", file := charsD j "file", ikind := charsD j "ikind", iname := charsD j "iname", name := charsD j "name", trait := charsD j "trait" }

def violStr : Viol → String
  | .undefinedType n => s!"type {String.ofList n} is mentioned but not defined"
  | .privateAcross f n => s!"{String.ofList f}.rs names {String.ofList n}, which is private to types.rs"
  | .serdeAsMismatch it f => s!"{String.ofList it}.{String.ofList f}: the serde_as adapter and the member type disagree about Option (or the struct lacks #[serde_as])"
  | .bodyCap it t ser mp ar w => s!"{String.ofList it}.body is {if ser then "sent" else "extracted"} as JSON/form but {String.ofList t} has no {if ser then "Serialize" else "Deserialize"}{if mp then " (through a map)" else if ar then " (through a nested array)" else if w then " (wrapped body type)" else ""}"
  | .headerOptMismatch it => s!"{String.ofList it}: the HeaderMap conversion reads a non-Option member with `if let Some(..)`"
  | .serde it t ser m a w => s!"{String.ofList it} has {if ser then "Serialize" else "Deserialize"} but its member type {String.ofList t} has not{if m then " (through a map)" else if a then " (through a nested array)" else if w then " (wrapped payload of a response enum)" else ""}"
  | .nestedNoValidate it t => s!"{String.ofList it}: validate(nested) on a member of type {String.ofList t}, which has no Validate"
  | .lengthNeedsSer it t => s!"{String.ofList it}: validate(length) on Vec<{String.ofList t}>, and {String.ofList t} has no Serialize"
  | .dupParam it => s!"{String.ofList it}::new has two parameters of one name"
  | .dupMember it => s!"{String.ofList it} has two members of one name"
  | .dupItem n => s!"{String.ofList n} is defined twice"
  | .sepNonString it => s!"{String.ofList it}: StringWithSeparator<_, String> on a Vec whose element type is not String"
  | .evstreamJson it => s!"{String.ofList it}: IntoResponse wraps an EventStream payload in axum::Json"
  | .serverBytesBody it => s!"server handler {String.ofList it} extracts the body as axum::body::Bytes but the request struct's body member is Vec<u8>"
  | .serverOptBody it => s!"server handler {String.ofList it} extracts an optional body as Option<String|Form|Bytes>, which is no axum extractor"
  | .serverDurationHeader it => s!"{String.ofList it}: a chrono::Duration header member is read with str::parse, but TimeDelta has no FromStr"
  | .aliasCycle it => s!"type alias {String.ofList it} expands to itself"
  | .missingImport n => s!"derive({String.ofList n}) is used unqualified but not imported"
  | .undefinedConst n => s!"constant {String.ofList n} is used but not defined"
  | .headerParseNoFromStr it t => s!"{String.ofList it}: a header member of type {String.ofList t} is built with str::parse, but {String.ofList t} has no FromStr"
  | .validatorBinderShadowed it mb => s!"{String.ofList it}.{String.ofList mb}: an Option member with a validate attribute named like a local of the Validate derive (`errors` / `entry`)"
  | .fnShadowsImport f n => s!"{String.ofList f}.rs defines `fn {String.ofList n}` and imports `{String.ofList n}`"
  | .ctorBoxMismatch it v => s!"enum {String.ofList it}: the helper constructor of variant {String.ofList v} and the variant's payload type disagree about Box"

/-- the violations without a class first (they are what makes a verdict a VIOLATION) -/
def whyOf (m : Mod) : String :=
  let vs := violations m
  ", ".intercalate (((vs.filter fun v => (classOf m v).isNone) ++ (vs.filter fun v => (classOf m v).isSome)).map violStr |>.eraseDups |>.take 6)

def genOp : Handler := fun req => do
  let inp ← field req "in"
  let impl ← field req "impl"
  match impl.getObjVal? "ok" with
  | .error _ =>
    -- the generator reported an error / panicked: nothing was written, C01 holds vacuously (C12's business)
    pure (Json.mkObj [("model", Json.null), ("match", Json.bool true), ("judge", verdict true []), ("branch", "no-output")])
  | .ok dig =>
    let perr := listD dig "parse_errors"
    if !perr.isEmpty then
      pure (Json.mkObj [("model", Json.null), ("match", Json.bool true), ("judge", verdict false [] "emitted file does not parse"), ("branch", "parse-error")])
    else
      let m := modOf inp dig
      let v := judgeWF m
      let br := String.ofList m.mode ++ (if v.ok then "" else "+" ++ "+".intercalate v.known)
      pure (Json.mkObj [("model", Json.null), ("match", Json.bool true), ("judge", verdict v.ok v.known (whyOf m)), ("branch", Json.str br)])

def rustcOp : Handler := fun req => do
  let inp ← field req "in"
  let impl ← field req "impl"
  let dig := fieldD impl "digest" Json.null
  let m := modOf inp dig
  let errs := (listD impl "errors").map errOf
  let v := judgeA m errs
  let predicted := WF m
  let actual := errs.isEmpty
  let unexplained := errs.filter fun e => !((violations m).any fun vi => (classOf m vi).isSome && explains vi e)
  let why := if v.ok then "" else
    if v.known.isEmpty then
      "rustc rejects the module and not every error is accounted for: " ++ ", ".intercalate ((unexplained.take 3).map fun e =>
        s!"{String.ofList e.code} in {String.ofList e.file}:{String.ofList e.ikind} {String.ofList e.iname} ({String.ofList e.name})") ++ " | WF: " ++ whyOf m
    else whyOf m
  let br := String.ofList m.mode ++ (if actual then "+compiles" else "+rejected") ++ (if v.known.isEmpty then "" else "+" ++ "+".intercalate v.known)
  pure (Json.mkObj [("model", Json.mkObj [("compiles", Json.bool predicted)]), ("match", Json.bool (predicted == actual)),
                    ("judge", verdict v.ok v.known why), ("branch", Json.str br)])

def ops : List (String × Handler) := [("comp.post", postOp), ("comp.gen", genOp), ("comp.rustc", rustcOp)]

end Oas3.Driver.Compile
