import Oas3Model.Driver.Util
import Oas3Model.Model.Graph
import Oas3Model.Model.Client
open Lean Oas3.Driver Oas3.Graph

namespace Oas3.Driver.Graph

abbrev GName := Oas3.Graph.Name
instance : Inhabited S := ⟨.extRef⟩

def refPrefix : String := "#/components/schemas/"

/-- JSON schema → the dependency view `S` -/
partial def sOf (j : Json) : S :=
  match j.getObjVal? "$ref" with
  | .ok (.str r) =>
    if r.startsWith refPrefix then .ref (r.drop refPrefix.length).toString.toList
    else if r.startsWith "#/components" then .ref ((r.splitOn "/").getLast!.toList)
    else .extRef
  | _ =>
    let listOf (k : String) : List S := match j.getObjVal? k with | .ok (.arr a) => a.toList.map sOf | _ => []
    let props : List S := match j.getObjVal? "properties" with
      | .ok (.obj m) => m.toList.map fun (_, v) => sOf v
      | _ => []
    let items := match j.getObjVal? "items" with | .ok (.obj m) => some (sOf (.obj m)) | _ => none
    let addl := match j.getObjVal? "additionalProperties" with | .ok (.obj m) => some (sOf (.obj m)) | _ => none
    .obj props (listOf "oneOf") (listOf "anyOf") (listOf "allOf") items addl

/-- every `$ref` target anywhere in a schema, including additionalProperties and discriminator mapping targets (spec side, complete) -/
partial def fullRefs (j : Json) : List GName :=
  match j with
  | .obj m =>
    (match j.getObjVal? "$ref" with
     | .ok (.str r) => if r.startsWith refPrefix then [(r.drop refPrefix.length).toString.toList] else []
     | _ => []) ++
    m.toList.flatMap fun (k, v) =>
      if k == "mapping" then
        (match v with
         | .obj mm => mm.toList.filterMap fun (_, t) =>
             (match t with
              -- OpenAPI allows both spellings of a mapping target: a pointer or the bare name of a component schema
              | .str r => if r.startsWith refPrefix then some (r.drop refPrefix.length).toString.toList
                          else if r.startsWith "#" || r.contains '/' then none else some r.toList
              | _ => none)
         | _ => [])
      else if k == "enum" || k == "example" || k == "examples" || k == "default" || k == "const" then []
      else fullRefs v
  | .arr a => a.toList.flatMap fullRefs
  | _ => []

/-- `$ref` targets that sit directly under an `additionalProperties` keyword -/
partial def addlRefs (j : Json) : List GName :=
  match j with
  | .obj m =>
    m.toList.flatMap fun (k, v) =>
      if k == "additionalProperties" then
        (match v.getObjVal? "$ref" with
         | .ok (.str r) => if r.startsWith refPrefix then [(r.drop refPrefix.length).toString.toList] else []
         | _ => addlRefs v)
      else addlRefs v
  | .arr a => a.toList.flatMap addlRefs
  | _ => []

def sortNames (l : List GName) : List GName := l.foldl (fun acc n => insertSortedName n acc) []

def namesJson (l : List GName) : Json := Json.arr ((sortNames l).map str).toArray

def opSeeds (fps : Fps) (op : Json) : List GName :=
  let schemaOf (j : Json) : List GName := match j.getObjVal? "schema" with | .ok s => collectRef fps (sOf s) | _ => []
  let params := match op.getObjVal? "parameters" with | .ok (.arr a) => a.toList.flatMap schemaOf | _ => []
  let content (j : Json) : List GName := match j.getObjVal? "content" with
    | .ok (.obj m) => m.toList.flatMap fun (_, v) => schemaOf v
    | _ => []
  let body := match op.getObjVal? "requestBody" with | .ok b => content b | _ => []
  let resps := match op.getObjVal? "responses" with
    | .ok (.obj m) => m.toList.flatMap fun (_, v) => content v
    | _ => []
  params ++ body ++ resps

def analyze : Handler := fun req => do
  let inp ← field req "in"
  let impl ← field req "impl"
  let schemasJ := match inp.getObjVal? "schemas" with | .ok (.obj m) => m.toList | _ => []
  let schemas : List (GName × S) := schemasJ.map fun (k, v) => (k.toList, sOf v)
  let deps := depsOf schemas
  let fps := unionFps schemas
  let ops := (arr (fieldD inp "ops" (Json.arr #[]))).toOption.getD []
  let seeds := ops.flatMap (opSeeds fps)
  let reach := reachable deps seeds
  let cyc := schemas.map fun (n, _) => (n, cyclic deps n)
  if reach.isNone || cyc.any (fun p => p.2.isNone) then throw "model-fuel-exhausted"
  let model := Json.mkObj [
    ("deps", Json.mkObj (deps.map fun (n, d) => (String.ofList n, namesJson d))),
    ("cyclic", namesJson ((cyc.filter (fun p => p.2 == some true)).map (·.1))),
    ("reachable", namesJson (reach.getD []))]
  let canonImpl := Json.mkObj [
    ("deps", match impl.getObjVal? "deps" with | .ok (.obj m) => Json.mkObj (m.toList.map fun (k, v) => (k, namesJson (((arr v).toOption.getD []).filterMap fun x => x.getStr?.toOption.map String.toList))) | _ => Json.null),
    ("cyclic", namesJson (((arr (fieldD impl "cyclic" (Json.arr #[]))).toOption.getD []).filterMap fun x => x.getStr?.toOption.map String.toList)),
    ("reachable", namesJson (((arr (fieldD impl "reachable" (Json.arr #[]))).toOption.getD []).filterMap fun x => x.getStr?.toOption.map String.toList))]
  -- judge: the implementation's reachable set is closed under ITS OWN dependency map and contains the seeds it should
  let ideps : List (GName × List GName) := match impl.getObjVal? "deps" with
    | .ok (.obj m) => m.toList.map fun (k, v) => (k.toList, ((arr v).toOption.getD []).filterMap fun x => x.getStr?.toOption.map String.toList)
    | _ => []
  let ireach : List GName := ((arr (fieldD impl "reachable" (Json.arr #[]))).toOption.getD []).filterMap fun x => x.getStr?.toOption.map String.toList
  let closed := ireach.all fun a => (succ ideps a).all ireach.contains
  let seedsIn := (dedup seeds).all ireach.contains
  let judge := if closed && seedsIn then verdict true [] else verdict false [] (if !closed then "reachable set is not closed under the dependency map" else "a schema referenced directly by a selected operation is not in the reachable set")
  let branch := s!"n{schemas.length}" ++ (if cyc.any (fun p => p.2 == some true) then "+cyc" else "") ++ (if !fps.isEmpty then "+fp" else "")
  pure (Json.mkObj [("model", model), ("match", model == canonImpl), ("judge", judge), ("branch", if schemas.isEmpty then "trivial" else branch)])

/-! ### judging the emitted type graph -/

def externalRoots : List String := ["std", "core", "alloc", "serde", "serde_json", "serde_with", "serde_path_to_error", "chrono", "uuid", "http", "reqwest",
  "axum", "anyhow", "validator", "regex", "bon", "oas3_gen_support", "super", "crate", "self", "Self", "url", "futures", "bytes", "tokio", "quick_xml", "percent_encoding", "better_default"]

def builtinTypes : List String := ["String", "Vec", "Option", "Box", "HashMap", "BTreeMap", "HashSet", "BTreeSet", "Result", "Self", "bool", "char", "str",
  "i8", "i16", "i32", "i64", "i128", "isize", "u8", "u16", "u32", "u64", "u128", "usize", "f32", "f64", "Some", "None", "Ok", "Err", "Default", "Into", "From",
  "TryFrom", "TryInto", "Send", "Sync", "Clone", "Copy", "Debug", "Display", "PartialEq", "Eq", "Hash", "Sized", "Iterator", "IntoIterator", "AsRef", "Fn", "FnMut", "FnOnce",
  "S", "T", "E", "D", "A", "V", "Serialize", "Deserialize", "Validate", "Client", "Url", "Router", "Path", "Query", "State", "HeaderMap", "IntoResponse", "Context", "Cow", "PhantomData", "LazyLock", "Regex", "ToString", "Error", "Formatter", "Deserializer", "Serializer", "Visitor", "Unexpected", "Method", "StatusCode", "HeaderValue", "HeaderName"]

def isLocalTypeName (s : String) : Bool :=
  match s.toList with
  | c :: _ => c.isUpper && !builtinTypes.contains s
  | [] => false

def emit : Handler := fun req => do
  let inp ← field req "in"
  let impl ← field req "impl"
  let scopeAll := (fieldD (fieldD inp "cfg" (Json.mkObj [])) "all_schemas" (Json.bool false)) == Json.bool true
  let mode := (fieldD inp "mode" (Json.str "client-mod")).getStr?.toOption.getD "client-mod"
  if (impl.getObjVal? "err").toOption.isSome || (impl.getObjVal? "panic").toOption.isSome then
    let expected := (fieldD inp "expect_fail" (Json.bool false)) == Json.bool true
    return Json.mkObj [("model", Json.null), ("match", true), ("judge", verdict expected (if expected then [] else []) "generation failed or panicked"), ("branch", "failed")]
  let defined : List (String × Nat) := match impl.getObjVal? "defined" with
    | .ok (.obj m) => m.toList.map fun (k, v) => (k, v.getNat?.toOption.getD 0)
    | _ => []
  let defs := (arr (fieldD impl "defs" (Json.arr #[]))).toOption.getD []
  let typeDefs : List String := defs.filterMap fun d => (d.getObjValAs? String "name").toOption
  let mentions : List String := ((arr (fieldD impl "mentions" (Json.arr #[]))).toOption.getD []).filterMap fun x => x.getStr?.toOption
  let parseErrs := (arr (fieldD impl "parse_errors" (Json.arr #[]))).toOption.getD []
  -- (1) closed under references
  let undefinedNames : List String := (mentions.filterMap fun m =>
    match m.splitOn "|" with
    | [_, body] =>
      let body := if body.startsWith "expr:" then (body.drop 5).toString else if body.startsWith "ctor:" then (body.drop 5).toString else body
      let segs := body.splitOn "::"
      match segs with
      | [one] => if isLocalTypeName one && (defined.lookup one).isNone then some one else none
      | first :: _ => if externalRoots.contains first || builtinTypes.contains first then none
                      else if isLocalTypeName first && (defined.lookup first).isNone then some first
                      else if !(first.toList.head?.map Char.isUpper).getD true && !externalRoots.contains first && (defined.lookup first).isNone && first != "request" && first != "headers" then none else none
      | [] => none
    | _ => none).eraseDups
  let dupTypes := (typeDefs.filter fun n => (typeDefs.filter (· == n)).length > 1).eraseDups
  -- (2) by-value containment graph acyclic ; (3) default graph acyclic
  let edgesOf (d : Json) (vias : List String) (skipDefaultAttr : Bool) (defaultOnly : Bool) : List GName :=
    -- `via` is the wrapper chain ("value", "option", "option.box", "vec.box", …); an edge counts when every
    -- wrapper on the way is allowed
    let pick (es : Json) : List GName := ((arr es).toOption.getD []).filterMap fun e => match e with
      | .arr #[.str n, .str via] => if (via.splitOn ".").all vias.contains && typeDefs.contains n then some n.toList else none
      | _ => none
    match (d.getObjValAs? String "kind").toOption with
    | some "struct" => ((arr (fieldD d "fields" (Json.arr #[]))).toOption.getD []).flatMap fun f =>
        if skipDefaultAttr && (fieldD f "default_attr" (Json.bool false)) == Json.bool true then [] else pick (fieldD f "edges" (Json.arr #[]))
    | some "enum" =>
        let vs := (arr (fieldD d "variants" (Json.arr #[]))).toOption.getD []
        let vs := if defaultOnly then (match vs.find? (fun v => fieldD v "default" (Json.bool false) == Json.bool true) with | some v => [v] | none => vs.take 1) else vs
        vs.flatMap fun v => pick (fieldD v "edges" (Json.arr #[]))
    | some "type" => pick (fieldD d "edges" (Json.arr #[]))
    | _ => []
  let valueDeps : List (GName × List GName) := defs.map fun d => (((d.getObjValAs? String "name").toOption.getD "").toList, dedup (edgesOf d ["value", "option"] false false))
  let defaultDeps : List (GName × List GName) := defs.map fun d =>
    let derives := fieldD d "derives_default" (Json.bool false) == Json.bool true || (d.getObjValAs? String "kind").toOption == some "type"
    (((d.getObjValAs? String "name").toOption.getD "").toList, if derives then dedup (edgesOf d ["value", "box"] true true) else [])
  let sizeCyc := valueDeps.filter fun p => cyclic valueDeps p.1 == some true
  let defCyc := defaultDeps.filter fun p => cyclic defaultDeps p.1 == some true
  -- (4) converse: every emitted SCHEMA type is transitively referenced (anywhere: members, items, map values,
  -- compositions, mappings, parameters at both levels, bodies) by a selected operation — spec-level closure
  let schemasJ := match inp.getObjVal? "schemas" with | .ok (.obj m) => m.toList | _ => []
  let fullDeps : List (GName × List GName) := schemasJ.map fun (k, v) => (k.toList, dedup (fullRefs v))
  let opsJ := (arr (fieldD inp "ops" (Json.arr #[]))).toOption.getD []
  let fullSeeds := dedup (opsJ.flatMap fullRefs ++ fullRefs (fieldD inp "path_params" (Json.arr #[])))
  let reach := (reachable fullDeps fullSeeds).getD []
  -- Rust-level use: reachable in the emitted type graph from the types the client/server file names
  -- (an inline schema may legitimately be emitted under the name of an identical component)
  let allDeps : List (GName × List GName) := defs.map fun d => (((d.getObjValAs? String "name").toOption.getD "").toList, dedup (edgesOf d ["value", "option", "box", "vec", "map", "generic", "ref"] false false))
  let rootFile := if mode == "server-mod" then "server" else "client"
  let rroots : List GName := (mentions.filterMap fun m => match m.splitOn "|" with
    | [f, body] => if f == rootFile then
        let b := if body.startsWith "expr:" then (body.drop 5).toString else if body.startsWith "ctor:" then (body.drop 5).toString else body
        let first := (b.splitOn "::").head!
        if typeDefs.contains first then some first.toList else none
      else none
    | _ => none).eraseDups
  let rustReach := (reachable allDeps rroots).getD []
  let orphans := if scopeAll || mode == "types" then [] else
    (schemasJ.filterMap fun (k, _) =>
      let tn := String.ofList (Oas3.Naming.toRustTypeName Oas3.Gen.prelude Oas3.Client.idTr k.toList)
      if typeDefs.contains tn && !reach.contains k.toList && !rustReach.contains tn.toList then some tn else none).eraseDups
  let judges : List String := ((arr (fieldD inp "judges" (Json.arr #["closed", "orphans", "size", "default"]))).toOption.getD []).filterMap fun x => x.getStr?.toOption
  let undefinedNames := if judges.contains "closed" then undefinedNames else []
  let dupTypes := if judges.contains "closed" then dupTypes else []
  let sizeCyc := if judges.contains "size" then sizeCyc else []
  let defCyc := if judges.contains "default" then defCyc else []
  let orphans := if judges.contains "orphans" then orphans else []
  let judge :=
    if !parseErrs.isEmpty then verdict false [] "an emitted file does not parse"
    else if !undefinedNames.isEmpty then
      -- attribute to a known escape route of `collect` only when EVERY undefined name is explained by it
      let rustName (k : String) : String := String.ofList (Oas3.Naming.toRustTypeName Oas3.Gen.prelude Oas3.Client.idTr k.toList)
      let addlTargets : List String := (schemasJ.flatMap fun (_, v) => addlRefs v).map fun n => rustName (String.ofList n)
      let ppTargets : List String := ((reachable fullDeps (dedup (fullRefs (fieldD inp "path_params" (Json.arr #[]))))).getD []).map fun n => rustName (String.ofList n)
      let isNullableWrapper (v : Json) : Bool :=
        ["oneOf", "anyOf"].any fun k => match v.getObjVal? k with
          | .ok (.arr a) => a.size == 2 && a.toList.any (fun x => (x.getObjVal? "$ref").toOption.isSome) && a.toList.any (fun x => (x.getObjVal? "type").toOption == some (Json.str "null"))
          | _ => false
      let isSingleRefUnion (v : Json) : Bool :=
        ["oneOf", "anyOf"].any fun k => match v.getObjVal? k with
          | .ok (.arr a) => a.size == 1 && a.toList.all (fun x => (x.getObjVal? "$ref").toOption.isSome)
          | _ => false
      let singleNames : List String := schemasJ.filterMap fun (k, v) => if isSingleRefUnion v then some (rustName k) else none
      let wrapperNames : List String := schemasJ.filterMap fun (k, v) => if isNullableWrapper v then some (rustName k) else none
      let classes := undefinedNames.map fun u => if addlTargets.contains u then "KnownAddlPropsRef" else if wrapperNames.contains u then "KnownNullableWrapper" else if singleNames.contains u then "KnownSingleRefUnion" else if ppTargets.contains u then "KnownPathItemParam"
        else if typeDefs.any (fun d => d != u && d.toLower == u.toLower) then "KnownTypeNameCaseMismatch" else ""
      verdict false (if classes.contains "" then [] else classes.eraseDups) s!"mentioned but not defined: {undefinedNames}"
    else if !dupTypes.isEmpty then verdict false [] s!"defined more than once: {dupTypes}"
    else if !sizeCyc.isEmpty then verdict false [] s!"by-value containment cycle (infinite size): {sizeCyc.map (fun p => String.ofList p.1)}"
    else if !defCyc.isEmpty then
      -- attribute only when EVERY type on a Default cycle is explained by the spec-level edges of its schema
      let specEdges : List (String × String × String) := ((arr (fieldD inp "edges" (Json.arr #[]))).toOption.getD []).filterMap fun e => match e with
        | .arr #[.str a, .str k, .str b] => some (a, k, b) | _ => none
      let specNameOf (rn : String) : String :=
        match (specEdges.flatMap fun e => [e.1, e.2.2]).find? (fun sn => String.ofList (Oas3.Naming.toRustTypeName Oas3.Gen.prelude Oas3.Client.idTr sn.toList) == rn) with
        | some sn => sn | none => rn
      let classOf (rn : String) : String :=
        let n := specNameOf rn
        -- a `disc` edge X→n makes n an allOf child of X (it inherits X's members)
        let ks := (specEdges.filter fun e => e.1 == n).map (·.2.1) ++ (if specEdges.any (fun e => e.2.1 == "disc" && e.2.2 == n) then ["allOf"] else [])
        if ks.contains "oneOf" || ks.contains "anyOf" then "KnownDefaultRecursionUnion"
        else if ks.contains "req" || ks.contains "allOf" then "KnownDefaultRequiredCycle"
        else ""
      let classes := defCyc.map fun p => classOf (String.ofList p.1)
      verdict false (if classes.contains "" then [] else classes.eraseDups) s!"Default::default() recursion: {defCyc.map (fun p => String.ofList p.1)}"
    else if !orphans.isEmpty then verdict false [] s!"emitted but not used by any selected operation: {orphans}"
    else verdict true []
  -- model (documents with groups of operations that share a response shape): the response enums that stay
  -- after `ResponseEnumDeduplicator` = one canonical enum per response signature of the selected operations
  let gops := (arr (fieldD inp "gops" (Json.arr #[]))).toOption.getD []
  let selIds : List String := ((arr (fieldD inp "sel_ids" (Json.arr #[]))).toOption.getD []).filterMap fun x => x.getStr?.toOption
  let rustNameOf (k : String) : String := String.ofList (Oas3.Naming.toRustTypeName Oas3.Gen.prelude Oas3.Client.idTr k.toList)
  let respPairs : List (GName × GName) := gops.filterMap fun g => match g with
    | .arr #[.str id, shape] => if selIds.contains id then some ((rustNameOf (rustNameOf id ++ "Response")).toList, shape.compress.toList) else none
    | _ => none
  let modelJ := if gops.isEmpty then Json.null else namesJson (dedupSurvivors respPairs)
  let implJ := if gops.isEmpty then Json.null else
    namesJson ((defs.filter fun d => (d.getObjValAs? String "kind").toOption == some "enum" && ((d.getObjValAs? String "name").toOption.getD "").endsWith "Response").map fun d => ((d.getObjValAs? String "name").toOption.getD "").toList)
  let branch := s!"t{typeDefs.length}" ++ (if defs.any (fun d => ((arr (fieldD d "fields" (Json.arr #[]))).toOption.getD []).any fun f => ((arr (fieldD f "edges" (Json.arr #[]))).toOption.getD []).any fun e => match e with | .arr #[_, .str "box"] => true | _ => false) then "+box" else "")
  pure (Json.mkObj [("model", modelJ), ("match", modelJ == implJ), ("judge", judge), ("branch", if typeDefs.isEmpty then "trivial" else (if gops.isEmpty then branch else branch ++ s!"+grp{respPairs.length - (dedupSurvivors respPairs).length}")),
    ("detail", Json.mkObj [("undefined", Json.arr (undefinedNames.map Json.str).toArray), ("orphans", Json.arr (orphans.map Json.str).toArray),
      ("size_cycle", Json.arr (sizeCyc.map (fun p => str p.1)).toArray), ("default_cycle", Json.arr (defCyc.map (fun p => str p.1)).toArray)])])

def ops : List (String × Handler) := [("graph.analyze", analyze), ("graph.emit", emit)]

end Oas3.Driver.Graph
