import Oas3Model.Driver.Util
import Oas3Model.Model.Graph
import Oas3Model.Model.Client
open Lean Oas3.Driver Oas3.Graph

namespace Oas3.Driver.Graph

abbrev GName := Oas3.Graph.Name
instance : Inhabited S := ⟨.extRef⟩

def refPrefix : String := "#/components/schemas/"

/-- JSON schema → the dependency view `S` -/
partial def sOf (j : Json) : S :=
  match j.getObjVal? "$ref" with
  | .ok (.str r) =>
    if r.startsWith refPrefix then .ref (r.drop refPrefix.length).toString.toList
    else if r.startsWith "#/components" then .ref ((r.splitOn "/").getLast!.toList)
    else .extRef
  | _ =>
    let listOf (k : String) : List S := match j.getObjVal? k with | .ok (.arr a) => a.toList.map sOf | _ => []
    let props : List S := match j.getObjVal? "properties" with
      | .ok (.obj m) => m.toList.map fun (_, v) => sOf v
      | _ => []
    let items := match j.getObjVal? "items" with | .ok (.obj m) => some (sOf (.obj m)) | _ => none
    let addl := match j.getObjVal? "additionalProperties" with | .ok (.obj m) => some (sOf (.obj m)) | _ => none
    .obj props (listOf "oneOf") (listOf "anyOf") (listOf "allOf") items addl

/-- every `$ref` target anywhere in a schema, including additionalProperties and discriminator mapping targets (spec side, complete) -/
partial def fullRefs (j : Json) : List GName :=
  match j with
  | .obj m =>
    (match j.getObjVal? "$ref" with
     | .ok (.str r) => if r.startsWith refPrefix then [(r.drop refPrefix.length).toString.toList] else []
     | _ => []) ++
    m.toList.flatMap fun (k, v) =>
      if k == "mapping" then
        (match v with
         | .obj mm => mm.toList.filterMap fun (_, t) =>
             (match t with
              -- OpenAPI allows both spellings of a mapping target: a pointer or the bare name of a component schema
              | .str r => if r.startsWith refPrefix then some (r.drop refPrefix.length).toString.toList
                          else if r.startsWith "#" || r.contains '/' then none else some r.toList
              | _ => none)
         | _ => [])
      else if k == "enum" || k == "example" || k == "examples" || k == "default" || k == "const" then []
      else fullRefs v
  | .arr a => a.toList.flatMap fullRefs
  | _ => []

/-- `$ref` targets that sit directly under an `additionalProperties` keyword -/
partial def addlRefs (j : Json) : List GName :=
  match j with
  | .obj m =>
    m.toList.flatMap fun (k, v) =>
      if k == "additionalProperties" then
        (match v.getObjVal? "$ref" with
         | .ok (.str r) => if r.startsWith refPrefix then [(r.drop refPrefix.length).toString.toList] else []
         | _ => addlRefs v)
      else addlRefs v
  | .arr a => a.toList.flatMap addlRefs
  | _ => []

def sortNames (l : List GName) : List GName := l.foldl (fun acc n => insertSortedName n acc) []

def namesJson (l : List GName) : Json := Json.arr ((sortNames l).map str).toArray
def namesJsonRaw (l : List GName) : Json := Json.arr (l.map str).toArray

def opSeeds (fps : Fps) (op : Json) : List GName :=
  let schemaOf (j : Json) : List GName := match j.getObjVal? "schema" with | .ok s => collectRef fps (sOf s) | _ => []
  let params := match op.getObjVal? "parameters" with | .ok (.arr a) => a.toList.flatMap schemaOf | _ => []
  let content (j : Json) : List GName := match j.getObjVal? "content" with
    | .ok (.obj m) => m.toList.flatMap fun (_, v) => schemaOf v
    | _ => []
  let body := match op.getObjVal? "requestBody" with | .ok b => content b | _ => []
  let resps := match op.getObjVal? "responses" with
    | .ok (.obj m) => m.toList.flatMap fun (_, v) => content v
    | _ => []
  params ++ body ++ resps

def analyze : Handler := fun req => do
  let inp ← field req "in"
  let impl ← field req "impl"
  let schemasJ := match inp.getObjVal? "schemas" with | .ok (.obj m) => m.toList | _ => []
  let schemas : List (GName × S) := schemasJ.map fun (k, v) => (k.toList, sOf v)
  let deps := depsOf schemas
  let fps := unionFps schemas
  let ops := (arr (fieldD inp "ops" (Json.arr #[]))).toOption.getD []
  let seeds := ops.flatMap (opSeeds fps)
  let reach := reachable deps seeds
  let cyc := schemas.map fun (n, _) => (n, cyclic deps n)
  if reach.isNone || cyc.any (fun p => p.2.isNone) then throw "model-fuel-exhausted"
  let model := Json.mkObj [
    ("deps", Json.mkObj (deps.map fun (n, d) => (String.ofList n, namesJson d))),
    ("cyclic", namesJson ((cyc.filter (fun p => p.2 == some true)).map (·.1))),
    ("reachable", namesJson (reach.getD []))]
  let canonImpl := Json.mkObj [
    ("deps", match impl.getObjVal? "deps" with | .ok (.obj m) => Json.mkObj (m.toList.map fun (k, v) => (k, namesJson (((arr v).toOption.getD []).filterMap fun x => x.getStr?.toOption.map String.toList))) | _ => Json.null),
    ("cyclic", namesJson (((arr (fieldD impl "cyclic" (Json.arr #[]))).toOption.getD []).filterMap fun x => x.getStr?.toOption.map String.toList)),
    ("reachable", namesJson (((arr (fieldD impl "reachable" (Json.arr #[]))).toOption.getD []).filterMap fun x => x.getStr?.toOption.map String.toList))]
  -- judge: the implementation's reachable set is closed under ITS OWN dependency map and contains the seeds it should
  let ideps : List (GName × List GName) := match impl.getObjVal? "deps" with
    | .ok (.obj m) => m.toList.map fun (k, v) => (k.toList, ((arr v).toOption.getD []).filterMap fun x => x.getStr?.toOption.map String.toList)
    | _ => []
  let ireach : List GName := ((arr (fieldD impl "reachable" (Json.arr #[]))).toOption.getD []).filterMap fun x => x.getStr?.toOption.map String.toList
  let closed := ireach.all fun a => (succ ideps a).all ireach.contains
  let seedsIn := (dedup seeds).all ireach.contains
  let judge := if closed && seedsIn then verdict true [] else verdict false [] (if !closed then "reachable set is not closed under the dependency map" else "a schema referenced directly by a selected operation is not in the reachable set")
  let branch := s!"n{schemas.length}" ++ (if cyc.any (fun p => p.2 == some true) then "+cyc" else "") ++ (if !fps.isEmpty then "+fp" else "")
  pure (Json.mkObj [("model", model), ("match", model == canonImpl), ("judge", judge), ("branch", if schemas.isEmpty then "trivial" else branch)])

/-! ### judging the emitted type graph -/

def externalRoots : List String := ["std", "core", "alloc", "serde", "serde_json", "serde_with", "serde_path_to_error", "chrono", "uuid", "http", "reqwest",
  "axum", "anyhow", "validator", "regex", "bon", "oas3_gen_support", "super", "crate", "self", "Self", "url", "futures", "bytes", "tokio", "quick_xml", "percent_encoding", "better_default"]

def builtinTypes : List String := ["String", "Vec", "Option", "Box", "HashMap", "BTreeMap", "HashSet", "BTreeSet", "Result", "Self", "bool", "char", "str",
  "i8", "i16", "i32", "i64", "i128", "isize", "u8", "u16", "u32", "u64", "u128", "usize", "f32", "f64", "Some", "None", "Ok", "Err", "Default", "Into", "From",
  "TryFrom", "TryInto", "Send", "Sync", "Clone", "Copy", "Debug", "Display", "PartialEq", "Eq", "Hash", "Sized", "Iterator", "IntoIterator", "AsRef", "Fn", "FnMut", "FnOnce",
  "S", "T", "E", "D", "A", "V", "Serialize", "Deserialize", "Validate", "Client", "Url", "Router", "Path", "Query", "State", "HeaderMap", "IntoResponse", "Context", "Cow", "PhantomData", "LazyLock", "Regex", "ToString", "Error", "Formatter", "Deserializer", "Serializer", "Visitor", "Unexpected", "Method", "StatusCode", "HeaderValue", "HeaderName"]

def isLocalTypeName (s : String) : Bool :=
  match s.toList with
  | c :: _ => c.isUpper && !builtinTypes.contains s
  | [] => false

/-- wrapper chain as the harness spells it ("value", "option.box", "vec.box", …) -/
def viaOf (s : String) : List Via :=
  if s == "value" then [] else (s.splitOn ".").map fun w =>
    if w == "value" then Via.value else if w == "option" then Via.option else if w == "box" then Via.box
    else if w == "vec" then Via.vec else if w == "map" then Via.map else Via.other

def eedgesOf (es : Json) : List EEdge := ((arr es).toOption.getD []).filterMap fun e => match e with
  | .arr #[.str n, .str via] => some { target := n.toList, via := viaOf via }
  | _ => none

/-- every field / variant payload edge of one emitted item -/
def defEdges (d : Json) : List EEdge :=
  match (d.getObjValAs? String "kind").toOption with
  | some "struct" => ((arr (fieldD d "fields" (Json.arr #[]))).toOption.getD []).flatMap fun f => eedgesOf (fieldD f "edges" (Json.arr #[]))
  | some "enum" => ((arr (fieldD d "variants" (Json.arr #[]))).toOption.getD []).flatMap fun v => eedgesOf (fieldD v "edges" (Json.arr #[]))
  | some "type" => eedgesOf (fieldD d "edges" (Json.arr #[]))
  | _ => []

/-- `$ref` members of the oneOf / anyOf unions that sit INSIDE a schema (members, array items, inline objects):
the unions `convert_struct` turns into enums of their own while it converts the enclosing schema -/
partial def inlineUnionRefs (comps : List String) (top : Bool) (j : Json) : List GName :=
  -- a structural copy of a component is named through the schema-identity cache, nothing is converted for it
  if !top && comps.contains j.compress then [] else
  let here : List GName := if top then [] else
    ["oneOf", "anyOf"].flatMap fun k => match j.getObjVal? k with
      | .ok (.arr a) => a.toList.filterMap fun v => match v.getObjVal? "$ref" with
          | .ok (.str r) => if r.startsWith refPrefix then some (r.drop refPrefix.length).toString.toList else none
          | _ => none
      | _ => []
  let props := match j.getObjVal? "properties" with
    | .ok (.obj m) => m.toList.flatMap fun (_, v) => inlineUnionRefs comps false v
    | _ => []
  let items := match j.getObjVal? "items" with | .ok (.obj m) => inlineUnionRefs comps false (.obj m) | _ => []
  here ++ props ++ items

/-- F10-3: with helper constructors on, the enum built for an inline union asks for the struct of every `$ref`
member (`MethodGenerator::resolve_struct_def` → `convert_struct` on demand); that conversion builds the member's
own inline unions, and so on: a cycle made only of "schema —inline union member→ schema" steps never ends -/
def KnownGeneratorOverflow (schemas : List (String × Json)) (noHelpers : Bool) : Bool :=
  let hdeps : List (GName × List GName) := schemas.map fun (k, v) => (k.toList, dedup (inlineUnionRefs (schemas.map fun (_, w) => w.compress) true v))
  !noHelpers && hdeps.any fun p => cyclic hdeps p.1 == some true

/-- (`$ref` targets written outside structural copies of components, components copied) in a schema: an inline
sub-schema that is identical to a component is named through the schema-identity cache (`get_type_ref`), and the
`$ref`s inside it belong to that component's own type -/
partial def refsAndCopies (fps : Fps) (comps : List (String × String)) (top : Bool) (j : Json) : List GName × List GName :=
  match j with
  | .obj m =>
    -- an inline union over the `$ref` set of a component union is that union BY NAME (`find_union_by_refs` → `type_ref`)
    let byFp : Option GName := if top then none else
      ["oneOf", "anyOf"].findSome? fun k => match j.getObjVal? k with
        | .ok (.arr a) =>
          let fp := fingerprint (a.toList.map sOf)
          if fp.length ≥ 2 then fpLookup fps fp else none
        | _ => none
    if let some n := byFp then ([n], []) else
    let selfCopy : List GName := if top then [] else (comps.filter fun c => c.2 == j.compress).map fun c => c.1.toList
    if !selfCopy.isEmpty then ([], selfCopy) else
    let own : List GName := match j.getObjVal? "$ref" with
      | .ok (.str r) => if r.startsWith refPrefix then [(r.drop refPrefix.length).toString.toList] else []
      | _ => []
    m.toList.foldl (fun acc (k, v) =>
      if k == "mapping" || k == "enum" || k == "example" || k == "examples" || k == "default" || k == "const" || k == "discriminator" then acc
      else let r := refsAndCopies fps comps false v; (acc.1 ++ r.1, acc.2 ++ r.2)) (own, [])
  | .arr a => a.toList.foldl (fun acc v => let r := refsAndCopies fps comps false v; (acc.1 ++ r.1, acc.2 ++ r.2)) ([], [])
  | _ => ([], [])

/-- a schema and the allOf parents it inherits members from -/
def withParents (schemas : List (String × Json)) (k : String) : List String :=
  let parentsOf (n : String) : List String := match schemas.lookup n with
    | some v => (match v.getObjVal? "allOf" with
      | .ok (.arr a) => a.toList.filterMap fun x => match x.getObjVal? "$ref" with
          | .ok (.str r) => if r.startsWith refPrefix then some (r.drop refPrefix.length).toString else none
          | _ => none
      | _ => [])
    | none => []
  (List.range schemas.length).foldl (fun acc _ => (acc ++ acc.flatMap parentsOf).eraseDups) [k]

def emit : Handler := fun req => do
  let inp ← field req "in"
  let impl ← field req "impl"
  let scopeAll := (fieldD (fieldD inp "cfg" (Json.mkObj [])) "all_schemas" (Json.bool false)) == Json.bool true
  let mode := (fieldD inp "mode" (Json.str "client-mod")).getStr?.toOption.getD "client-mod"
  if (impl.getObjVal? "abort").toOption.isSome then
    -- the generator process died (stack overflow): never a pass; attributed only to the one shape known to do that
    let schemasJ := match inp.getObjVal? "schemas" with | .ok (.obj m) => m.toList | _ => []
    let noHelpers := (fieldD (fieldD inp "cfg" (Json.mkObj [])) "no_helpers" (Json.bool false)) == Json.bool true
    let cls := if KnownGeneratorOverflow schemasJ noHelpers then ["KnownGeneratorOverflow"] else []
    return Json.mkObj [("model", Json.null), ("match", true), ("judge", verdict false cls "the generator process died while generating (stack overflow / abort)"), ("branch", "aborted")]
  if (impl.getObjVal? "err").toOption.isSome || (impl.getObjVal? "panic").toOption.isSome then
    let expected := (fieldD inp "expect_fail" (Json.bool false)) == Json.bool true
    return Json.mkObj [("model", Json.null), ("match", true), ("judge", verdict expected (if expected then [] else []) "generation failed or panicked"), ("branch", "failed")]
  let defined : List (String × Nat) := match impl.getObjVal? "defined" with
    | .ok (.obj m) => m.toList.map fun (k, v) => (k, v.getNat?.toOption.getD 0)
    | _ => []
  let defs := (arr (fieldD impl "defs" (Json.arr #[]))).toOption.getD []
  let typeDefs : List String := defs.filterMap fun d => (d.getObjValAs? String "name").toOption
  let mentions : List String := ((arr (fieldD impl "mentions" (Json.arr #[]))).toOption.getD []).filterMap fun x => x.getStr?.toOption
  let parseErrs := (arr (fieldD impl "parse_errors" (Json.arr #[]))).toOption.getD []
  -- (1) closed under references
  let undefinedNames : List String := (mentions.filterMap fun m =>
    match m.splitOn "|" with
    | [_, body] =>
      let body := if body.startsWith "expr:" then (body.drop 5).toString else if body.startsWith "ctor:" then (body.drop 5).toString else body
      let segs := body.splitOn "::"
      match segs with
      | [one] => if isLocalTypeName one && (defined.lookup one).isNone then some one else none
      | first :: _ => if externalRoots.contains first || builtinTypes.contains first then none
                      else if isLocalTypeName first && (defined.lookup first).isNone then some first
                      else if !(first.toList.head?.map Char.isUpper).getD true && !externalRoots.contains first && (defined.lookup first).isNone && first != "request" && first != "headers" then none else none
      | [] => none
    | _ => none).eraseDups
  let dupTypes := (typeDefs.filter fun n => (typeDefs.filter (· == n)).length > 1).eraseDups
  -- (2) by-value containment graph acyclic ; (3) default graph acyclic
  let edgesOf (d : Json) (vias : List String) (skipDefaultAttr : Bool) (defaultOnly : Bool) : List GName :=
    -- `via` is the wrapper chain ("value", "option", "option.box", "vec.box", …); an edge counts when every
    -- wrapper on the way is allowed
    let pick (es : Json) : List GName := ((arr es).toOption.getD []).filterMap fun e => match e with
      | .arr #[.str n, .str via] => if (via.splitOn ".").all vias.contains && typeDefs.contains n then some n.toList else none
      | _ => none
    match (d.getObjValAs? String "kind").toOption with
    | some "struct" => ((arr (fieldD d "fields" (Json.arr #[]))).toOption.getD []).flatMap fun f =>
        if skipDefaultAttr && (fieldD f "default_attr" (Json.bool false)) == Json.bool true then [] else pick (fieldD f "edges" (Json.arr #[]))
    | some "enum" =>
        let vs := (arr (fieldD d "variants" (Json.arr #[]))).toOption.getD []
        let vs := if defaultOnly then (match vs.find? (fun v => fieldD v "default" (Json.bool false) == Json.bool true) with | some v => [v] | none => vs.take 1) else vs
        vs.flatMap fun v => pick (fieldD v "edges" (Json.arr #[]))
    | some "type" => pick (fieldD d "edges" (Json.arr #[]))
    | _ => []
  let valueDeps : List (GName × List GName) := defs.map fun d => (((d.getObjValAs? String "name").toOption.getD "").toList, dedup (edgesOf d ["value", "option"] false false))
  let defaultDeps : List (GName × List GName) := defs.map fun d =>
    let derives := fieldD d "derives_default" (Json.bool false) == Json.bool true || (d.getObjValAs? String "kind").toOption == some "type"
    (((d.getObjValAs? String "name").toOption.getD "").toList, if derives then dedup (edgesOf d ["value", "box"] true true) else [])
  -- the emitted type graph with its wrapper chains; only edges between emitted items count
  let egraph : EGraph := defs.map fun d => (((d.getObjValAs? String "name").toOption.getD "").toList,
    (defEdges d).filter fun e => typeDefs.contains (String.ofList e.target))
  -- what each schema-derived holder refers to BY NAME and what it holds as a structural COPY of a component
  let schemasJ0 := match inp.getObjVal? "schemas" with | .ok (.obj m) => m.toList | _ => []
  let rustName0 (k : String) : String := String.ofList (Oas3.Naming.toRustTypeName Oas3.Gen.prelude Oas3.Client.idTr k.toList)
  let rustToSchema : List (String × String) := schemasJ0.map fun (k, _) => (rustName0 k, k)
  let compTexts : List (String × String) := schemasJ0.map fun (k, v) => (k, v.compress)
  let fps0 := unionFps (schemasJ0.map fun (k, v) => (k.toList, sOf v))
  -- the schema a holder type is made from: its own name, or `<X>Base` = the member struct of the discriminated base `X`
  let holderSchema (dn : String) : Option String := match rustToSchema.lookup dn with
    | some k => some k
    | none => if dn.endsWith "Base" then
        (rustToSchema.lookup (dn.dropEnd 4).toString).bind fun k =>
          if ((schemasJ0.lookup k).map fun v => (v.getObjVal? "discriminator").toOption.isSome) == some true then some k else none
      else none
  let ownSelf (dn : String) : Option (List GName × List GName) := (holderSchema dn).bind fun k =>
    (schemasJ0.lookup k).map fun v => refsAndCopies fps0 compTexts true v
  let ownOf (dn : String) : Option (List GName × List GName) := (holderSchema dn).map fun k =>
    (withParents schemasJ0 k).foldl (fun acc n => match schemasJ0.lookup n with
      | some v => let r := refsAndCopies fps0 compTexts true v; (acc.1 ++ r.1, acc.2 ++ r.2)
      | none => acc) ([], [])
  /- F10-4: an edge that exists only because an inline sub-schema is a structural copy of component `T` (typed `T`
  through the schema-identity cache, never boxed, and not a dependency edge) -/
  -- components of which SOME schema of the document holds a structural copy
  let anyCopies : List GName := dedup (schemasJ0.flatMap fun (_, v) => (refsAndCopies fps0 compTexts true v).2)
  -- the holder's schema (with its allOf parents) never names `t` by `$ref`, and the document has a structural copy of
  -- `t` (in the holder itself, or in a schema whose members the holder takes over): the edge can only be the copy route
  let copyOnly (dn : String) (t : GName) : Bool := match ownOf dn, rustToSchema.lookup (String.ofList t) with
    | some (rs, _), some k => anyCopies.contains k.toList && !rs.contains k.toList
    | _, _ => false
  let egraphNoCopy : EGraph := egraph.map fun (n, es) => (n, es.filter fun e => !copyOnly (String.ofList n) e.target)
  let hasIndirection := emittedCycleHasIndirection egraph
  let sizeCycNames := dedup (sizeCycles egraph)
  let sizeCyc := valueDeps.filter fun p => cyclic valueDeps p.1 == some true || sizeCycNames.contains p.1
  let certDisagrees := hasIndirection != sizeCycNames.isEmpty
  let defCyc := defaultDeps.filter fun p => cyclic defaultDeps p.1 == some true
  -- (4) converse: every emitted SCHEMA type is transitively referenced (anywhere: members, items, map values,
  -- compositions, mappings, parameters at both levels, bodies) by a selected operation — spec-level closure
  let schemasJ := match inp.getObjVal? "schemas" with | .ok (.obj m) => m.toList | _ => []
  let fullDeps : List (GName × List GName) := schemasJ.map fun (k, v) => (k.toList, dedup (fullRefs v))
  let opsJ := (arr (fieldD inp "ops" (Json.arr #[]))).toOption.getD []
  let fullSeeds := dedup (opsJ.flatMap fullRefs ++ fullRefs (fieldD inp "path_params" (Json.arr #[])))
  let reach := (reachable fullDeps fullSeeds).getD []
  -- Rust-level use: reachable in the emitted type graph from the types the client/server file names
  -- (an inline schema may legitimately be emitted under the name of an identical component)
  let allDeps : List (GName × List GName) := defs.map fun d => (((d.getObjValAs? String "name").toOption.getD "").toList, dedup (edgesOf d ["value", "option", "box", "vec", "map", "generic", "ref"] false false))
  let rootFile := if mode == "server-mod" then "server" else "client"
  let rroots : List GName := (mentions.filterMap fun m => match m.splitOn "|" with
    | [f, body] => if f == rootFile then
        let b := if body.startsWith "expr:" then (body.drop 5).toString else if body.startsWith "ctor:" then (body.drop 5).toString else body
        let first := (b.splitOn "::").head!
        if typeDefs.contains first then some first.toList else none
      else none
    | _ => none).eraseDups
  let rustReach := (reachable allDeps rroots).getD []
  let orphans := if scopeAll || mode == "types" then [] else
    (schemasJ.filterMap fun (k, _) =>
      let tn := String.ofList (Oas3.Naming.toRustTypeName Oas3.Gen.prelude Oas3.Client.idTr k.toList)
      if typeDefs.contains tn && !reach.contains k.toList && !rustReach.contains tn.toList then some tn else none).eraseDups
  let judges : List String := ((arr (fieldD inp "judges" (Json.arr #["closed", "orphans", "size", "default"]))).toOption.getD []).filterMap fun x => x.getStr?.toOption
  /- round trip through untagged unions (judge "rt"): for every component union of `$ref` members that is emitted as an
  untagged enum of struct payloads, the full document of every member (valid against the union) must be decoded as
  a variant that keeps all its keys - under the variant order AS EMITTED -/
  let strsOf (j : Json) : List GName := ((arr j).toOption.getD []).filterMap fun x => x.getStr?.toOption.map String.toList
  let refOf (v : Json) : Option String := match v.getObjVal? "$ref" with
    | .ok (.str r) => if r.startsWith refPrefix then some (r.drop refPrefix.length).toString else none
    | _ => none
  let unbox (t : String) : String := let t := t.replace " " ""; if t.startsWith "Box<" && t.endsWith ">" then ((t.drop 4).dropEnd 1).toString else t
  let rtUnions : List (String × String × List String × List UVariant) := if !judges.contains "rt" then [] else schemasJ0.filterMap fun (k, v) =>
    let kw := if (v.getObjVal? "oneOf").toOption.isSome then "oneOf" else "anyOf"
    let members := ((arr (fieldD v kw (Json.arr #[]))).toOption.getD []).filterMap refOf
    let en := defs.find? fun d => (d.getObjValAs? String "name").toOption == some (rustName0 k) && (d.getObjValAs? String "kind").toOption == some "enum"
    match en with
    | some e =>
      if members.length < 2 || (v.getObjVal? "discriminator").toOption.isSome || fieldD e "untagged" (Json.bool false) != Json.bool true then none else
      let vs : List (Option UVariant) := ((arr (fieldD e "variants" (Json.arr #[]))).toOption.getD []).map fun va =>
        match (arr (fieldD va "tys" (Json.arr #[]))).toOption.getD [] with
        | [.str t] =>
          (defs.find? fun d => (d.getObjValAs? String "name").toOption == some (unbox t) && (d.getObjValAs? String "kind").toOption == some "struct").map fun sd =>
            let fs := (arr (fieldD sd "fields" (Json.arr #[]))).toOption.getD []
            let wire (f : Json) : GName := ((f.getObjValAs? String "wire").toOption.getD "").toList
            ({ payload := (unbox t).toList, required := (fs.filter fun f => fieldD f "optional" (Json.bool false) != Json.bool true).map wire,
               wires := fs.map wire, closed := (strsOf (fieldD sd "serde" (Json.arr #[]))).contains "serde(deny_unknown_fields)".toList } : UVariant)
        | _ => none
      if vs.any Option.isNone then none else some (k, kw, members, vs.filterMap id)
    | none => none
  -- (union, member, reason) of every valid member document that does not survive; `specToo`: it would not survive the
  -- declaration order of the spec either (then the loss is the spec author's order, not a reordering)
  let rtLosses : List (String × String × Bool) := rtUnions.flatMap fun (k, kw, members, vs) =>
    let memberInfo (m : String) : List GName × List GName × Bool := match schemasJ0.lookup m with
      | some sv => (strsOf (fieldD sv "required" (Json.arr #[])), (match sv.getObjVal? "properties" with | .ok (.obj pm) => pm.toList.map fun (pk, _) => pk.toList | _ => []),
                    fieldD sv "additionalProperties" Json.null == Json.bool false)
      | none => ([], [], false)
    let validates (m : String) (keys : List GName) : Bool := let (req, props, closed) := memberInfo m; req.all keys.contains && (!closed || keys.all props.contains)
    let specOrder := expectedVariantOrder (members.map fun m => (rustName0 m).toList) (vs.map (·.payload))
    let vsSpec := specOrder.filterMap fun n => vs.find? (·.payload == n)
    members.filterMap fun m =>
      let keys := (memberInfo m).2.1
      let valid := if kw == "anyOf" then validates m keys else (members.filter fun m' => validates m' keys).length == 1
      if !valid || keys.isEmpty || keysPreserved vs keys then none else some (k, m, !keysPreserved vsSpec keys)
  let rtOrderModel : List Json := rtUnions.map fun (k, _, members, vs) => Json.arr #[Json.str k, namesJsonRaw (expectedVariantOrder (members.map fun m => (rustName0 m).toList) (vs.map (·.payload)))]
  let rtOrderImpl : List Json := rtUnions.map fun (k, _, _, vs) => Json.arr #[Json.str k, namesJsonRaw (vs.map (·.payload))]
  let undefinedNames := if judges.contains "closed" then undefinedNames else []
  let dupTypes := if judges.contains "closed" then dupTypes else []
  let sizeCyc := if judges.contains "size" then sizeCyc else []
  let certDisagrees := judges.contains "size" && certDisagrees
  let defCyc := if judges.contains "default" then defCyc else []
  let orphans := if judges.contains "orphans" then orphans else []
  let judge :=
    if !parseErrs.isEmpty then verdict false [] "an emitted file does not parse"
    else if !undefinedNames.isEmpty then
      -- attribute to a known escape route of `collect` only when EVERY undefined name is explained by it
      let rustName (k : String) : String := String.ofList (Oas3.Naming.toRustTypeName Oas3.Gen.prelude Oas3.Client.idTr k.toList)
      let addlTargets : List String := (schemasJ.flatMap fun (_, v) => addlRefs v).map fun n => rustName (String.ofList n)
      let ppTargets : List String := ((reachable fullDeps (dedup (fullRefs (fieldD inp "path_params" (Json.arr #[]))))).getD []).map fun n => rustName (String.ofList n)
      let isNullableWrapper (v : Json) : Bool :=
        ["oneOf", "anyOf"].any fun k => match v.getObjVal? k with
          | .ok (.arr a) => a.size == 2 && a.toList.any (fun x => (x.getObjVal? "$ref").toOption.isSome) && a.toList.any (fun x => (x.getObjVal? "type").toOption == some (Json.str "null"))
          | _ => false
      let isSingleRefUnion (v : Json) : Bool :=
        ["oneOf", "anyOf"].any fun k => match v.getObjVal? k with
          | .ok (.arr a) => a.size == 1 && a.toList.all (fun x => (x.getObjVal? "$ref").toOption.isSome)
          | _ => false
      let singleNames : List String := schemasJ.filterMap fun (k, v) => if isSingleRefUnion v then some (rustName k) else none
      let wrapperNames : List String := schemasJ.filterMap fun (k, v) => if isNullableWrapper v then some (rustName k) else none
      -- F07-6: a component schema with a reference INTO ANOTHER DOCUMENT somewhere inside cannot be converted; it is reported as
      -- skipped, yet the types that mention it are emitted
      let rec hasExternalRef (fuel : Nat) (v : Json) : Bool :=
        match fuel with
        | 0 => false
        | f + 1 => match v with
          | .obj kvs => kvs.toList.any fun (k, x) => (k == "$ref" && (match x with | .str t => !t.startsWith "#" | _ => false)) || hasExternalRef f x
          | .arr a => a.toList.any (hasExternalRef f)
          | _ => false
      let skippedNames : List String := schemasJ.filterMap fun (k, v) => if hasExternalRef 12 v then some (rustName k) else none
      let classes := undefinedNames.map fun u => if skippedNames.contains u then "KnownSkippedSchemaReferenced" else if addlTargets.contains u then "KnownAddlPropsRef" else if wrapperNames.contains u then "KnownNullableWrapper" else if singleNames.contains u then "KnownSingleRefUnion" else if ppTargets.contains u then "KnownPathItemParam"
        else if typeDefs.any (fun d => d != u && d.toLower == u.toLower) then "KnownTypeNameCaseMismatch" else ""
      verdict false (if classes.contains "" then [] else classes.eraseDups) s!"mentioned but not defined: {undefinedNames}"
    else if !dupTypes.isEmpty then verdict false [] s!"defined more than once: {dupTypes}"
    else if !sizeCyc.isEmpty then
      -- attributed to the copy route only when every by-value cycle passes through such an edge
      let cls := if egraphNoCopy != egraph && emittedCycleHasIndirection egraphNoCopy && (sizeCycles egraphNoCopy).isEmpty then ["KnownCopyByValueCycle"] else []
      verdict false cls s!"by-value containment cycle (infinite size): {sizeCyc.map (fun p => String.ofList p.1)}"
    else if certDisagrees then verdict false [] "the rank certificate and the cycle test on the emitted by-value graph disagree"
    else if !defCyc.isEmpty then
      -- attribute only when EVERY type on a Default cycle is explained by the spec-level edges of its schema
      let specEdges : List (String × String × String) := ((arr (fieldD inp "edges" (Json.arr #[]))).toOption.getD []).filterMap fun e => match e with
        | .arr #[.str a, .str k, .str b] => some (a, k, b) | _ => none
      let specNameOf (rn : String) : String :=
        match (specEdges.flatMap fun e => [e.1, e.2.2]).find? (fun sn => String.ofList (Oas3.Naming.toRustTypeName Oas3.Gen.prelude Oas3.Client.idTr sn.toList) == rn) with
        | some sn => sn | none => rn
      let inlineEnums : List String := (defs.filter fun d => (d.getObjValAs? String "kind").toOption == some "enum").filterMap fun d =>
        match (d.getObjValAs? String "name").toOption with
        | some n => if schemasJ.any (fun (k, _) => String.ofList (Oas3.Naming.toRustTypeName Oas3.Gen.prelude Oas3.Client.idTr k.toList) == n) || specEdges.any (fun e => specNameOf e.1 == n) then none else some n
        | none => none
      -- today's generator marks the FIRST variant `#[default]`; a Default cycle through a union is the listed finding
      -- only under that rule (the recursion is then a consequence of the member order the document chose)
      let firstVariantIsDefault (rn : String) : Bool :=
        match defs.find? (fun d => (d.getObjValAs? String "name").toOption == some rn && (d.getObjValAs? String "kind").toOption == some "enum") with
        | some d => match (arr (fieldD d "variants" (Json.arr #[]))).toOption.getD [] with
          | v :: rest => fieldD v "default" (Json.bool false) == Json.bool true && rest.all (fun w => fieldD w "default" (Json.bool false) != Json.bool true)
          | [] => true
        | none => true
      let classOf (rn : String) : String :=
        if !firstVariantIsDefault rn then "" else
        let n := specNameOf rn
        -- a `disc` edge X→n makes n an allOf child of X (it inherits X's members)
        let ks := (specEdges.filter fun e => e.1 == n).map (·.2.1) ++ (if specEdges.any (fun e => e.2.1 == "disc" && e.2.2 == n) then ["allOf"] else [])
        if ks.contains "oneOf" || ks.contains "anyOf" then "KnownDefaultRecursionUnion"
        else if ks.contains "req" || ks.contains "allOf" || ks.contains "uOneReq" then "KnownDefaultRequiredCycle"
        -- the enum emitted for an INLINE union (not a component): it is on a Default cycle only through its
        -- `#[default]` variant, i.e. that variant leads back to it
        else if inlineEnums.contains rn then "KnownDefaultRecursionUnion"
        else ""
      let classes := defCyc.map fun p => classOf (String.ofList p.1)
      verdict false (if classes.contains "" then [] else classes.eraseDups) s!"Default::default() recursion: {defCyc.map (fun p => String.ofList p.1)}"
    else if !orphans.isEmpty then verdict false [] s!"emitted but not used by any selected operation: {orphans}"
    else if !rtLosses.isEmpty then
      verdict false (if rtLosses.all (·.2.2) then ["KnownUntaggedShadow"] else [])
        s!"a valid document does not round-trip through the untagged union (an earlier variant accepts it and drops its members): {rtLosses.map fun l => l.1 ++ "/" ++ l.2.1}"
    else verdict true []
  -- model (documents with groups of operations that share a response shape): the response enums that stay
  -- after `ResponseEnumDeduplicator` = one canonical enum per response signature of the selected operations
  let gops := (arr (fieldD inp "gops" (Json.arr #[]))).toOption.getD []
  let selIds : List String := ((arr (fieldD inp "sel_ids" (Json.arr #[]))).toOption.getD []).filterMap fun x => x.getStr?.toOption
  let rustNameOf (k : String) : String := String.ofList (Oas3.Naming.toRustTypeName Oas3.Gen.prelude Oas3.Client.idTr k.toList)
  let respPairs : List (GName × GName) := gops.filterMap fun g => match g with
    | .arr #[.str id, shape] => if selIds.contains id then some ((rustNameOf (rustNameOf id ++ "Response")).toList, shape.compress.toList) else none
    | _ => none
  -- model of the boxing rule: for every emitted reference BY NAME to a component schema's type, whether it carries a Box
  let schemaS : List (GName × S) := schemasJ.map fun (k, v) => (k.toList, sOf v)
  let sdeps := depsOf schemaS
  let discBases : List String := schemasJ.filterMap fun (k, v) => if (v.getObjVal? "discriminator").toOption.isSome then some (rustNameOf k) else none
  -- the types an operation brings (request structs, response enums) hold their payloads as declared
  let opPrefixes : List String := match (fieldD inp "spec" Json.null).getObjVal? "paths" with
    | .ok (.obj m) => m.toList.flatMap fun (_, item) => match item with
      | .obj mm => mm.toList.filterMap fun (_, op) => match op.getObjVal? "operationId" with | .ok (.str i) => some (rustNameOf i) | _ => none
      | _ => []
    | _ => []
  -- a schema that is a discriminated base AND a oneOf/anyOf union at once is outside the rule's grammar (C14)
  let mixedUnion : List String := schemasJ.filterMap fun (k, v) =>
    if (v.getObjVal? "discriminator").toOption.isSome && ((v.getObjVal? "oneOf").toOption.isSome || (v.getObjVal? "anyOf").toOption.isSome) then some (rustNameOf k) else none
  let boxRows (useModel : Bool) : List Json := (defs.filter fun d =>
      let dn := (d.getObjValAs? String "name").toOption.getD ""
      !(opPrefixes.any fun p => dn.startsWith p) && !mixedUnion.contains dn).flatMap fun d =>
    let dn := (d.getObjValAs? String "name").toOption.getD ""
    -- `$ref`s written in the holder's own schema; a target that is reached only as a structural COPY of a component
    -- (schema-identity cache, `get_type_ref`) is named without consulting the boxing rule
    let own := ownOf dn
    -- an enum with payloads that is not `#[serde(untagged)]` dispatches on a tag: a discriminated base (also one
    -- that inherits its discriminator through allOf)
    let isDiscEnum := (d.getObjValAs? String "kind").toOption == some "enum" && (discBases.contains dn || fieldD d "untagged" (Json.bool true) == Json.bool false)
    (defEdges d).filterMap fun e =>
      match rustToSchema.lookup (String.ofList e.target) with
      | some k =>
        let byCopy := match own with | some (_, cs) => cs.contains k.toList && !isDiscEnum | none => false
        let byName := match own with | some (rs, _) => rs.contains k.toList | none => true
        -- both a copy and a `$ref` of the same component in one holder: the two members cannot be told apart by name
        -- a copy INHERITED from an allOf parent is re-read from the merged schema, which need not be identical to the
        -- component any more: the rule does not say which way it goes
        let inheritedCopy := (byCopy && (match ownSelf dn with | some (_, cs) => !cs.contains k.toList | none => false)) ||
          (!byCopy && !byName && own.isSome && anyCopies.contains k.toList)
        if (byCopy && byName) || inheritedCopy then none else
        let b : Json := if useModel then (if byCopy then Json.bool false else match expectBoxedAt sdeps isDiscEnum e.via k.toList with | some b => Json.bool b | none => Json.null) else Json.bool (e.via.contains Via.box)
        some (Json.arr #[Json.str dn, str e.target, b])
      | none => none
  let boxModel := if schemasJ.isEmpty || !judges.contains "size" then Json.null else Json.arr (boxRows true).toArray
  let boxImpl := if schemasJ.isEmpty || !judges.contains "size" then Json.null else Json.arr (boxRows false).toArray
  let boxDiff : List Json := if boxModel == boxImpl then [] else ((boxRows true).zip (boxRows false)).filterMap fun (a, b) => if a == b then none else some a
  let modelJ := if gops.isEmpty then Json.null else namesJson (dedupSurvivors respPairs)
  let implJ := if gops.isEmpty then Json.null else
    namesJson ((defs.filter fun d => (d.getObjValAs? String "kind").toOption == some "enum" && ((d.getObjValAs? String "name").toOption.getD "").endsWith "Response").map fun d => ((d.getObjValAs? String "name").toOption.getD "").toList)
  let branch := s!"t{typeDefs.length}" ++ (if defs.any (fun d => ((arr (fieldD d "fields" (Json.arr #[]))).toOption.getD []).any fun f => ((arr (fieldD f "edges" (Json.arr #[]))).toOption.getD []).any fun e => match e with | .arr #[_, .str "box"] => true | _ => false) then "+box" else "")
  let modelJ := if boxModel == Json.null then modelJ else Json.mkObj [("survivors", modelJ), ("boxed", boxModel), ("variant_order", Json.arr rtOrderModel.toArray)]
  let implJ := if boxModel == Json.null then implJ else Json.mkObj [("survivors", implJ), ("boxed", boxImpl), ("variant_order", Json.arr rtOrderImpl.toArray)]
  pure (Json.mkObj [("model", modelJ), ("match", modelJ == implJ), ("box_diff", Json.arr boxDiff.toArray), ("judge", judge), ("branch", if typeDefs.isEmpty then "trivial" else (if gops.isEmpty then branch else branch ++ s!"+grp{respPairs.length - (dedupSurvivors respPairs).length}")),
    ("detail", Json.mkObj [("undefined", Json.arr (undefinedNames.map Json.str).toArray), ("orphans", Json.arr (orphans.map Json.str).toArray),
      ("size_cycle", Json.arr (sizeCyc.map (fun p => str p.1)).toArray), ("default_cycle", Json.arr (defCyc.map (fun p => str p.1)).toArray)])])

def ops : List (String × Handler) := [("graph.analyze", analyze), ("graph.emit", emit)]

end Oas3.Driver.Graph
