import Oas3Model.Driver.Util
import Oas3Model.Driver.Path
import Oas3Model.Model.Client
open Lean Oas3.Driver Oas3.Path Oas3.Client

namespace Oas3.Driver.Client

def locOf : String → Loc
  | "path" => .path | "query" => .query | "header" => .header | _ => .cookie

def paramsOf (j : Json) : Except String (List Param) := do
  let a ← arr j
  a.mapM fun p => do
    let name ← chars (← field p "name")
    let loc := locOf ((fieldD p "in" (Json.str "query")).getStr?.toOption.getD "query")
    let lvl := (fieldD p "level" (Json.str "op")).getStr?.toOption.getD "op"
    pure { name, loc, pathLevel := lvl == "path" }

/-- projection of the emitted method that the model predicts -/
def project (m : Json) : Json :=
  let body := match (fieldD m "body" (Json.arr #[])) with
    | .arr a => if a.isEmpty then Json.null else (fieldD a[0]! "enc" Json.null)
    | _ => Json.null
  -- xml bodies are emitted through `.body(xml_string)` after serialisation; recognise by text
  let barg := match (fieldD m "body" (Json.arr #[])) with
    | .arr a => if a.isEmpty then "" else ((fieldD a[0]! "arg" (Json.str "")).getStr?.toOption.getD "")
    | _ => ""
  let text := (fieldD m "text" (Json.str "")).getStr?.toOption.getD ""
  let body := if body == Json.str "body" && ((barg.splitOn "xml").length > 1 || (text.splitOn "header(\"Content-Type\",\"application/xml\")").length > 1) then Json.str "xml" else body
  let qs := match fieldD m "query" (Json.arr #[]) with | .arr a => a.toList | _ => []
  Json.mkObj [("http", fieldD m "http" Json.null), ("pushes", fieldD m "pushes" (Json.arr #[])),
    ("query", Json.bool (qs.contains (Json.str "&request.query"))), ("headers", fieldD m "headers" (Json.bool false)), ("body", body),
    ("validates_first", fieldD m "validates_first" (Json.bool false))]

def run : Handler := fun req => do
  let inp ← field req "in"
  let d ← field inp "op"
  let method ← chars (← field d "method")
  let path ← chars (← field d "path")
  let ps ← paramsOf (fieldD d "params" (Json.arr #[]))
  let impl ← field req "impl"
  let cps := collectParams ps
  let decl := pathDecl path ps
  let bodyJ := fieldD d "body" Json.null
  let firstCt : Option (List Char) := match bodyJ.getObjVal? "content" with
    | .ok (.arr cs) =>
      -- BTreeMap order: smallest content type; body only exists when that media type has a schema
      let pairs := cs.toList.filterMap fun c => match c with | .arr #[.str ct, k] => some (ct.toList, k) | _ => none
      match (Oas3.Resp.sortKeys pairs).head? with
      | some (ct, k) => if k == Json.null then none else some ct
      | none => none
    | _ => none
  let parsed := parsePath decl path
  let init := httpInit method
  let dupFields (l : Loc) : Bool :=
    let fs := if l == .path then decl.map (·.2) else (cps.filter (·.loc == l)).map (fun p => fieldName p.name)
    fs.eraseDups.length != fs.length
  -- the call that starts the request: `.get(url)` … or `.request(reqwest::Method::OPTIONS, url)`
  let httpText : List Char := match init with | .builtin m => m | .request m => "reqwest::Method::".toList ++ m
  -- oas3 0.20.1 `PathItem::methods()` lists TRACE twice: the one TRACE operation is registered twice and two
  -- (identical) client methods are emitted; "exactly once" is C08's matter (F05-1), here every one is judged
  let copies : Nat := if method.map Char.toLower == "trace".toList then 2 else 1
  let model1 := match parsed with
    | .ok p => Json.mkObj [("http", str httpText),
        ("pushes", Json.arr (p.segments.map Oas3.Driver.Path.segJson).toArray),
        ("query", Json.bool (cps.any (·.loc == .query))), ("headers", Json.bool (cps.any (·.loc == .header))),
        ("body", match firstCt with | some ct => str (bodyEnc ct) | none => Json.null), ("validates_first", Json.bool true)]
    | .error _ => Json.mkObj [("skipped", Json.bool true)]
  let model := match parsed with
    | .ok _ => if copies == 1 then model1 else Json.arr (List.replicate copies model1).toArray
    | .error _ => model1
  let methods := match fieldD impl "methods" (Json.arr #[]) with | .arr a => a.toList | _ => []
  let implProj := match methods with
    | [m] => project m
    | [] => if (impl.getObjVal? "panic").toOption.isSome then Json.mkObj [("panic", Json.bool true)] else Json.mkObj [("skipped", Json.bool true)]
    | ms => Json.arr (ms.map project).toArray
  -- multipart / xml bodies: the projection records the encoder family only
  let matched := model == implProj
  let judge := Id.run do
    if (impl.getObjVal? "panic").toOption.isSome then
      return verdict false [] "generator panicked on this operation"
    if methods.length > 1 && methods.length != copies then return verdict false [] "several methods for one operation"
    if methods.length > 1 && !(methods.all fun m => project m == project methods.head!) then return verdict false [] "the methods emitted for one operation differ"
    match methods with
    | m :: _ =>
      let p := project m
      -- method
      let okMethod := fieldD p "http" Json.null == str httpText
      if !okMethod then return verdict false [] "HTTP method of the emitted call differs from the operation's"
      -- path
      let segsJ := (arr (fieldD p "pushes" (Json.arr #[]))).toOption.getD []
      let segs := segsJ.filterMap Oas3.Driver.Path.segOfJson
      if segs.length != segsJ.length then return verdict false [] "unreadable push argument"
      let (okp, why) := Oas3.Driver.Path.judgeParsed path segs decl
      let structFields (sfx : String) : List (List Char) :=
        match (fieldD impl "items" Json.null).getObjVal? ("struct:OpRequest" ++ sfx) with
        | .ok s => ((arr (fieldD s "fields" (Json.arr #[]))).toOption.getD []).filterMap fun f => (f.getObjValAs? String "name").toOption.map String.toList
        | .error _ => []
      let pathFields := structFields "Path"
      let used := segs.flatMap fun s => match s with | .param f => [f] | .mixed _ ps => ps | _ => []
      if !okp then return verdict false (if dupFields .path then ["KnownParamFieldClash"] else []) why
      if !used.all pathFields.contains then return verdict false [] "a pushed path field does not exist in the path struct"
      if pathFields.eraseDups.length != pathFields.length then return verdict false ["KnownParamFieldClash"] "duplicate field in the path struct"
      -- query / header presence
      if (fieldD p "query" Json.null) != Json.bool (cps.any (·.loc == .query)) then return verdict false [] "query parameters present/absent mismatch"
      if (fieldD p "headers" Json.null) != Json.bool (cps.any (·.loc == .header)) then return verdict false [] "header parameters present/absent mismatch"
      let qf := structFields "Query"
      if qf.eraseDups.length != qf.length || (structFields "Header").eraseDups.length != (structFields "Header").length then
        return verdict false ["KnownParamFieldClash"] "duplicate field in a parameter struct"
      -- body
      let wantBody := match firstCt with | some ct => str (bodyEnc ct) | none => Json.null
      if fieldD p "body" Json.null != wantBody then return verdict false [] "body encoder differs from the declared media type's"
      if fieldD p "validates_first" Json.null != Json.bool true then return verdict false [] "request is not validated before the URL is built"
      return verdict true []
    | [] =>
      match parsed with
      | .error _ => return verdict true []     -- malformed template: operation reported as skipped
      | .ok _ => return verdict false [] "no client method emitted for a well-formed operation"
  let branch := (match parsed with | .ok p => (if p.segments.any (fun s => match s with | .mixed .. => true | _ => false) then "mixed" else "plain") | .error _ => "badpath") ++
    (if cps.any (·.loc == .query) then "+q" else "") ++ (if cps.any (·.loc == .header) then "+h" else "") ++ (if firstCt.isSome then "+b" else "") ++
    (if ps.any (·.pathLevel) then "+pl" else "")
  pure (Json.mkObj [("model", model), ("match", matched), ("judge", judge), ("branch", branch), ("impl_proj", implProj)])

def ops : List (String × Handler) := [("client.method", run)]

end Oas3.Driver.Client
