import Oas3Model.Driver.Util
import Oas3Model.Driver.Path
import Oas3Model.Model.Client
import Oas3Model.Model.ClientWire
open Lean Oas3.Driver Oas3.Path Oas3.Client

namespace Oas3.Driver.Client

def locOf : String → Loc
  | "path" => .path | "query" => .query | "header" => .header | _ => .cookie

def paramsOf (j : Json) : Except String (List Param) := do
  let a ← arr j
  a.mapM fun p => do
    let name ← chars (← field p "name")
    let loc := locOf ((fieldD p "in" (Json.str "query")).getStr?.toOption.getD "query")
    let lvl := (fieldD p "level" (Json.str "op")).getStr?.toOption.getD "op"
    pure { name, loc, pathLevel := lvl == "path" }

private def gs (j : Json) (k : String) : String := (fieldD j k (Json.str "")).getStr?.toOption.getD ""
private def ga (j : Json) (k : String) : List Json := match fieldD j k Json.null with | .arr a => a.toList | _ => []
private def gb (j : Json) (k : String) : Bool := (fieldD j k (Json.bool false)).getBool?.toOption.getD false
private def go (j : Json) (k : String) : Json := fieldD j k Json.null

def itemOf : String → Item
  | "integer" => .integer | "number" => .number | "boolean" => .boolean | "enum" => .enum | _ => .string

def styleOf : String → Style
  | "form" => .form | "spaceDelimited" => .spaceDelimited | "pipeDelimited" => .pipeDelimited | _ => .other

/-- parameters with their wire-relevant attributes: `type` string | integer | number | boolean | enum | array
(`items` string | integer | enum, default string) | intarray; `required`, `style`, `explode`, `default` (any value) -/
def wparamsOf (j : Json) : Except String (List WParam) := do
  let a ← arr j
  a.mapM fun p => do
    let name ← chars (← field p "name")
    let loc := locOf (let s := gs p "in"; if s == "" then "query" else s)
    let ty := gs p "type"
    let isArray := ty == "array" || ty == "intarray"
    let item := if ty == "intarray" then Item.integer else if ty == "array" then itemOf (gs p "items") else itemOf ty
    let style := match go p "style" with | .str s => some (styleOf s) | _ => none
    let explode := match go p "explode" with | .bool b => some b | _ => none
    -- a parameter without `schema` (described by `content`) is an `Option<String>` member whatever `required` says
    pure { name, loc, pathLevel := gs p "level" == "path", isArray, item, required := (gb p "required" && ty != "noschema") || loc == .path,
           style, explode, hasDefault := go p "default" != Json.null }

def formText : HForm → String
  | .str => "str" | .toString => "to_string" | .joinComma => "join:," | .other t => "other:" ++ String.ofList t

def qmemberJson (m : QMember) : Json :=
  Json.mkObj [("field", str m.field), ("key", str m.key), ("array", Json.bool m.isArray), ("optional", Json.bool m.optional),
    ("serde_as", match m.adapter with | some s => str (adapterText s m.optional) | none => Json.null)]

def hinsertJson (h : HInsert) : Json :=
  Json.mkObj [("field", str h.field), ("const", str h.const), ("wire", str h.wire), ("form", Json.str (formText h.form)),
    ("conditional", Json.bool h.conditional), ("optional", Json.bool h.optional)]

/-- model side: the insertion plus whether the member's (item) type is `String` -/
def hinsertM (p : WParam) : Json := (hinsertJson (headerInsert p)).setObjVal! "string_member" (Json.bool (p.item == .string))

/-- extracted member of the `…Query` struct, in the model's vocabulary -/
def qmemberX (f : Json) : Json :=
  Json.mkObj [("field", go f "field"), ("key", go f "key"), ("array", go f "array"), ("optional", go f "optional"), ("serde_as", go f "serde_as")]

def formX (e : Json) : String :=
  match gs e "form" with
  | "str" => "str" | "to_string" => "to_string"
  | "join" => "join:" ++ gs e "sep"
  | "other" => "other:" ++ gs e "text"
  | x => "other:" ++ x

/-- extracted header insertion: the constant's VALUE is looked up among the emitted constants, the member's
Option-ness in the `…Header` struct -/
def hinsertX (consts : Json) (fields : List Json) (e : Json) : Json :=
  let fld := gs e "field"
  let mem := fields.find? fun f => gs f "field" == fld
  Json.mkObj [("field", go e "field"), ("const", go e "const"), ("wire", fieldD consts (gs e "const") Json.null), ("form", Json.str (formX e)),
    ("conditional", go e "optional"), ("optional", match mem with | some f => go f "optional" | none => Json.null),
    ("string_member", Json.bool (match mem with | some f => gs f "inner" == "String" | none => false))]

/-- (query layout, header layout) of ONE extracted method; a query that is not `.query(&request.query)` on a
struct is reported as text -/
def wireX (consts : Json) (w : Json) : Json × Json :=
  let q := go w "query"
  let ql := match gs q "mode" with
    | "struct" => Json.arr ((ga q "fields").map qmemberX).toArray
    | "none" | "" => Json.arr #[]
    | _ => Json.str "other"
  let h := go w "headers"
  let hl := if gb h "used" then
      match go h "encode" with
      | .arr es => Json.arr (es.toList.map (hinsertX consts (ga h "fields"))).toArray
      | _ => Json.str "other"
    else Json.arr #[]
  (ql, hl)

/-- projection of the emitted method that the model predicts -/
def project (consts : Json) (clashQ clashH : Bool) (mw : Json × Json) : Json :=
  let m := mw.1
  let (ql, hl) := wireX consts mw.2
  -- two parameters of one location that share a Rust field (F03-5): members / constants cannot be told apart
  let ql := if clashQ then Json.str "field-clash" else ql
  let hl := if clashH then Json.str "field-clash" else hl
  let body := match (fieldD m "body" (Json.arr #[])) with
    | .arr a => if a.isEmpty then Json.null else (fieldD a[0]! "enc" Json.null)
    | _ => Json.null
  -- xml bodies are emitted through `.body(xml_string)` after serialisation; recognise by text
  let barg := match (fieldD m "body" (Json.arr #[])) with
    | .arr a => if a.isEmpty then "" else ((fieldD a[0]! "arg" (Json.str "")).getStr?.toOption.getD "")
    | _ => ""
  let text := (fieldD m "text" (Json.str "")).getStr?.toOption.getD ""
  let body := if body == Json.str "body" && ((barg.splitOn "xml").length > 1 || (text.splitOn "header(\"Content-Type\",\"application/xml\")").length > 1) then Json.str "xml" else body
  let qs := match fieldD m "query" (Json.arr #[]) with | .arr a => a.toList | _ => []
  Json.mkObj [("http", fieldD m "http" Json.null), ("pushes", fieldD m "pushes" (Json.arr #[])),
    ("query", Json.bool (qs.contains (Json.str "&request.query"))), ("headers", fieldD m "headers" (Json.bool false)), ("body", body),
    ("validates_first", fieldD m "validates_first" (Json.bool false)), ("query_layout", ql), ("header_layout", hl)]

def uniqS (l : List String) : List String := l.foldl (fun acc s => if acc.contains s then acc else acc ++ [s]) []

def sepOfAdapter (t : String) : Option (Sep × Bool) :=
  [Sep.comma, Sep.space, Sep.pipe].findSome? fun s =>
    if t.toList == adapterText s false then some (s, false) else if t.toList == adapterText s true then some (s, true) else none

/-- query clause of the property on the extracted members: (unlisted failures, known classes with their text) -/
def judgeQuery (qps : List WParam) (ql : Json) (raw : List Json) : List String × List (String × String) := Id.run do
  -- `ql`: the projection compared with the model; `raw`: the same members with their Rust types
  let mems := if (match ql with | .arr a => a.size | _ => 0) == raw.length then raw else []
  if ql == Json.str "other" then return (["the query is not built from the request's query struct"], [])
  if mems.length != qps.length then return ([s!"the query struct has {mems.length} members for {qps.length} query parameters"], [])
  let mut bad : List String := []
  let mut known : List (String × String) := []
  for (p, f) in qps.zip mems do
    let nm := String.ofList p.name
    let key := gs f "key"
    let fld := gs f "field"
    -- `core`: failures of the clause `queryOk`; `extra`: failures outside it (adapter wrapping, item types)
    let mut core : List String := []
    let mut extra : List String := []
    let mut cls : List (String × String) := []
    if key != nm then core := core ++ [s!"query parameter `{nm}` goes out under the name `{key}` (member {fld})"]
    if gb f "array" != p.isArray then core := core ++ [s!"query parameter `{nm}`: member {fld} is {if gb f "array" then "" else "not "}an array"]
    if gb f "optional" == p.required then core := core ++ [s!"query parameter `{nm}` (required = {p.required}): member {fld} has type {gs f "ty"}"]
    let sa := match go f "serde_as" with | .str t => some t | _ => none
    let adapter : Option Sep := match sa with | some t => (sepOfAdapter t).map (·.1) | none => none
    match sa with
    | some t =>
      match sepOfAdapter t with
      | none => extra := extra ++ [s!"query parameter `{nm}`: unknown serde_as adapter `{t}`"]
      | some (s, optWrap) =>
        if !p.isArray then core := core ++ [s!"query parameter `{nm}` is not an array but carries the adapter `{t}`"]
        else if explodeOf p then core := core ++ [s!"query parameter `{nm}` is exploded but carries the delimiter adapter `{t}`"]
        else if s != sepOf p.style then core := core ++ [s!"query parameter `{nm}`: separator adapter `{t}` does not fit style {reprStr p.style}"]
        else if optWrap != gb f "optional" then extra := extra ++ [s!"query parameter `{nm}`: adapter `{t}` on a member of type {gs f "ty"}"]
        else if gs f "inner" != String.ofList adapterItemType then
          let text := s!"query parameter `{nm}`: the adapter `{t}` converts sequences of String, the member holds {gs f "ty"} (does not compile)"
          if p.item != .string then cls := cls ++ [("KnownSeparatorItemType", text)] else extra := extra ++ [text]
    | none =>
      if p.isArray && gb f "array" then
        if explodeOf p then
          cls := cls ++ [("KnownExplodedQueryArray", s!"query parameter `{nm}`: array member {fld} without a delimiter adapter: serde_urlencoded rejects sequences, every call that supplies it fails")]
        else core := core ++ [s!"query parameter `{nm}`: delimited array member {fld} without its separator adapter"]
    -- the proved clause must agree with the clause-wise evaluation
    let m : QMember := { field := fld.toList, key := key.toList, isArray := gb f "array", optional := gb f "optional", adapter }
    let coreOk := core.isEmpty && !(cls.any fun k => k.1 == "KnownExplodedQueryArray")
    if sa.isSome == adapter.isSome && coreOk != queryOk p m then
      extra := extra ++ [s!"internal: clause-wise evaluation of query parameter `{nm}` disagrees with queryOk"]
    bad := bad ++ core ++ extra
    known := known ++ cls
  return (bad, known)

/-- header clause of the property on the extracted insertions -/
def judgeHeaders (hps : List WParam) (hl : Json) (unread : List String) : List String × List (String × String) := Id.run do
  let ins := match hl with | .arr a => a.toList | _ => []
  let note := if unread.isEmpty then "" else " (" ++ "; ".intercalate unread ++ ")"
  if hl == Json.str "other" then return (["the header map is not built by a readable TryFrom impl" ++ note], [])
  if ins.length != hps.length then return ([s!"{ins.length} header insertions for {hps.length} header parameters" ++ note], [])
  let mut bad : List String := []
  let mut known : List (String × String) := []
  for (p, e) in hps.zip ins do
    let nm := String.ofList p.name
    let fld := gs e "field"
    let form := gs e "form"
    let hform : HForm := match form with
      | "str" => .str | "to_string" => .toString | "join:," => .joinComma | t => .other t.toList
    let stringMember := gb e "string_member"
    let mut core : List String := []
    let mut cls : List (String × String) := []
    match go e "wire" with
    | .str w => if w.toList != lowerName p.name then core := core ++ [s!"header parameter `{nm}` is sent under the name `{w}` (constant {gs e "const"})"]
    | _ => core := core ++ [s!"header parameter `{nm}`: {gs e "const"} is not an emitted header-name constant"]
    if form.startsWith "other:" then core := core ++ [s!"unrecognised header value expression: {form.drop 6} (header `{nm}`)"]
    else if form.startsWith "join:" && form != "join:," then core := core ++ [s!"header parameter `{nm}`: items joined with `{form.drop 5}`, style simple wants `,`"]
    else if p.isArray && form != "join:," then core := core ++ [s!"header parameter `{nm}` is an array, its value expression has the form `{form}`"]
    else if !p.isArray && form == "join:," then core := core ++ [s!"header parameter `{nm}` is not an array, its value expression joins items"]
    else if !p.isArray && form == "str" && !stringMember then core := core ++ [s!"header parameter `{nm}`: the member {fld} is passed as it is but is not a String"]
    match go e "optional" with
    | .bool o =>
      if o == p.required then core := core ++ [s!"header parameter `{nm}` (required = {p.required}): member {fld} is {if o then "" else "not "}an Option"]
      if gb e "conditional" != o then
        let text := s!"header parameter `{nm}`: the insertion is {if gb e "conditional" then "" else "not "}wrapped in `if let Some` but member {fld} is {if o then "" else "not "}an Option (does not compile)"
        if p.required && p.hasDefault then cls := cls ++ [("KnownRequiredDefaultHeader", text)] else core := core ++ [text]
      let wire := match go e "wire" with | .str w => w.toList | _ => []
      let h : HInsert := { field := fld.toList, const := (gs e "const").toList, wire, form := hform, conditional := gb e "conditional", optional := o }
      if (core.isEmpty && cls.isEmpty) != headerOk p h (stringMember && !p.isArray) then
        core := core ++ [s!"internal: clause-wise evaluation of header parameter `{nm}` disagrees with headerOk"]
    | _ => core := core ++ [s!"header parameter `{nm}`: member `{fld}` not found in the header struct"]
    bad := bad ++ core
    known := known ++ cls
  return (bad, known)

def run : Handler := fun req => do
  let inp ← field req "in"
  let d ← field inp "op"
  let method ← chars (← field d "method")
  let path ← chars (← field d "path")
  let ps ← paramsOf (fieldD d "params" (Json.arr #[]))
  let wps ← wparamsOf (fieldD d "params" (Json.arr #[]))
  let impl ← field req "impl"
  let cps := collectParams ps
  let cws := collectW wps
  let qps := cws.filter (·.loc == .query)
  let hps := cws.filter (·.loc == .header)
  let wire := fieldD impl "wire" Json.null
  let consts := fieldD wire "consts" Json.null
  let wops := ga wire "ops"
  let unread := (ga wire "unreadable").map fun u => u.getStr?.toOption.getD ""
  let decl := pathDecl path ps
  let bodyJ := fieldD d "body" Json.null
  let firstCt : Option (List Char) := match bodyJ.getObjVal? "content" with
    | .ok (.arr cs) =>
      -- BTreeMap order: smallest content type; body only exists when that media type has a schema
      let pairs := cs.toList.filterMap fun c => match c with | .arr #[.str ct, k] => some (ct.toList, k) | _ => none
      match (Oas3.Resp.sortKeys pairs).head? with
      | some (ct, k) => if k == Json.null then none else some ct
      | none => none
    | _ => none
  let parsed := parsePath decl path
  let init := httpInit method
  let dupFields (l : Loc) : Bool :=
    let fs := if l == .path then decl.map (·.2) else (cps.filter (·.loc == l)).map (fun p => fieldName p.name)
    fs.eraseDups.length != fs.length
  -- the call that starts the request: `.get(url)` … or `.request(reqwest::Method::OPTIONS, url)`
  let httpText : List Char := match init with | .builtin m => m | .request m => "reqwest::Method::".toList ++ m
  -- (oas3 0.20.1 `PathItem::methods()` lists TRACE twice; since `fix:` cdf3874 the registry keeps one operation per
  -- (path, method), so exactly one client method is emitted for every method: F05-1 / F08-6)
  let copies : Nat := 1
  let model1 := match parsed with
    | .ok p => Json.mkObj [("http", str httpText),
        ("pushes", Json.arr (p.segments.map Oas3.Driver.Path.segJson).toArray),
        ("query", Json.bool (cps.any (·.loc == .query))), ("headers", Json.bool (cps.any (·.loc == .header))),
        ("body", match firstCt with | some ct => str (bodyEnc ct) | none => Json.null), ("validates_first", Json.bool true),
        ("query_layout", if dupFields .query then Json.str "field-clash" else Json.arr (qps.map fun q => qmemberJson (queryMember q)).toArray),
        ("header_layout", if dupFields .header then Json.str "field-clash" else Json.arr (hps.map hinsertM).toArray)]
    | .error _ => Json.mkObj [("skipped", Json.bool true)]
  let model := match parsed with
    | .ok _ => if copies == 1 then model1 else Json.arr (List.replicate copies model1).toArray
    | .error _ => model1
  let methods0 := match fieldD impl "methods" (Json.arr #[]) with | .arr a => a.toList | _ => []
  -- every method with the wire facts of the method of the same name
  let methods : List (Json × Json) := methods0.map fun m => (m, (wops.find? fun w => go w "name" == go m "name").getD Json.null)
  let project := project consts (dupFields .query) (dupFields .header)
  let implProj := match methods with
    | [m] => project m
    | [] => if (impl.getObjVal? "panic").toOption.isSome then Json.mkObj [("panic", Json.bool true)] else Json.mkObj [("skipped", Json.bool true)]
    | ms => Json.arr (ms.map project).toArray
  -- multipart / xml bodies: the projection records the encoder family only
  let matched := model == implProj
  let judge := Id.run do
    if (impl.getObjVal? "panic").toOption.isSome then
      return verdict false [] "generator panicked on this operation"
    if methods.length > 1 && methods.length != copies then return verdict false [] "several methods for one operation"
    if methods.length > 1 && !(methods.all fun m => project m == project methods.head!) then return verdict false [] "the methods emitted for one operation differ"
    match methods with
    | m :: _ =>
      let p := project m
      -- method
      let okMethod := fieldD p "http" Json.null == str httpText
      if !okMethod then return verdict false [] "HTTP method of the emitted call differs from the operation's"
      -- path
      let segsJ := (arr (fieldD p "pushes" (Json.arr #[]))).toOption.getD []
      let segs := segsJ.filterMap Oas3.Driver.Path.segOfJson
      if segs.length != segsJ.length then return verdict false [] "unreadable push argument"
      let (okp, why) := Oas3.Driver.Path.judgeParsed path segs decl
      let structFields (sfx : String) : List (List Char) :=
        match (fieldD impl "items" Json.null).getObjVal? ("struct:OpRequest" ++ sfx) with
        | .ok s => ((arr (fieldD s "fields" (Json.arr #[]))).toOption.getD []).filterMap fun f => (f.getObjValAs? String "name").toOption.map String.toList
        | .error _ => []
      let pathFields := structFields "Path"
      let used := segs.flatMap fun s => match s with | .param f => [f] | .mixed _ ps => ps | _ => []
      if !okp then return verdict false (if dupFields .path then ["KnownParamFieldClash"] else if why == Oas3.Driver.Path.emptySegmentDroppedWhy then ["KnownEmptySegmentDropped"] else []) why
      if !used.all pathFields.contains then return verdict false [] "a pushed path field does not exist in the path struct"
      if pathFields.eraseDups.length != pathFields.length then return verdict false ["KnownParamFieldClash"] "duplicate field in the path struct"
      -- query / header presence
      if (fieldD p "query" Json.null) != Json.bool (cps.any (·.loc == .query)) then return verdict false [] "query parameters present/absent mismatch"
      if (fieldD p "headers" Json.null) != Json.bool (cps.any (·.loc == .header)) then return verdict false [] "header parameters present/absent mismatch"
      let qf := structFields "Query"
      if qf.eraseDups.length != qf.length || (structFields "Header").eraseDups.length != (structFields "Header").length then
        return verdict false ["KnownParamFieldClash"] "duplicate field in a parameter struct"
      -- body
      let wantBody := match firstCt with | some ct => str (bodyEnc ct) | none => Json.null
      if fieldD p "body" Json.null != wantBody then return verdict false [] "body encoder differs from the declared media type's"
      if fieldD p "validates_first" Json.null != Json.bool true then return verdict false [] "request is not validated before the URL is built"
      -- query members and header insertions, parameter by parameter
      if (cws.map WParam.toParam) != cps then return verdict false [] "internal: collectW disagrees with collectParams"
      let (qbad, qknown) := judgeQuery qps (fieldD p "query_layout" Json.null) (ga (go m.2 "query") "fields")
      let (hbad, hknown) := judgeHeaders hps (fieldD p "header_layout" Json.null) unread
      let leftover := if (qbad ++ hbad).isEmpty && !unread.isEmpty then ["unreadable emitted code: " ++ "; ".intercalate unread] else []
      match qbad ++ hbad ++ leftover with
      | w :: _ => return verdict false [] w
      | [] =>
        match qknown ++ hknown with
        | k :: _ => return verdict false (uniqS ((qknown ++ hknown).map (·.1))) k.2
        | [] => return verdict true []
    | [] =>
      match parsed with
      | .error _ => return verdict true []     -- malformed template: operation reported as skipped
      | .ok _ => return verdict false [] "no client method emitted for a well-formed operation"
  let branch := (match parsed with | .ok p => (if p.segments.any (fun s => match s with | .mixed .. => true | _ => false) then "mixed" else "plain") | .error _ => "badpath") ++
    (if cps.any (·.loc == .query) then "+q" else "") ++ (if cps.any (·.loc == .header) then "+h" else "") ++ (if firstCt.isSome then "+b" else "") ++
    (if ps.any (·.pathLevel) then "+pl" else "") ++
    (if qps.any (fun q => q.isArray && !explodeOf q) then "+qdelim" else "") ++ (if qps.any (fun q => q.isArray && explodeOf q) then "+qexpl" else "") ++
    (if (qps ++ hps).any (fun q => fieldName q.name != q.name) then "+ren" else "") ++ (if hps.any (·.isArray) then "+harr" else "")
  pure (Json.mkObj [("model", model), ("match", matched), ("judge", judge), ("branch", branch), ("impl_proj", implProj)])

def ops : List (String × Handler) := [("client.method", run)]

end Oas3.Driver.Client
