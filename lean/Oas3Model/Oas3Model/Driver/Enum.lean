import Oas3Model.Driver.Util
import Oas3Model.Driver.Naming
import Oas3Model.Model.EnumJudge
import Oas3Model.Gen.Naming
open Lean Oas3.Driver Oas3.Enum

/-! Driver ops of property C15: `enum.build` (AST of `build_enum_from_values`) and `enum.gen`
(facts of the emitted enum).  `model` = F(in); `judge` = J on the IMPLEMENTATION's output. -/
namespace Oas3.Driver.Enum

def jsonEntries (j : Json) : Except String (List (Option Str)) := do
  let a ← arr j
  a.mapM fun v => match v with
    | .str s => pure (some s.toList)
    | .null => pure none
    | _ => throw "enum value is neither a string nor null (not modelled)"

def modeOf (j : Json) : Except String Mode := do
  match (← j.getStr?) with
  | "merge" => pure .merge | "preserve" => pure .preserve | "relaxed" => pure .relaxed
  | s => throw s!"mode {s}"

def shapeOf (j : Json) : Except String Shape := do
  match (← j.getStr?) with
  | "plain" => pure .plain | "nullable" => pure .nullable | "open" => pure .open
  | s => throw s!"shape {s}"

def variantJson (x : Variant) : Json :=
  Json.mkObj [("name", str x.name), ("rename", str x.rename), ("aliases", strList x.aliases)]

def optName : Option Str → Json
  | some s => str s
  | none => Json.null

def deJson : De → Json
  | .derive => "derive"
  | .custom lower arms fb => Json.mkObj [
      ("scrut", if lower then "lower" else "exact"),
      ("arms", Json.arr (arms.map fun a => Json.arr #[str a.key, str a.target]).toArray),
      ("fallback", optName fb)]

def emittedJson (name : String) (e : Emitted) : Json :=
  Json.mkObj [
    ("enum", Json.mkObj [
      ("name", name),
      ("variants", Json.arr (e.variants.map variantJson).toArray),
      ("ser", true),
      ("de", deJson e.de),
      ("display", Json.arr (e.variants.map fun x => Json.arr #[str x.name, str x.rename]).toArray)]),
    ("open", e.wrapped)]

def variantOf (j : Json) : Except String Variant := do
  let name ← chars (← field j "name")
  let rename ← match fieldD j "rename" Json.null with
    | .str s => pure s.toList
    | _ => pure name        -- no rename attribute: serde uses the identifier
  pure ⟨name, rename, ← charsList (← field j "aliases")⟩

/-- the implementation's emitted facts as an `Emitted`; `error` = a construct `Sem` does not know -/
def emittedOf (impl : Json) : Except String Emitted := do
  let en ← field impl "enum"
  if en.isNull then throw "no enum was emitted for the schema"
  if let .ok o := en.getObjVal? "odd" then throw s!"unrecognised construct: {o.compress}"
  let vs ← (← arr (← field en "variants")).mapM variantOf
  let wrapped ← match fieldD impl "open" Json.null with
    | .bool b => pure b
    | o => throw s!"unrecognised wrapper: {o.compress}"
  let de ← match ← field en "de" with
    | .str "derive" => pure De.derive
    | .str s => throw s!"enum has no usable Deserialize ({s})"
    | d => do
      if let .ok o := d.getObjVal? "odd" then throw s!"unrecognised construct in Deserialize: {o.compress}"
      let lower ← match ← (← field d "scrut").getStr? with
        | "lower" => pure true
        | "exact" => pure false
        | s => throw s!"unrecognised scrutinee: {s}"
      let arms ← (← arr (← field d "arms")).mapM fun a => do
        match a with
        | .arr #[.str k, .str t] => pure (Arm.mk k.toList t.toList)
        | _ => throw s!"unrecognised arm: {a.compress}"
      let fb ← match fieldD d "fallback" Json.null with
        | .str s => pure (some s.toList)
        | _ => pure none
      pure (De.custom lower arms fb)
  if (← field en "ser") != Json.bool true then throw "enum does not derive Serialize"
  pure ⟨vs, de, wrapped⟩

/-- failing clauses, as fine-grained tags: `mode:<value>` per declared value whose contract fails,
`accepts:<string>` per undeclared string that is accepted (`accepts:*` = every string) -/
def failTags (nm : Str → Str) (m : Mode) (sh : Shape) (values : List Str) (e : Emitted) : List String :=
  if !namesDistinct e then ["dupnames"] else
    (if wrapClause sh e then [] else ["wrap"]) ++
    ((modeFailures nm m values (candsOf values) e).map fun v => "mode:" ++ String.ofList v) ++
    ((undeclaredAccepted values e).map fun o => match o with | some s => "accepts:" ++ String.ofList s | none => "accepts:*") ++
    -- safety net: the tags above must explain every failure of J
    (if J nm m sh values (candsOf values) e || !(modeFailures nm m values (candsOf values) e).isEmpty || !(undeclaredAccepted values e).isEmpty
        || !wrapClause sh e then [] else ["J"])

def classOf (nm : Str → Str) (m : Mode) (sh : Shape) (es : List (Option Str)) (tag : String) : Option String :=
  if tag == "dupnames" then (if KnownPreserveSuffixClash nm m sh es then some "KnownPreserveSuffixClash" else none)
  else if tag.startsWith "mode:" then
    (if KnownRelaxedAliasRejected nm m sh es then some "KnownRelaxedAliasRejected"
     else if KnownOpenShapePreserves nm m sh es then some "KnownOpenShapePreserves" else none)
  else if tag == "accepts:*" then (if KnownRelaxedFallbackAcceptsAll nm m sh es then some "KnownRelaxedFallbackAcceptsAll" else none)
  else none

def explain (tag : String) : String :=
  if tag == "dupnames" then "two variants share one identifier (does not compile)"
  else if tag == "wrap" then "Known/Other wrapper present iff open-string alternative: violated"
  else if tag.startsWith "mode:" then s!"the mode's accept/emit contract fails for declared value {(tag.drop 5).toString.quote}"
  else if tag == "accepts:*" then "every string is accepted by the enum"
  else if tag.startsWith "accepts:" then s!"undeclared string {(tag.drop 8).toString.quote} is accepted by the enum"
  else tag

/-- judge on the implementation's output; a failing clause is attributed to a class only when the
class predicate holds on the input AND the model fails the same clause. -/
def judgeOf (nm : Str → Str) (m : Mode) (sh : Shape) (es : List (Option Str)) (values : List Str) (impl : Json) (model : Option Emitted) : Json :=
  if (impl.getObjVal? "panic").toOption.isSome then
    verdict false (if model.isNone && KnownSelfVariantPanics nm m sh es then ["KnownSelfVariantPanics"] else []) "the generator panicked: no enum, no declared value is accepted"
  else if let .ok (.str e) := impl.getObjVal? "err" then
    verdict false (if model.isNone && !KnownSelfVariantPanics nm m sh es && KnownOpenHelperKeyword nm m sh es then ["KnownOpenHelperKeyword"] else [])
      s!"generation failed, no declared value is accepted: {e}"
  else match emittedOf impl with
    | .error why => verdict false [] why
    | .ok e =>
      let tags := failTags nm m sh values e
      if tags.isEmpty then verdict true [] else
        let mtags := match model with | some me => failTags nm m sh values me | none => []
        let cls := tags.map fun t => if mtags.contains t then classOf nm m sh es t else none
        let known := if cls.all Option.isSome then (cls.filterMap id).eraseDups else []
        verdict false known (", ".intercalate (tags.map explain))

def shapeKey : Shape → String
  | .plain => "plain" | .nullable => "nullable" | .open => "open"

def branchOf (nm : Str → Str) (m : Mode) (sh : Shape) (es : List (Option Str)) : String :=
  let values := strs es
  let vs := build (strategyOf m sh) nm es
  let collide := !(decide (values.map nm).Nodup)
  let flags :=
    (if vs.any (fun x => !x.aliases.isEmpty) then "+alias" else "") ++
    (if collide && strategyOf m sh == .preserve then "+suffix" else "") ++
    (if preserveClash nm es && strategyOf m sh == .preserve then "+clash" else "") ++
    (if (policies m).ci && (fallbackVariant vs).isSome then "+fallback" else "") ++
    (if vs.any (fun x => x.name == rawSelf) then "+panic" else "") ++
    (if helperKeyword nm sh es then "+helperkw" else "") ++
    (if es.contains none then "+null" else "")
  if flags.isEmpty && !collide then "trivial" else s!"{m.key}/{shapeKey sh}{if collide then "/collide" else ""}{flags}"

def normImpl (impl : Json) : Json :=
  if (impl.getObjVal? "panic").toOption.isSome then Json.mkObj [("fail", "panic")]
  else if (impl.getObjVal? "err").toOption.isSome then Json.mkObj [("fail", "err")] else impl

def genH : Handler := fun req => do
  let inp ← field req "in"
  let values ← jsonEntries (← field inp "values")
  let m ← modeOf (← field inp "emode")
  let sh ← shapeOf (← field inp "shape")
  let np ← match fieldD inp "nullpos" (0 : Nat) with | .null => pure 0 | j => natOf j
  if values.contains none then throw "values must be strings (null is added by the shape)"
  let vals := strs values
  if vals.any (fun s => s.any fun c => c.toNat ≥ 128) && Driver.Naming.missingTr inp (vals.flatten) then throw "tr-missing"
  let tr ← Driver.Naming.trOf inp
  let nm := Oas3.Naming.toRustTypeName Oas3.Gen.prelude tr
  let es := entriesOf sh vals (min np vals.length)
  let impl ← field req "impl"
  let model := F nm m sh es
  let mj := match model with
    | some e => emittedJson (if sh == .open then "EKnown" else "E") e
    | none => Json.mkObj [("fail", if selfPanics nm (strategyOf m sh) es then "panic" else "err")]
  let j := judgeOf nm m sh es vals impl model
  pure (Json.mkObj [("model", mj), ("match", Json.bool (mj == normImpl impl)), ("judge", j), ("branch", Json.str (branchOf nm m sh es))])

def buildH : Handler := fun req => do
  let inp ← field req "in"
  let es ← jsonEntries (← field inp "values")
  let st ← match ← (← field inp "strategy").getStr? with
    | "dedup" => pure Strategy.dedup | "preserve" => pure Strategy.preserve | s => throw s!"strategy {s}"
  let ci ← boolOf (← field inp "ci")
  let vals := strs es
  if vals.any (fun s => s.any fun c => c.toNat ≥ 128) && Driver.Naming.missingTr inp (vals.flatten) then throw "tr-missing"
  let tr ← Driver.Naming.trOf inp
  let nm := Oas3.Naming.toRustTypeName Oas3.Gen.prelude tr
  let impl ← field req "impl"
  let vs := build st nm es
  let mj := Json.mkObj [("variants", Json.arr (vs.map variantJson).toArray), ("ci", ci), ("fallback", optName (fallbackVariant vs))]
  -- the (mode, shape) in which this (strategy, case policy) pair arises
  let (m, sh) : Mode × Shape := match st, ci with
    | .dedup, false => (.merge, .plain)
    | .preserve, false => (.preserve, .plain)
    | .dedup, true => (.relaxed, .plain)
    | .preserve, true => (.relaxed, .open)
  let toEmitted (vars : List Variant) (fb : Option Str) : Emitted :=
    ⟨vars, if ci then .custom true (vars.map fun x => ⟨lowerS x.rename, x.name⟩) fb else .derive, sh == .open⟩
  let model : Option Emitted := some (toEmitted vs (fallbackVariant vs))
  -- the AST as the emitter would render it (emission itself is checked by enum.gen)
  let implE : Json := match (do
      let ivs ← (← arr (← field impl "variants")).mapM variantOf
      let fb ← match fieldD impl "fallback" Json.null with | .str s => pure (some s.toList) | _ => pure none
      pure (emittedJson "E" (toEmitted ivs fb)) : Except String Json) with
    | .ok j => j
    | .error _ => impl
  let j := judgeOf nm m sh es vals implE model
  pure (Json.mkObj [("model", mj), ("match", Json.bool (mj == impl)), ("judge", j), ("branch", Json.str (branchOf nm m sh es))])

/-- tie A: what `Sem` predicts for the EMITTED facts on each probe string, against what the compiled
code did (`{"ser": serialized, "disp": Display}` or `null` = rejected). -/
def semH : Handler := fun req => do
  let inp ← field req "in"
  let e ← emittedOf (← field inp "emitted")
  let probes ← charsList (← field inp "probes")
  let impl ← field req "impl"
  let outs := probes.map fun s =>
    match encodeWire (decodeWire e s) with
    | some o => Json.mkObj [("ser", str o), ("disp", str o)]
    | none => Json.null
  let mj := Json.arr outs.toArray
  pure (answer mj impl (verdict true []) (if e.wrapped then "sem/open" else "sem"))

def ops : List (String × Handler) := [("enum.gen", genH), ("enum.build", buildH), ("enum.sem", semH)]

end Oas3.Driver.Enum
