/-
C16 — generated validation is sound (and complete) with respect to the declared constraints.

J (leaf)   : `leafJ rx req l fp attrs v` — the emitted attributes type-check, `accepts → satisfies`, and
             `satisfies ∧ non-empty-if-required → accepts`, for one member and one value.
F          : `memberAttrs` / `paramAttrs` (= `FieldConverter::extract_all_validation`), `nestedFix`
             (= `NestedValidationProcessor`), `clearResponseOnly` (= `SerdeUsage::update_struct`), `renderNum`.
Theorems   : leaf soundness + completeness for ALL values on the clean fragment; characterisation
             `J ∨ Known₁ ∨ …`; nested reachability along every chain of members; request-side types are
             never cleared; literal rendering is exact inside the type's range and clamping is harmless in the
             stated directions; `cex_*` exhibit every known class on a concrete input.
-/
import Oas3Model.Proofs.ValidLeaf
import Oas3Model.Proofs.ValidGraph
import Oas3Model.Model.ValidSites
namespace Oas3.Props.C16
open Oas3.Valid

/-- array schemas carry `type: array` (possibly nullable) -/
def FS.wf : FS → Bool
  | .arrP c _ | .arrR c _ => c.jt == some .array
  | _ => true

/-! ## 1. leaves: soundness and completeness for every value -/

theorem leaf_any (rx : Rx) (req nl : Bool) (s : FS) (l : Leaf) (c : Cons) (v : LV) (hs : s.leaf = some l) (hcs : s.cons = some c)
    (hw : FS.wf s = true) (hc : Clean rx l = true) (ht : lvTyped l v = true) :
    leafJ rx req l s.base (extract rx.compiles req c ⟨s.base, nl⟩) v = true := by
  cases s with
  | ref t => cases hs
  | prim c0 =>
    simp only [FS.leaf, Option.some.injEq] at hs
    simp only [FS.cons, Option.some.injEq] at hcs
    subst hs; subst hcs
    cases v with
    | absent => exact leaf_absent rx req nl _ _ (fun _ => rfl) hc
    | sc x =>
      cases x with
      | num n => exact leaf_num rx req nl _ n hc ht
      | str t => exact leaf_str rx req nl _ t hc ht
    | list vs => exact leaf_list rx req nl _ _ vs hc ht
  | arrP c0 i =>
    simp only [FS.leaf, Option.some.injEq] at hs
    simp only [FS.cons, Option.some.injEq] at hcs
    subst hs; subst hcs
    have hnum : c0.isNumeric = false := by
      simp only [FS.wf, beq_iff_eq] at hw
      unfold Cons.isNumeric
      unfold Cons.jt at hw
      cases hty : c0.ty with
      | single t => cases t <;> simp [hty] at hw ⊢
      | nullable t => rfl
      | other => rfl
      | wrapped t => rfl
    cases v with
    | absent => exact leaf_absent rx req nl _ _ (fun h => by simp only at h; rw [hnum] at h; cases h) hc
    | sc x => simp [lvTyped] at ht
    | list vs => exact leaf_list rx req nl _ _ vs hc ht
  | arrR c0 t =>
    simp only [FS.leaf, Option.some.injEq] at hs
    simp only [FS.cons, Option.some.injEq] at hcs
    subst hs; subst hcs
    have hnum : c0.isNumeric = false := by
      simp only [FS.wf, beq_iff_eq] at hw
      unfold Cons.isNumeric
      unfold Cons.jt at hw
      cases hty : c0.ty with
      | single t => cases t <;> simp [hty] at hw ⊢
      | nullable t => rfl
      | other => rfl
      | wrapped t => rfl
    cases v with
    | absent => exact leaf_absent rx req nl _ _ (fun h => by simp only at h; rw [hnum] at h; cases h) hc
    | sc x =>
      -- a scalar cannot inhabit an array schema
      simp only [lvTyped, Bool.and_eq_true, bne_iff_ne, ne_eq] at ht
      simp only [FS.wf, beq_iff_eq] at hw
      exact absurd hw ht.1.2
    | list vs => exact leaf_list rx req nl _ _ vs hc ht

/-- **C16, members**: on the clean fragment the attributes extracted for a struct member accept exactly the values
that satisfy the declared constraints (up to the implicit "required strings are non-empty") — for ALL values. -/
theorem C16_leaf_member (rx : Rx) (req : Bool) (s : FS) (l : Leaf) (v : LV) (hs : s.leaf = some l)
    (hw : FS.wf s = true) (hc : Clean rx l = true) (ht : lvTyped l v = true) :
    leafJ rx req l s.base (memberAttrs rx.compiles req s) v = true := by
  unfold memberAttrs
  cases hcs : s.cons with
  | none => cases s <;> simp [FS.cons, FS.leaf] at hcs hs
  | some c =>
    have hlc : c = l.c := by cases s <;> simp [FS.cons, FS.leaf] at hcs hs <;> rw [← hcs, ← hs]
    have hnw : c.isWrapped = false := by rw [hlc]; exact clean_not_wrapped hc
    simp only [extractW, hnw, Bool.false_eq_true, if_false]
    exact leaf_any rx req _ s l c v hs hcs hw hc ht

/-- **C16, parameters** (path / query / header position) -/
theorem C16_leaf_param (rx : Rx) (req : Bool) (s : FS) (l : Leaf) (v : LV) (hs : s.leaf = some l)
    (hw : FS.wf s = true) (hc : Clean rx l = true) (ht : lvTyped l v = true) :
    leafJ rx req l s.base (paramAttrs rx.compiles req s) v = true := by
  unfold paramAttrs
  cases hcs : s.cons with
  | none => cases s <;> simp [FS.cons, FS.leaf] at hcs hs
  | some c =>
    have hlc : c = l.c := by cases s <;> simp [FS.cons, FS.leaf] at hcs hs <;> rw [← hcs, ← hs]
    have hnw : c.isWrapped = false := by rw [hlc]; exact clean_not_wrapped hc
    simp only [extractW, hnw, Bool.false_eq_true, if_false]
    exact leaf_any rx req _ s l c v hs hcs hw hc ht

/-- soundness alone, spelled out: accepted ⇒ every declared constraint holds -/
theorem C16_leaf_sound (rx : Rx) (req : Bool) (s : FS) (l : Leaf) (v : LV) (hs : s.leaf = some l)
    (hw : FS.wf s = true) (hc : Clean rx l = true) (ht : lvTyped l v = true)
    (hacc : acceptsAll rx s.base (memberAttrs rx.compiles req s) v = true) : satisfies rx l.c l.items v = true := by
  have h := C16_leaf_member rx req s l v hs hw hc ht
  unfold leafJ at h
  simp only [Bool.and_eq_true, Bool.or_eq_true, Bool.not_eq_true'] at h
  rcases h.1.2 with h1 | h1
  · rw [hacc] at h1; cases h1
  · exact h1

/-- completeness alone: all constraints hold, required strings non-empty ⇒ accepted -/
theorem C16_leaf_complete (rx : Rx) (req : Bool) (s : FS) (l : Leaf) (v : LV) (hs : s.leaf = some l)
    (hw : FS.wf s = true) (hc : Clean rx l = true) (ht : lvTyped l v = true)
    (hsat : satisfies rx l.c l.items v = true) (hne : nonEmptyReq req v = true) :
    acceptsAll rx s.base (memberAttrs rx.compiles req s) v = true := by
  have h := C16_leaf_member rx req s l v hs hw hc ht
  unfold leafJ at h
  simp only [Bool.and_eq_true, Bool.or_eq_true, Bool.not_eq_true'] at h
  rcases h.2 with h1 | h1
  · rw [hsat, hne] at h1; cases h1
  · exact h1

/-! ## 2. characterisation: outside the clean fragment lie exactly the named classes -/

/-- a bound outside i8/i16/i32 in the direction where clamping keeps the meaning (see `C16_clamp_harmless_*`) -/
def HarmlessClamp (c : Cons) : Bool :=
  c.isNumeric && !litExact c && !KnownIllTypedLiteral c && !KnownClampChangesMeaning c

/-- a `pattern` on a string whose format maps it to a date / time / uuid type (subsumed by the special-format class
for freeform strings; kept as its own disjunct because `Clean` names it) -/
def PatternOnTypedFormat (c : Cons) : Bool := c.jt == some .string && skipRegexBase (primOf c) && c.pattern.isSome

theorem notClean_cases (rx : Rx) (l : Leaf) (h : Clean rx l = false) :
    l.c.wellKinded = false ∨ l.c.hasEnum = true ∨ KnownNullableNumeric l.c = true ∨ KnownNullableArray l.c = true ∨
    KnownItemConstraintsLost l = true ∨ KnownSpecialFormatSkipsLength l.c = true ∨ KnownUncompilableRegex rx l.c = true ∨
    KnownIllTypedLiteral l.c = true ∨ KnownClampChangesMeaning l.c = true ∨ HarmlessClamp l.c = true ∨
    PatternOnTypedFormat l.c = true ∨ l.c.isWrapped = true := by
  unfold Clean at h
  unfold HarmlessClamp PatternOnTypedFormat
  cases h1 : l.c.wellKinded <;> cases h2 : l.c.hasEnum <;> cases h3 : KnownNullableNumeric l.c <;>
    cases h4 : KnownNullableArray l.c <;> cases h5 : KnownItemConstraintsLost l <;>
    cases h6 : KnownSpecialFormatSkipsLength l.c <;> cases h7 : KnownUncompilableRegex rx l.c <;>
    cases h8 : KnownIllTypedLiteral l.c <;> cases h9 : KnownClampChangesMeaning l.c <;> cases h10 : l.c.isWrapped <;> simp_all
  -- remaining: every named class is false
  cases hn : l.c.isNumeric <;> cases hl : litExact l.c <;> simp_all
  all_goals
    cases hj : l.c.jt with
    | none => simp_all
    | some t => cases t <;> simp_all

/-- the ill-typed-literal class is the union of its three causes (when the numeric schema's format maps to a numeric type) -/
theorem illTyped_cases (c : Cons) (h : KnownIllTypedLiteral c = true) (hp : (primOf c).isInt = true ∨ (primOf c).isFloat = true) :
    KnownFloatBoundOnInt c = true ∨ KnownBoundOutsideType c = true ∨ KnownFloatExponentLiteral c = true := by
  unfold KnownIllTypedLiteral at h
  simp only [Bool.and_eq_true, List.any_eq_true] at h
  obtain ⟨hn, b, hb, hv⟩ := h
  rcases hp with hi | hf
  · by_cases ht : b.isIntTok = true
    · right; left
      unfold KnownBoundOutsideType
      simp only [Bool.and_eq_true, List.any_eq_true, Bool.or_eq_true]
      exact ⟨hn, b, hb, Or.inl ⟨hi, ht⟩, hv⟩
    · left
      unfold KnownFloatBoundOnInt
      simp only [Bool.and_eq_true, List.any_eq_true]
      exact ⟨⟨hn, hi⟩, b, hb, by simpa using ht⟩
  · by_cases hbad : (renderNum (primOf c) b).isBad = true
    · right; right
      unfold KnownFloatExponentLiteral
      simp only [Bool.and_eq_true, List.any_eq_true]
      exact ⟨⟨hn, hf⟩, b, hb, hbad⟩
    · right; left
      unfold KnownBoundOutsideType
      simp only [Bool.and_eq_true, List.any_eq_true, Bool.or_eq_true]
      exact ⟨hn, b, hb, Or.inr ⟨hf, by simpa using hbad⟩, hv⟩

/-- **C16 characterisation**: for every member schema and every well-typed value, the judge holds on the model's
output, or the schema lies in one of the named classes. -/
theorem C16_char (rx : Rx) (req : Bool) (s : FS) (l : Leaf) (v : LV) (hs : s.leaf = some l)
    (hw : FS.wf s = true) (ht : lvTyped l v = true) :
    leafJ rx req l s.base (memberAttrs rx.compiles req s) v = true ∨
    l.c.wellKinded = false ∨ l.c.hasEnum = true ∨ KnownNullableNumeric l.c = true ∨ KnownNullableArray l.c = true ∨
    KnownItemConstraintsLost l = true ∨ KnownSpecialFormatSkipsLength l.c = true ∨ KnownUncompilableRegex rx l.c = true ∨
    KnownIllTypedLiteral l.c = true ∨ KnownClampChangesMeaning l.c = true ∨ HarmlessClamp l.c = true ∨
    PatternOnTypedFormat l.c = true ∨ l.c.isWrapped = true := by
  cases hc : Clean rx l with
  | true => exact Or.inl (C16_leaf_member rx req s l v hs hw hc ht)
  | false => exact Or.inr (notClean_cases rx l hc)

/-- finding F16-9: a member written as a nullable WRAPPER (`anyOf | oneOf [<constrained schema>, {type: null}]`) gets NO
validation attribute, whatever its variant declares — for every constraint set and every position -/
theorem wrapper_gets_no_attribute (rx : Rx) (req : Bool) (c : Cons) (tr : TRef) (h : c.isWrapped = true) :
    extractW rx.compiles req c tr = [] := by
  simp [extractW, h]

/-- outside wrappers the member's attributes are those of `extract_all_validation` on its own schema -/
theorem extractW_eq_extract (rx : Rx) (req : Bool) (c : Cons) (tr : TRef) (h : c.isWrapped = false) :
    extractW rx.compiles req c tr = extract rx.compiles req c tr := by
  simp [extractW, h]

/-! ## 3. literals: exact inside the range, clamped outside, harmless in two of four directions -/

def clampI (lo hi b : Int) : Int := if b ≤ lo then lo else if b ≥ hi then hi else b

/-- `render_integer` on i8 / i16 / i32 denotes the bound clamped to the type's range -/
theorem C16_render_clamps (p : Prim) (lo hi b : Int) (hp : p = .i8 ∨ p = .i16 ∨ p = .i32) (hr : p.range = some (lo, hi)) :
    (renderInteger p b).val p = some (Num.ofInt (clampI lo hi b)) := by
  rcases hp with h | h | h <;> subst h <;> simp only [Prim.range, Option.some.injEq, Prod.mk.injEq] at hr <;>
    obtain ⟨rfl, rfl⟩ := hr <;> unfold renderInteger clampI <;> simp only <;>
    split <;> (try split) <;> simp [Lit.val, Prim.range, Num.ofInt] <;> omega

/-- inside the primitive's range every integer bound is rendered to a literal that denotes exactly that bound
(all eight integer primitives, through `as_i64` or `as_u64`) -/
theorem C16_render_faithful (p : Prim) (lo hi n : Int) (hr : p.range = some (lo, hi)) (h1 : lo ≤ n) (h2 : n ≤ hi) :
    (renderNum p (Num.ofInt n)).val p = some (Num.ofInt n) := by
  cases p <;> simp only [Prim.range, Option.some.injEq, Prod.mk.injEq, reduceCtorEq] at hr
  all_goals (
    obtain ⟨rfl, rfl⟩ := hr
    unfold renderNum
    simp only [Prim.isFloat, Num.isIntTok, Num.ofInt, Bool.false_eq_true, if_false, Bool.not_false, beq_self_eq_true, Bool.true_and,
      i64Min, i64Max, u64Max]
    by_cases c1 : (-9223372036854775808 : Int) ≤ n <;> by_cases c2 : n ≤ (9223372036854775807 : Int) <;>
      by_cases c3 : (0 : Int) ≤ n <;> by_cases c4 : n ≤ (18446744073709551615 : Int) <;>
      simp only [c1, c2, c3, c4, decide_true, decide_false, Bool.and_true, Bool.and_false, Bool.true_and, if_true, if_false,
        Bool.false_eq_true] <;>
      (try omega) <;>
      simp only [renderInteger, renderUnsigned] <;> (repeat' split) <;>
      simp_all [Lit.val, Prim.range, Num.ofInt] <;> (try omega))

/-- clamping keeps the meaning of `maximum` unless the bound is below the type's minimum … -/
theorem C16_clamp_harmless_max (lo hi b v : Int) (hv : lo ≤ v ∧ v ≤ hi) (h : ¬ b < lo) : (v ≤ clampI lo hi b ↔ v ≤ b) := by
  unfold clampI; split <;> (try split) <;> omega
/-- … of `minimum` unless it is above the maximum … -/
theorem C16_clamp_harmless_min (lo hi b v : Int) (hv : lo ≤ v ∧ v ≤ hi) (h : ¬ hi < b) : (clampI lo hi b ≤ v ↔ b ≤ v) := by
  unfold clampI; split <;> (try split) <;> omega
/-- … of `exclusiveMaximum` unless it is above the maximum … -/
theorem C16_clamp_harmless_xmax (lo hi b v : Int) (hv : lo ≤ v ∧ v ≤ hi) (h : ¬ hi < b) : (v < clampI lo hi b ↔ v < b) := by
  unfold clampI; split <;> (try split) <;> omega
/-- … and of `exclusiveMinimum` unless it is below the minimum. -/
theorem C16_clamp_harmless_xmin (lo hi b v : Int) (hv : lo ≤ v ∧ v ≤ hi) (h : ¬ b < lo) : (clampI lo hi b < v ↔ b < v) := by
  unfold clampI; split <;> (try split) <;> omega

/-- and in the other directions it really changes the verdict (this is `KnownClampChangesMeaning`) -/
theorem C16_clamp_changes_max (lo hi b : Int) (hlh : lo ≤ hi) (h : b < lo) : lo ≤ clampI lo hi b ∧ ¬ lo ≤ b := by
  unfold clampI; split <;> (try split) <;> omega

/-! ## 4. nesting and request-side retention -/

/-- **nested reaches** (restated from `Proofs/ValidGraph`): along every chain of members
(struct-typed members, through Option / Vec / Box — the emitted `target`) ending in a struct with own
validation attributes, the emitted member carries `#[validate(nested)]`. -/
theorem C16_nested_reaches {ss out : List EStruct} (h : nestedFix ss = some out)
    {st : EStruct} (hst : st ∈ ss) {f : EField} (hf : f ∈ st.fields) {b c : Name} (hb : f.target = some b)
    (p : Chain ss b c) {sc : EStruct} (hsc : sc ∈ ss) (hcn : sc.name = c) (hca : sc.hasAttrs = true) :
    ∃ st' ∈ out, st'.name = st.name ∧ ∃ f' ∈ st'.fields, f'.name = f.name ∧ f'.target = some b ∧ VAttr.nested ∈ f'.attrs :=
  nested_reaches h hst hf hb p hsc hcn hca

/-- the fix point only appends `nested`: no extracted attribute is lost -/
theorem C16_nested_keeps (R : List Name) (f : EField) : ∀ a ∈ f.attrs, a ∈ (markNested R f).attrs := markNested_keeps R f

/-- **request side is never cleared**: a type reachable from a request seed through the dependency edges keeps every
validation attribute; only `Schema` structs are ever cleared. -/
theorem C16_request_side_kept (d : Deps) {seeds inReq : List Name} (inResp : List Name)
    (h : reach d.succ d.size seeds = some inReq) {r : Name} (hr : r ∈ seeds) {s : EStruct}
    (p : Path d.succ r s.name) : clearResponseOnly inReq inResp s = s := request_side_kept d inResp h hr p

theorem C16_params_never_cleared (inReq inResp : List Name) (s : EStruct) (h : s.kind ≠ .schema) :
    clearResponseOnly inReq inResp s = s := clear_keeps_non_schema inReq inResp s h

/-! ## 5. counter-examples: every known class on a concrete input (today's code, hence the faithful model) -/

def rx0 : Rx := { compiles := fun p => p != "(?=x)y".toList, isMatch := fun _ _ => true, email := fun _ => true, url := fun _ => true }
def n (i : Int) : Num := Num.ofInt i
def sNum (i : Int) : LV := .sc (.num (n i))

/-- `items: {type: integer, maximum: 5}`: `[6]` is accepted -/
theorem cex_item_constraints_lost :
    let s := FS.arrP { ty := .single .array } { ty := .single .integer, maximum := some (n 5) }
    let l : Leaf := ⟨{ ty := .single .array }, some { ty := .single .integer, maximum := some (n 5) }⟩
    KnownItemConstraintsLost l = true ∧ leafJ rx0 true l s.base (memberAttrs rx0.compiles true s) (.list [.num (n 6)]) = false := by
  decide +kernel

/-- `type: [integer, null], maximum: 5`: `6` is accepted -/
theorem cex_nullable_numeric :
    let c : Cons := { ty := .nullable .integer, maximum := some (n 5) }
    KnownNullableNumeric c = true ∧ leafJ rx0 false ⟨c, none⟩ (primOf c) (memberAttrs rx0.compiles false (.prim c)) (sNum 6) = false := by
  decide +kernel

/-- `type: [array, null], maxItems: 1`: a two-element list is accepted -/
theorem cex_nullable_array :
    let c : Cons := { ty := .nullable .array, maxItems := some 1 }
    let i : Cons := { ty := .single .string }
    KnownNullableArray c = true ∧
      leafJ rx0 false ⟨c, some i⟩ (primOf i) (memberAttrs rx0.compiles false (.arrP c i)) (.list [.str ['a'], .str ['b']]) = false := by
  decide +kernel

/-- `format: date, maxLength: 5`: the ten-character date is accepted -/
theorem cex_special_format :
    let c : Cons := { ty := .single .string, format := some "date".toList, maxLength := some 5 }
    KnownSpecialFormatSkipsLength c = true ∧
      leafJ rx0 true ⟨c, none⟩ (primOf c) (memberAttrs rx0.compiles true (.prim c)) (.sc (.str "2020-01-02".toList)) = false := by
  decide +kernel

/-- a pattern the regex crate rejects is dropped: with an engine for which nothing matches it, everything is accepted -/
theorem cex_uncompilable_regex :
    let rx : Rx := { rx0 with isMatch := fun _ _ => false }
    let c : Cons := { ty := .single .string, pattern := some "(?=x)y".toList }
    KnownUncompilableRegex rx c = true ∧
      leafJ rx true ⟨c, none⟩ (primOf c) (memberAttrs rx.compiles true (.prim c)) (.sc (.str ['z'])) = false := by
  decide +kernel

/-- `type: integer, minimum: 1.5` renders `range(min = 1.5)` on an `i64` field: the attribute does not type-check -/
theorem cex_ill_typed_float_on_int :
    let c : Cons := { ty := .single .integer, minimum := some ⟨15, 1, true⟩ }
    KnownFloatBoundOnInt c = true ∧ leafJ rx0 true ⟨c, none⟩ (primOf c) (memberAttrs rx0.compiles true (.prim c)) (sNum 2) = false := by
  decide +kernel

/-- `type: integer, format: uint32, minimum: -1` renders the unsuffixed `-1` on a `u32` field -/
theorem cex_ill_typed_unsigned :
    let c : Cons := { ty := .single .integer, format := some "uint32".toList, minimum := some (n (-1)) }
    KnownBoundOutsideType c = true ∧ leafJ rx0 true ⟨c, none⟩ (primOf c) (memberAttrs rx0.compiles true (.prim c)) (sNum 2) = false := by
  decide +kernel

/-- `format: float, maximum: 1.5e300` renders `1.5e+300` on an `f32` field: out of range for `f32` -/
theorem cex_ill_typed_f32 :
    let c : Cons := { ty := .single .number, format := some "float".toList, maximum := some ⟨15 * 10 ^ 299, 0, true⟩ }
    KnownBoundOutsideType c = true ∧ leafJ rx0 true ⟨c, none⟩ (primOf c) (memberAttrs rx0.compiles true (.prim c)) (.sc (.num ⟨0, 0, true⟩)) = false := by
  decide +kernel

/-- `type: number, maximum: 1e-7` renders `1e-7` and `1e16` renders `1e+16`: float literals as they stand (the `.0`
that `format_number` used to append to them — finding F16-8 — is gone since the `fix:` commit); the bound is then
enforced: 1 is rejected under `maximum: 1e-7`, 0 is accepted -/
theorem exponent_bound_is_literal :
    let c : Cons := { ty := .single .number, maximum := some ⟨1, 7, true⟩ }
    KnownFloatExponentLiteral c = false ∧ (renderNum .f64 ⟨1, 7, true⟩).text = "1e-7".toList ∧
      (renderNum .f64 ⟨1, 7, true⟩).isBad = false ∧ (renderNum .f64 ⟨10 ^ 16, 0, true⟩).text = "1e+16".toList ∧
      leafJ rx0 true ⟨c, none⟩ (primOf c) (memberAttrs rx0.compiles true (.prim c)) (.sc (.num ⟨0, 0, true⟩)) = true ∧
      leafJ rx0 true ⟨c, none⟩ (primOf c) (memberAttrs rx0.compiles true (.prim c)) (.sc (.num ⟨1, 0, true⟩)) = true := by
  decide +kernel

/-- `format: int8, maximum: -200` renders `max = i8::MIN`: `-128` is accepted although `-128 ≤ -200` is false -/
theorem cex_clamp_changes_meaning :
    let c : Cons := { ty := .single .integer, format := some "int8".toList, maximum := some (n (-200)) }
    KnownClampChangesMeaning c = true ∧ leafJ rx0 true ⟨c, none⟩ (primOf c) (memberAttrs rx0.compiles true (.prim c)) (sNum (-128)) = false := by
  decide +kernel

/-- `exclusiveMaximum: 2147483648` on an `int32` renders `exclusive_max = i32::MAX`: `2147483647` is REJECTED although it
satisfies the schema (completeness) -/
theorem cex_clamp_rejects_valid :
    let c : Cons := { ty := .single .integer, format := some "int32".toList, exMax := some (n 2147483648) }
    KnownClampChangesMeaning c = true ∧ satisfies rx0 c none (sNum 2147483647) = true ∧
      acceptsAll rx0 (primOf c) (memberAttrs rx0.compiles true (.prim c)) (sNum 2147483647) = false := by
  decide +kernel

def strField (nm : String) (pat : String) : MField := { name := nm.toList, req := false, s := .prim { ty := .single .string, pattern := some pat.toList } }

/-- two structs whose (struct, field) pairs join to the same constant name: `Foo.bar_baz` (`^b$`) ends up validated against
`FooBar.baz`'s pattern `^a$` -/
theorem cex_regex_const_collision :
    let d : Desc := { schemas := [("Foo".toList, [strField "bar_baz" "^b$", { name := "fb".toList, req := false, s := .ref "FooBar".toList }]),
                                  ("FooBar".toList, [strField "baz" "^a$"])],
                      aliases := [], params := [], body := some "Foo".toList, resp := none, echo := none }
    regexConstName "Foo".toList "bar_baz".toList = regexConstName "FooBar".toList "baz".toList ∧
    ((genModel rx0.compiles d).map fun ss => (ss.filter (·.name == "Foo".toList)).map fun s => (s.fields.map (·.attrs))) =
      some [[[.regex "^a$".toList], [.nested]]] := by
  decide +kernel

/-- a body that is an array alias: `OpRequest.body` gets no `nested`, so `Inner`'s attributes are never evaluated -/
theorem cex_body_alias_unvalidated :
    let d : Desc := { schemas := [("Inner".toList, [{ name := "s".toList, req := false, s := .prim { ty := .single .string, maxLength := some 2 } }])],
                      aliases := [("Items".toList, "Inner".toList)], params := [], body := some "Items".toList, resp := none, echo := none }
    ((genModel rx0.compiles d).map fun ss => ss.map fun s => (s.name, s.fields.map (·.attrs))) =
      some [("Inner".toList, [[.length none (some 2)]]), ("OpRequest".toList, [[]])] := by
  decide +kernel

/-! ## 6. non-vacuity -/

/-- the clean fragment is inhabited by the everyday schemas, and the judge is not trivially true there -/
example :
    let c : Cons := { ty := .single .string, minLength := some 2, maxLength := some 4, pattern := some "^a+$".toList }
    Clean rx0 ⟨c, none⟩ = true ∧ memberAttrs rx0.compiles true (.prim c) = [.length (some 2) (some 4), .regex "^a+$".toList] ∧
    acceptsAll rx0 (primOf c) (memberAttrs rx0.compiles true (.prim c)) (.sc (.str "aaaaa".toList)) = false := by
  decide +kernel

example :
    let c : Cons := { ty := .single .integer, format := some "int32".toList, minimum := some (n 1), exMax := some (n 1000) }
    Clean rx0 ⟨c, none⟩ = true ∧
    memberAttrs rx0.compiles false (.prim c) = [.range .i32 (some (.int 1 (some .i32))) none none (some (.int 1000 (some .i32)))] ∧
    (Lit.int 1000 (some .i32)).text = "1_000i32".toList := by
  decide +kernel

/-- a required string without length keywords gets the implicit `min = 1` -/
example : memberAttrs rx0.compiles true (.prim { ty := .single .string }) = [.length (some 1) none] := by decide +kernel

/-- nested: `Body.inner : Inner`, `Inner.deep : Option<Deep>`, `Deep.s` constrained ⇒ both members carry `nested`; the response-only
`Out` loses its attribute -/
example :
    let d : Desc := { schemas := [("Body".toList, [{ name := "inner".toList, req := true, s := .ref "Inner".toList }]),
                                  ("Deep".toList, [{ name := "s".toList, req := false, s := .prim { ty := .single .string, maxLength := some 2 } }]),
                                  ("Inner".toList, [{ name := "deep".toList, req := false, s := .ref "Deep".toList }]),
                                  ("Out".toList, [{ name := "s".toList, req := false, s := .prim { ty := .single .string, maxLength := some 2 } }])],
                      aliases := [], params := [], body := some "Body".toList, resp := some "Out".toList, echo := none }
    ((genModel rx0.compiles d).map fun ss => ss.map fun s => (s.name, s.fields.map (·.attrs))) =
      some [("Body".toList, [[.nested]]), ("Deep".toList, [[.length none (some 2)]]), ("Inner".toList, [[.nested]]),
            ("OpRequest".toList, [[.nested]]), ("Out".toList, [[]])] := by
  decide +kernel

/-! ## documents with several inline-object sites (`valid.sites`) -/

/-- **site independence.**  The validators the model expects at site `i` of a document are `siteAttrs` of THAT
site's own schema (under the usage of its generated type) — no other site's schema enters. -/
theorem site_independent {κ : Type} [BEq κ] (compiles : List Char → Bool) (sites : List (DocVSite κ)) (i : Nat) :
    (convertVDoc compiles sites)[i]? = (sites[i]?).map (fun d => siteAttrs compiles (effUsageV sites d) d.site) := by
  simp [convertVDoc]

/-- on the request side the expectation does not depend on the usage either: member by member it is
`extract_all_validation` of the member's own schema -/
theorem site_attrs_schema_only (compiles : List Char → Bool) (u : VUsage) (s : VSite) (hu : u.respOnly = false)
    (hp : ∀ f ∈ s.fields, f.isParam = false) :
    siteAttrs compiles u s = s.fields.map fun f => (f.name, memberAttrs compiles f.req f.s) := by
  unfold siteAttrs
  apply List.map_congr_left
  intro f hf
  simp [hu, MField.attrs, hp f hf]

/-- a type used in both directions (e.g. shared between a request-side and a response-side holder) keeps
its validators: only response-ONLY types are cleared -/
theorem shared_request_response_keeps (a b : VUsage) (ha : a.inReq = true) : (a.join b).respOnly = false := by
  simp [VUsage.join, VUsage.respOnly, ha]

def daysSite (mx : Int) : VSite :=
  { fields := [{ name := "days".toList, req := true, s := .prim { ty := .single .integer, minimum := some (n 1), maximum := some (n mx) } }] }

/-- two same-shaped inline objects `{days: integer 1..365}` / `{days: integer 1..7}` in request bodies -/
def twoSites : List (DocVSite Nat) := [⟨daysSite 365, ⟨true, false⟩, 365⟩, ⟨daysSite 7, ⟨true, false⟩, 7⟩]
def probe : Nat → Name → List LV := fun _ _ => [.absent, sNum 0, sNum 1, sNum 7, sNum 8, sNum 30, sNum 365, sNum 366]

/-- **sharing one struct between two sites with different limits breaks the per-site judge**: the model's
validators pass at both sites; the validators of site 0 used at both sites (what a cache key that ignores the
validation keywords produces) accept `days = 30` at the site that declares `maximum: 7`, and the other way
round the stricter validators reject `days = 30` where 365 is allowed. -/
theorem cex_shared_validators :
    docJ rx0 twoSites (convertVDoc rx0.compiles twoSites) probe = [true, true] ∧
    docJ rx0 twoSites [siteAttrs rx0.compiles ⟨true, false⟩ (daysSite 365), siteAttrs rx0.compiles ⟨true, false⟩ (daysSite 365)] probe = [true, false] ∧
    docJ rx0 twoSites [siteAttrs rx0.compiles ⟨true, false⟩ (daysSite 7), siteAttrs rx0.compiles ⟨true, false⟩ (daysSite 7)] probe = [false, true] := by
  decide +kernel

/-- at a response-only use site nothing is claimed (the generator clears the validators there) -/
theorem resp_only_site_unjudged (rx : Rx) (s : VSite) (k : Nat) (a : List (Name × List VAttr)) (vals : Nat → Name → List LV) :
    docJ rx [⟨s, ⟨false, true⟩, k⟩] [a] vals = [true] := by
  simp [docJ, VUsage.respOnly]

end Oas3.Props.C16
