import Oas3Model.Model.Naming
import Oas3Model.Gen.Naming
namespace Oas3.Props.C09
open Oas3.Naming

/-- Every Rust keyword of the reference list is in the generator's FORBIDDEN_IDENTIFIERS table
(regenerated from the source): removing a word from the Rust table breaks this proof. -/
theorem keywords_covered : ∀ k ∈ rustKeywords, k ∈ Oas3.Gen.forbidden := by decide

end Oas3.Props.C09
