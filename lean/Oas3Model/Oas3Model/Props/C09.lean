import Oas3Model.Model.Naming
import Oas3Model.Gen.Naming
import Oas3Model.Proofs.Naming
namespace Oas3.Props.C09
open Oas3.Naming

/-- Every Rust keyword of the reference list is in the generator's FORBIDDEN_IDENTIFIERS table
(regenerated from the source): removing a word from the Rust table breaks this proof. -/
theorem keywords_covered : ∀ k ∈ rustKeywords, k ∈ Oas3.Gen.forbidden := by decide

/-- Every prelude / derive-macro name the generated module would shadow is in the generator's
`RESERVED_TYPE_NAMES`-style table (regenerated from the source). -/
theorem shadowed_covered : ∀ k ∈ shadowed, k ∈ Oas3.Gen.prelude := by decide

/-- Every word of the generated forbidden table has identifier shape (so `r#word` is lexically fine). -/
theorem forbidden_shape : ∀ k ∈ Oas3.Gen.forbidden, identShape k = true := by decide

/-- Appending `Type` to any word of the generated prelude table gives a legal type name. -/
theorem prelude_suffix_legal :
    ∀ k ∈ Oas3.Gen.prelude, legal .type (k ++ "Type".toList) = true := by decide

/-! ### `sanitize`, `to_snake_case` -/

theorem sanitize_charset (tr : Tr) (s : List Char) : ∀ c ∈ sanitize tr s, okc c = true :=
  sanitize_okc tr s

theorem sanitize_edges (tr : Tr) (s : List Char) :
    (sanitize tr s).head? ≠ some '_' ∧ (sanitize tr s).getLast? ≠ some '_' :=
  ⟨sanitize_head tr s, sanitize_getLast tr s⟩

theorem toSnake_charset (s : List Char) (h : ∀ c ∈ s, okc c = true) :
    ∀ c ∈ toSnake s, (c.isLower || c.isDigit || c == '_') = true :=
  toSnake_lduc s h

/-! ### the three sanitisers yield legal Rust identifiers (for EVERY transliteration `tr`) -/

/-- KEY THEOREM. Depends on `keywords_covered` (rustKeywords ⊆ generated FORBIDDEN table). -/
theorem field_legal_char (tr : Tr) (s : List Char) :
    legal .field (toRustFieldName Oas3.Gen.forbidden tr s) = true ∨
    toRustFieldName Oas3.Gen.forbidden tr s = ['_'] ∨
    rawPassthrough s = true :=
  field_legal_aux Oas3.Gen.forbidden keywords_covered forbidden_shape tr s

/-- Depends on `shadowed_covered` (shadowed ⊆ generated prelude table). -/
theorem type_legal_char (tr : Tr) (s : List Char) :
    legal .type (toRustTypeName Oas3.Gen.prelude tr s) = true ∨
    toRustTypeName Oas3.Gen.prelude tr s = "r#Self".toList :=
  type_legal_aux Oas3.Gen.prelude shadowed_covered prelude_suffix_legal tr s

theorem const_legal (tr : Tr) (s : List Char) : legal .const (toRustConstName tr s) = true :=
  const_legal_aux tr s

/-! ### uniqueness helpers -/

theorem ensureUnique_fresh (b : List Char) (used : List (List Char)) (r : List Char) :
    ensureUnique b used = some r → r ∉ used := ensureUnique_fresh_aux

theorem ensureUnique_total (b : List Char) (used : List (List Char)) :
    (ensureUnique b used).isSome = true := ensureUnique_total_aux b used

theorem ensureUniqueSnake_fresh (b : List Char) (used : List (List Char)) (r : List Char) :
    ensureUniqueSnake b used = some r → r ∉ used := ensureUniqueSnake_fresh_aux

theorem ensureUniqueSnake_total (b : List Char) (used : List (List Char)) :
    (ensureUniqueSnake b used).isSome = true := ensureUniqueSnake_total_aux b used

/-! ### non-vacuity -/

/-- identity transliteration (ASCII input) -/
abbrev idTr : Tr := fun c => [c]
abbrev F := Oas3.Gen.forbidden
abbrev P := Oas3.Gen.prelude

-- ordinary behaviour of each sanitiser
example : sanitize idTr "__foo--bar!!".toList = "foo_bar".toList := by decide
example : toSnake "fooBar_baz".toList = "foo_bar_baz".toList := by decide
example : toRustFieldName F idTr "type".toList = "r#type".toList := by decide
example : toRustFieldName F idTr "userId".toList = "user_id".toList := by decide
example : toRustFieldName F idTr "-1st".toList = "negative_1st".toList := by decide
example : toRustFieldName F idTr "1st".toList = "_1st".toList := by decide
example : toRustFieldName F idTr "self".toList = "self_".toList := by decide
example : legal .field (toRustFieldName F idTr "type".toList) = true := by decide
example : toRustTypeName P idTr "user-profile".toList = "UserProfile".toList := by decide
example : toRustTypeName P idTr "Option".toList = "OptionType".toList := by decide
example : toRustTypeName P idTr "3d".toList = "T3d".toList := by decide
example : legal .type (toRustTypeName P idTr "Option".toList) = true := by decide
example : toRustConstName idTr "fooBar-9".toList = "FOO_BAR_9".toList := by decide
example : toRustConstName idTr "9 lives".toList = "_9_LIVES".toList := by decide
example : legal .const (toRustConstName idTr "self".toList) = true := by decide
example : ensureUnique "a".toList ["a".toList, "a2".toList] = some "a3".toList := by decide
example : ensureUniqueSnake "a".toList ["a".toList, "a_2".toList] = some "a_3".toList := by decide

-- each exceptional class of `field_legal_char` / `type_legal_char` is inhabited (the judge says: illegal)
-- (`crate` / `super` were such a class, F09-1, until the `fix:` commit: now `crate_` / `super_`, like `self_`)
example : toRustFieldName F idTr "crate".toList = "crate_".toList ∧
    legal .field (toRustFieldName F idTr "crate".toList) = true := by decide
example : toRustFieldName F idTr "Super".toList = "super_".toList ∧
    legal .field (toRustFieldName F idTr "Super".toList) = true := by decide
example : legal .field "r#crate".toList = false ∧ legal .field "r#super".toList = false := by decide
example : toRustFieldName F idTr "_".toList = ['_'] ∧
    legal .field (toRustFieldName F idTr "_".toList) = false := by decide
example : rawPassthrough "r#1".toList = true ∧ toRustFieldName F idTr "r#1".toList = "r#1".toList ∧
    legal .field (toRustFieldName F idTr "r#1".toList) = false := by decide
example : rawPassthrough "r#crate".toList = true ∧
    legal .field (toRustFieldName F idTr "r#crate".toList) = false := by decide
example : toRustTypeName P idTr "self".toList = "r#Self".toList ∧
    legal .type (toRustTypeName P idTr "self".toList) = false := by decide

-- the judge is not trivially true
example : legal .field "fn".toList = false := by decide
example : legal .type "Vec".toList = false := by decide
example : legal .field "a-b".toList = false := by decide
example : legal .field "r#fn".toList = true := by decide

end Oas3.Props.C09
