import Oas3Model.Model.Naming
import Oas3Model.Gen.Naming
import Oas3Model.Proofs.Naming
import Oas3Model.Model.Registry
import Oas3Model.Proofs.NameIndex
namespace Oas3.Props.C09
open Oas3.Naming

/-- Every Rust keyword of the reference list is in the generator's FORBIDDEN_IDENTIFIERS table
(regenerated from the source): removing a word from the Rust table breaks this proof. -/
theorem keywords_covered : ∀ k ∈ rustKeywords, k ∈ Oas3.Gen.forbidden := by decide

/-- Every prelude / derive-macro name the generated module would shadow is in the generator's
`RESERVED_TYPE_NAMES`-style table (regenerated from the source). -/
theorem shadowed_covered : ∀ k ∈ shadowed, k ∈ Oas3.Gen.prelude := by decide

/-- Every word of the generated forbidden table has identifier shape (so `r#word` is lexically fine). -/
theorem forbidden_shape : ∀ k ∈ Oas3.Gen.forbidden, identShape k = true := by decide

/-- Appending `Type` to any word of the generated prelude table gives a legal type name. -/
theorem prelude_suffix_legal :
    ∀ k ∈ Oas3.Gen.prelude, legal .type (k ++ "Type".toList) = true := by decide

/-! ### `sanitize`, `to_snake_case` -/

theorem sanitize_charset (tr : Tr) (s : List Char) : ∀ c ∈ sanitize tr s, okc c = true :=
  sanitize_okc tr s

theorem sanitize_edges (tr : Tr) (s : List Char) :
    (sanitize tr s).head? ≠ some '_' ∧ (sanitize tr s).getLast? ≠ some '_' :=
  ⟨sanitize_head tr s, sanitize_getLast tr s⟩

theorem toSnake_charset (s : List Char) (h : ∀ c ∈ s, okc c = true) :
    ∀ c ∈ toSnake s, (c.isLower || c.isDigit || c == '_') = true :=
  toSnake_lduc s h

/-! ### the three sanitisers yield legal Rust identifiers (for EVERY transliteration `tr`) -/

/-- KEY THEOREM. Depends on `keywords_covered` (rustKeywords ⊆ generated FORBIDDEN table). -/
theorem field_legal_char (tr : Tr) (s : List Char) :
    legal .field (toRustFieldName Oas3.Gen.forbidden tr s) = true ∨
    toRustFieldName Oas3.Gen.forbidden tr s = ['_'] ∨
    rawPassthrough s = true :=
  field_legal_aux Oas3.Gen.forbidden keywords_covered forbidden_shape tr s

/-- Depends on `shadowed_covered` (shadowed ⊆ generated prelude table). -/
theorem type_legal_char (tr : Tr) (s : List Char) :
    legal .type (toRustTypeName Oas3.Gen.prelude tr s) = true ∨
    toRustTypeName Oas3.Gen.prelude tr s = "r#Self".toList :=
  type_legal_aux Oas3.Gen.prelude shadowed_covered prelude_suffix_legal tr s

theorem const_legal (tr : Tr) (s : List Char) : legal .const (toRustConstName tr s) = true :=
  const_legal_aux tr s

/-! ### uniqueness helpers -/

theorem ensureUnique_fresh (b : List Char) (used : List (List Char)) (r : List Char) :
    ensureUnique b used = some r → r ∉ used := ensureUnique_fresh_aux

theorem ensureUnique_total (b : List Char) (used : List (List Char)) :
    (ensureUnique b used).isSome = true := ensureUnique_total_aux b used

theorem ensureUniqueSnake_fresh (b : List Char) (used : List (List Char)) (r : List Char) :
    ensureUniqueSnake b used = some r → r ∉ used := ensureUniqueSnake_fresh_aux

theorem ensureUniqueSnake_total (b : List Char) (used : List (List Char)) :
    (ensureUniqueSnake b used).isSome = true := ensureUniqueSnake_total_aux b used

/-! ### non-vacuity -/

/-- identity transliteration (ASCII input) -/
abbrev idTr : Tr := fun c => [c]
abbrev F := Oas3.Gen.forbidden
abbrev P := Oas3.Gen.prelude

-- ordinary behaviour of each sanitiser
example : sanitize idTr "__foo--bar!!".toList = "foo_bar".toList := by decide
example : toSnake "fooBar_baz".toList = "foo_bar_baz".toList := by decide
example : toRustFieldName F idTr "type".toList = "r#type".toList := by decide
example : toRustFieldName F idTr "userId".toList = "user_id".toList := by decide
example : toRustFieldName F idTr "-1st".toList = "negative_1st".toList := by decide
example : toRustFieldName F idTr "1st".toList = "_1st".toList := by decide
example : toRustFieldName F idTr "self".toList = "self_".toList := by decide
example : legal .field (toRustFieldName F idTr "type".toList) = true := by decide
example : toRustTypeName P idTr "user-profile".toList = "UserProfile".toList := by decide
example : toRustTypeName P idTr "Option".toList = "OptionType".toList := by decide
example : toRustTypeName P idTr "3d".toList = "T3d".toList := by decide
example : legal .type (toRustTypeName P idTr "Option".toList) = true := by decide
example : toRustConstName idTr "fooBar-9".toList = "FOO_BAR_9".toList := by decide
example : toRustConstName idTr "9 lives".toList = "_9_LIVES".toList := by decide
example : legal .const (toRustConstName idTr "self".toList) = true := by decide
example : ensureUnique "a".toList ["a".toList, "a2".toList] = some "a3".toList := by decide
example : ensureUniqueSnake "a".toList ["a".toList, "a_2".toList] = some "a_3".toList := by decide

-- each exceptional class of `field_legal_char` / `type_legal_char` is inhabited (the judge says: illegal)
-- (`crate` / `super` were such a class, F09-1, until the `fix:` commit: now `crate_` / `super_`, like `self_`)
example : toRustFieldName F idTr "crate".toList = "crate_".toList ∧
    legal .field (toRustFieldName F idTr "crate".toList) = true := by decide
example : toRustFieldName F idTr "Super".toList = "super_".toList ∧
    legal .field (toRustFieldName F idTr "Super".toList) = true := by decide
example : legal .field "r#crate".toList = false ∧ legal .field "r#super".toList = false := by decide
example : toRustFieldName F idTr "_".toList = ['_'] ∧
    legal .field (toRustFieldName F idTr "_".toList) = false := by decide
example : rawPassthrough "r#1".toList = true ∧ toRustFieldName F idTr "r#1".toList = "r#1".toList ∧
    legal .field (toRustFieldName F idTr "r#1".toList) = false := by decide
example : rawPassthrough "r#crate".toList = true ∧
    legal .field (toRustFieldName F idTr "r#crate".toList) = false := by decide
example : toRustTypeName P idTr "self".toList = "r#Self".toList ∧
    legal .type (toRustTypeName P idTr "self".toList) = false := by decide

-- the judge is not trivially true
example : legal .field "fn".toList = false := by decide
example : legal .type "Vec".toList = false := by decide
example : legal .field "a-b".toList = false := by decide
example : legal .field "r#fn".toList = true := by decide

/-! ### identifiers derived from operations (`<Base>Request[Params]`, `<Base>Response[Enum]`) next to the
component schemas of the same document -/
section OpNames
open Oas3.Registry

/-- last character of a non-empty suffix survives appending in front -/
theorem getLast?_append_ne (x y : List Char) (h : y ≠ []) : (x ++ y).getLast? = y.getLast? := by
  induction x with
  | nil => rfl
  | cons a t ih =>
    cases hty : t ++ y with
    | nil => cases t <;> simp_all
    | cons b r =>
      have : (a :: t ++ y) = a :: b :: r := by simp [hty]
      rw [this, List.getLast?_cons_cons, ← hty, ih]

theorem requestName_last (t : List (List Char)) (id : Id) :
    (requestName t id).getLast? = some 't' ∨ (requestName t id).getLast? = some 's' := by
  unfold requestName
  simp only []
  split
  · right; rw [getLast?_append_ne _ _ (by decide)]; rfl
  · left; rw [getLast?_append_ne _ _ (by decide)]; rfl

theorem responseRaw_last (t : List (List Char)) (id : Id) :
    (responseRaw t id).getLast? = some 'e' ∨ (responseRaw t id).getLast? = some 'm' := by
  unfold responseRaw
  simp only []
  split
  · right; rw [getLast?_append_ne _ _ (by decide)]; rfl
  · left; rw [getLast?_append_ne _ _ (by decide)]; rfl

/-- a request struct and a response enum (before its final conversion) never get the same text -/
theorem request_ne_responseRaw (t t' : List (List Char)) (a b : Id) : requestName t a ≠ responseRaw t' b := by
  intro h
  have h1 := requestName_last t a
  have h2 := responseRaw_last t' b
  rw [h] at h1
  rcases h1 with h1 | h1 <;> rcases h2 with h2 | h2 <;> rw [h1] at h2 <;> exact absurd h2 (by decide)

/-- distinct type bases give distinct request structs -/
theorem requestName_inj (t : List (List Char)) (a b : Id) (h : requestName t a = requestName t b) : typeName a = typeName b := by
  unfold requestName at h
  simp only [] at h
  split at h <;> split at h
  · exact (List.append_left_inj _).1 ((List.append_left_inj _).1 h)
  · have := congrArg List.getLast? h
    rw [getLast?_append_ne _ _ (by decide), getLast?_append_ne _ _ (by decide)] at this
    exact absurd this (by decide)
  · have := congrArg List.getLast? h
    rw [getLast?_append_ne _ _ (by decide), getLast?_append_ne _ _ (by decide)] at this
    exact absurd this (by decide)
  · exact (List.append_left_inj _).1 h

/-- the request struct stays outside the reserved names unless BOTH candidates are reserved (or the first
candidate is not a fixed point of `to_rust_type_name`) -/
theorem requestName_fresh (t : List (List Char)) (id : Id)
    (hfix : typeName (typeName id ++ sfxRequest) = typeName id ++ sfxRequest)
    (hfree : ¬ (typeName id ++ sfxRequest ∈ t ∧ typeName id ++ sfxRequest ++ sfxParams ∈ t)) :
    requestName t id ∉ t := by
  unfold requestName
  simp only []
  rw [hfix]
  split
  · rename_i hc
    intro hm
    exact hfree ⟨by simpa using hc, hm⟩
  · rename_i hc
    simpa using hc

def petKeys : List (List Char) := ["Pet".toList, "create_pet_response".toList]
def okIds : List Id := ["create_pet".toList, "list_pets".toList]

/-- non-vacuity: with the schemas `Pet`, `create_pet_response` the two operations get four distinct, legal
identifiers, none of them the Rust name of a schema (`CreatePetResponse` is avoided) -/
theorem ex_opTypeNames :
    opTypeNames (reserved petKeys) okIds =
      ["CreatePetRequest".toList, "CreatePetResponseEnum".toList, "ListPetsRequest".toList, "ListPetsResponse".toList] := by decide +kernel

theorem ex_opTypeNames_ok :
    (opTypeNames (reserved petKeys) okIds).all (fun n => legal .type n && !(petKeys.map typeName).contains n) = true ∧
    contested petKeys okIds = [] := by decide +kernel

/-- WITNESS of the collision that remains: when the fallback name is a schema's Rust name too, the operation's
request struct and the schema `create_pet_request_params` claim one identifier -/
theorem cex_fallback_taken :
    contested ["CreatePetRequest".toList, "create_pet_request_params".toList] ["create_pet".toList] = ["CreatePetRequestParams".toList] := by decide +kernel

/-- WITNESS: stable ids that differ (`create_pet_2`, `create_pet2`) with one type base -/
theorem cex_base_merge :
    "create_pet_2".toList ≠ "create_pet2".toList ∧ typeName "create_pet_2".toList = typeName "create_pet2".toList ∧
    contested [] ["create_pet_2".toList, "create_pet2".toList] = ["CreatePet2Request".toList, "CreatePet2Response".toList] := by decide +kernel
end OpNames

/-! ## names pre-computed by the whole-spec scan (`naming/name_index.rs`, model `Model/NameIndex.lean`)

Every inline schema / enum value set that needs a type of its own gets its name BEFORE conversion starts:
`compute_best_name` over the candidates `<Parent><Property>` collected from all its occurrences, keys walked in map order
over one `used` set that starts as the Rust names of the component schemas. -/
section NameIndex
open Oas3.NameIndex

/-- `longest_common_suffix` is a common suffix of all candidates, and the longest one -/
theorem lcs_is_suffix (l : List Name) : ∀ s ∈ l, longestCommonSuffix l <:+ s := Oas3.NameIndex.lcs_is_suffix l
theorem lcs_greatest (f : Name) (rest : List Name) (q : Name) (hq : ∀ s ∈ f :: rest, q <:+ s) :
    q <:+ longestCommonSuffix (f :: rest) := Oas3.NameIndex.lcs_greatest f rest q hq

/-- a key without a component-schema candidate gets a name that is in use nowhere — for every candidate set, every
`used` set, every table of forbidden words and every notion of upper case; the loop inside always ends -/
theorem precomputed_name_fresh (forbidden : List Name) (isUpper : Char → Bool) (cs : List (Name × Bool)) (used : List Name) (n : Name)
    (hs : fromSchema cs = false) (hne : cs ≠ []) (h : computeBestName forbidden isUpper cs used = some n) : n ∉ used :=
  best_name_fresh forbidden isUpper cs used n hs hne h

theorem precomputed_name_total (forbidden : List Name) (isUpper : Char → Bool) (cs : List (Name × Bool)) (used : List Name) :
    (computeBestName forbidden isUpper cs used).isSome = true := best_name_total forbidden isUpper cs used

/-- the whole walk (any number of keys): it ends, answers every key, and the names of INLINE types (no component-schema
candidate) are pairwise distinct and distinct from every name in use before — in particular from the Rust names of all
component schemas, with which `used` starts -/
theorem precomputed_names_collision_free {K} (forbidden : List Name) (isUpper : Char → Bool) (l : List (K × List (Name × Bool)))
    (used : List Name) (hall : ∀ p ∈ l, fromSchema p.2 = false ∧ p.2 ≠ []) :
    ∃ out u', resolveNames forbidden isUpper l used = some (out, u') ∧ out.map (·.1) = l.map (·.1) ∧
      (out.map (·.2)).Nodup ∧ ∀ n ∈ out.map (·.2), n ∉ used := by
  have ht := resolve_total forbidden isUpper l used
  cases hr : resolveNames forbidden isUpper l used with
  | none => simp [hr] at ht
  | some q =>
    obtain ⟨out, u'⟩ := q
    have hc := resolve_freshChain forbidden isUpper l used out u' hr
    exact ⟨out, u', rfl, freshChain_keys used l out hc, freshChain_nodup used l out hc hall⟩

/-- a key WITH a component-schema candidate takes that name over unchecked (first such candidate in set order) -/
theorem precomputed_name_from_schema (forbidden : List Name) (isUpper : Char → Bool) (cs : List (Name × Bool)) (used : List Name)
    (c : Name × Bool) (hc : cs.find? (fun c => c.2) = some c) : computeBestName forbidden isUpper cs used = some c.1 :=
  best_name_from_schema forbidden isUpper cs used c hc

private def nm (s : String) : Name := s.toList
private def up (c : Char) : Bool := c.isUpper

/-- non-vacuity: `Job.run_state` and `JobRun.state` both want `JobRunState`; `Org.settings` / `User.settings` share the
suffix `Settings`; `ProjectSettings` / `TenantSettings` share `tSettings`, which does not start upper-case, so the first wins -/
example : resolveNames Oas3.Gen.forbidden up
    [(1, [(nm "JobRunState", false)]), (2, [(nm "JobRunState", false)]), (3, [(nm "OrgSettings", false), (nm "UserSettings", false)]), (4, [(nm "ProjectSettings", false), (nm "TenantSettings", false)])] [nm "Job", nm "JobRun"]
    = some ([(1, nm "JobRunState"), (2, nm "JobRunState2"), (3, nm "Settings"), (4, nm "ProjectSettings")],
        [nm "ProjectSettings", nm "Settings", nm "JobRunState2", nm "JobRunState", nm "Job", nm "JobRun"]) := by
  decide +kernel

/-- the ORDER of the walk decides who keeps the plain name: the keys must be visited in an order that does not depend on
the process (they are: `BTreeMap`; the seeded change C11/m11 made it a `HashMap`) -/
theorem cex_walk_order_decides :
    (resolveNames Oas3.Gen.forbidden up [(1, [(nm "JobRunState", false)]), (2, [(nm "JobRunState", false)])] []).map (·.1) ≠
    ((resolveNames Oas3.Gen.forbidden up [(2, [(nm "JobRunState", false)]), (1, [(nm "JobRunState", false)])] []).map (·.1)).map
      (fun o => o.reverse) := by decide +kernel

/-- a short or reserved common suffix is not used: the first candidate is -/
example : computeBestName Oas3.Gen.forbidden up [(nm "AType", false), (nm "BType", false)] [] = some (nm "AType") ∧
    computeBestName Oas3.Gen.forbidden up [(nm "AbId", false), (nm "CdId", false)] [] = some (nm "AbId") ∧
    computeBestName Oas3.Gen.forbidden up [(nm "Xstatus", false), (nm "Ystatus", false)] [] = some (nm "Xstatus") := by decide +kernel

/-- no candidates at all: the fixed name `UnknownType`, NOT checked against the names in use (unreachable from the scan:
a key is only created together with a candidate) -/
theorem cex_unknown_type_unchecked : computeBestName Oas3.Gen.forbidden up [] [nm "UnknownType"] = some (nm "UnknownType") := by
  decide +kernel
end NameIndex

end Oas3.Props.C09
