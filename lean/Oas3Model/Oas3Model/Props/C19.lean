import Oas3Model.Model.Fmt
import Oas3Model.Proofs.Fmt
import Oas3Model.Props.C03
import Oas3Model.Gen.PanicSites
import Oas3Model.Model.Lexical
import Oas3Model.Proofs.Lexical
namespace Oas3.Props.C19
open Oas3.Fmt

/-- a brace-free literal used as a format string prints exactly itself -/
theorem fmt_nobrace (s : List Char) (h : noBrace s = true) : fmtRender s = some s := by
  induction s with
  | nil => rfl
  | cons c r ih =>
    simp [noBrace] at h
    obtain ⟨⟨h1, h2⟩, hr⟩ := h
    have ih' := ih (by simpa [noBrace] using hr)
    unfold fmtRender
    split <;> simp_all

/-- the escaping applied by `DisplayImplArmFragment` (since the `fix:` commit for F19-1): EVERY enum value, braces
or not, survives as the format string of `write!` and prints exactly itself -/
theorem fmt_escape (s : List Char) : fmtRender (escapeBraces s) = some s := Oas3.Fmt.fmt_escape s

/-- escaping is necessary, not only sufficient: a text used RAW as a format string prints itself iff it has no brace -/
theorem fmt_raw_iff (s : List Char) : fmtRender s = some s ↔ noBrace s = true :=
  ⟨Oas3.Fmt.fmt_raw_noBrace s, fmt_nobrace s⟩

/-- what the unescaped form did (finding F19-1, fixed): `write!(f, "a{b}")` does not compile; `"{{x}}"` prints `{x}` -/
theorem cex_display_braces : fmtRender "a{b}".toList = none ∧ fmtRender "{{x}}".toList = some "{x}".toList := by decide

/-- the `format!` template of a mixed path segment (built from spec text) is brace-safe: proved in C03 -/
theorem path_format_safe (decl : List (List Char × List Char)) (s : List Char) (ps : List Oas3.Path.Part) :
    Oas3.Path.tokenize s = .ok ps → Oas3.Path.formatSafe (Oas3.Path.formatOf ps) = true ∧ Oas3.Path.countPlaceholders (Oas3.Path.formatOf ps) = (Oas3.Path.paramsOf decl ps).length :=
  Oas3.Props.C03.format_safe decl s ps

/-- every place that turns a composed string into tokens is in the reviewed site table of C12 -/
def tokenSites : List (List Char × List Char × List Char × Nat) :=
  Oas3.Gen.PanicSites.sites.filter fun s => ["parse-tokens", "syn::parse_str", "syn::parse2", "format_ident!", "Ident::new"].map String.toList |>.contains s.2.2.1

theorem token_sites_nonempty : tokenSites.length > 10 := by decide +kernel

/-! ## the carriers: string literals and doc comments (Model/Lexical.lean)

`Model/Lexical.lean` states which functions are oas3-gen code (compared with the real ones by the K tie `lex.*`) and
which are stated semantics of proc_macro2 / prettyplease / the Rust lexer (compared by the same tie, not verified). -/
open Oas3.Lex

/-- `escape_string_literal` (five `str::replace` calls in a row) is a one-pass, character-by-character escaping: the
later replacements never touch what the earlier ones produced -/
theorem escape_string_literal_one_pass (s : List Char) : escapeStringLiteral s = s.flatMap escOne :=
  escape_one_pass s

/-- EVERY text, put between quotes by the generator's own escaper, is exactly one string literal whose value is the
text, byte for byte, and the literal ends at its own closing quote whatever follows (`rest`): no quote, backslash,
line break or control character in the text can end it early or splice code in -/
theorem escaped_text_is_one_literal (s rest : List Char) :
    lexStr ('"' :: (escapeStringLiteral s ++ '"' :: rest)) = some (s, rest) := by
  rw [escape_one_pass]
  simpa [lexStr] using lex_flatMap_escOne s [] rest

/-- the same for `proc_macro2::Literal::string` (every `quote! { #text }` of the generator: defaults, enum values, regex
patterns, header names, server URL, `#[doc = …]` values), for EVERY text and every classification `pr` of the
characters `char::escape_debug` prints as themselves -/
theorem literal_roundtrip (pr : Char → Bool) (s rest : List Char) :
    lexStr (strLit pr s ++ rest) = some (s, rest) := by
  unfold strLit
  simpa [lexStr] using lex_litBody pr s [] rest

/-- `\u{…}` of any character's code point is read back as that character (≤ 6 digits, valid scalar value) -/
theorem unicode_escape_roundtrip (c : Char) (acc t : List Char) :
    lexS .norm acc ('\\' :: 'u' :: '{' :: (hex c.toNat ++ '}' :: t)) = lexS .norm (c :: acc) t :=
  lex_unicode_escape c acc t

/-- no line of `Documentation::from_optional` contains a line feed -/
theorem doc_lines_no_newline (d : List Char) : ∀ l ∈ docLinesOf d, '\n' ∉ l := lines_no_nl _

/-- the doc attribute values `Documentation::to_tokens` emits (since the `fix:` commit for F19-4) contain neither a line
feed nor a carriage return and start with a blank, whatever the description contains -/
theorem doc_attrs_clean (d : List Char) :
    ∀ a ∈ docAttrs (docLinesOf d), '\n' ∉ a ∧ '\r' ∉ a ∧ a.head? = some ' ' := by
  intro a ha
  simp only [docAttrs, List.mem_map, List.mem_flatMap] at ha
  obtain ⟨p, ⟨l, hl, hp⟩, rfl⟩ := ha
  have h1 : '\n' ∉ p := splitCr_sub '\n' l (doc_lines_no_newline d l hl) p hp
  have h2 : '\r' ∉ p := splitCr_no_cr l p hp
  refine ⟨?_, ?_, rfl⟩
  · intro hm
    rcases List.mem_cons.mp hm with h | h
    · exact absurd h (by decide)
    · exact h1 h
  · intro hm
    rcases List.mem_cons.mp hm with h | h
    · exact absurd h (by decide)
    · exact h2 h

/-- hence prettyplease prints each of them as ONE `///` line comment, and the Rust lexer reads that comment back as
exactly the printed text and resumes right after the line end: a description cannot leave its comment -/
theorem doc_comment_roundtrip (d : List Char) :
    ∀ a ∈ docAttrs (docLinesOf d), ppDocLine a = some (trimTrailingSpaces a) ∧
      ∀ rest, lexDocLine (trimTrailingSpaces a ++ '\n' :: rest) = some (trimTrailingSpaces a, rest) := by
  intro a ha
  obtain ⟨hn, hc, hh⟩ := doc_attrs_clean d a ha
  constructor
  · unfold ppDocLine
    have : a.contains '\n' = false := by simpa using hn
    simp only [this]
    cases a with
    | nil => simp at hh
    | cons x y => simp at hh; subst hh; simp
  · intro rest
    exact lexDocLine_clean _ rest (trimTrailingSpaces_sub _ _ hn) (trimTrailingSpaces_sub _ _ hc)

/-- recoverability of doc text, for EVERY description: the non-empty doc lines are exactly the non-empty pieces of the
description (after the documented `\n` → line feed replacement) between its line breaks, in order — nothing is lost,
merged, duplicated or reordered -/
theorem doc_segments (d : List Char) :
    (((docAttrs (docLinesOf d)).map List.tail).filter Oas3.Lex.ne) = segments (unescapeNl d) := by
  have : (docAttrs (docLinesOf d)).map List.tail = (docLinesOf d).flatMap splitCr := by
    simp [docAttrs, List.map_map, Function.comp_def]
  rw [this]
  simpa [docLinesOf, lines, segments] using filter_lines_split [] (unescapeNl d) (by simp)

/-- … and for a description without carriage returns the doc lines, each followed by a line feed, ARE the text (plus
the line feed of an unfinished last line), empty lines included -/
theorem doc_lines_exact (d : List Char) (h : '\r' ∉ unescapeNl d) :
    unlines ((docAttrs (docLinesOf d)).map List.tail) = unescapeNl d ++ (if openEnd false (unescapeNl d) then ['\n'] else []) := by
  have e : (docAttrs (docLinesOf d)).map List.tail = docLinesOf d := by
    simp only [docAttrs, List.map_map, Function.comp_def, List.tail_cons, List.map_id']
    exact flatMap_splitCr_clean _ (lines_sub '\r' _ h)
  rw [e]
  simpa [docLinesOf, lines] using unlines_linesAux [] (unescapeNl d) (by simp) h

/-- splitting a line at its carriage returns loses nothing: joined with carriage returns the parts are the line -/
theorem split_cr_lossless (l : List Char) : joinCr (splitCr l) = l := joinCr_splitCr l

/-- why the split is there (finding F19-4, fixed): a `///` comment with a carriage return inside is rejected by rustc -/
theorem bare_cr_in_doc_comment_rejected (a b rest : List Char) (hn : '\n' ∉ a) (hc : '\r' ∉ a) (hb : b ≠ []) (hbn : '\n' ∉ b) :
    lexDocLine (a ++ '\r' :: (b ++ '\n' :: rest)) = none := lexDocLine_bare_cr a b rest hn hc hb hbn

theorem cex_bare_cr : lexDocLine " a\rb end\nstruct X;".toList = none ∧
    (docAttrs (docLinesOf "a\rb end".toList)) = [" a".toList, " b end".toList] := by decide +kernel

/-- operation docs (`Documentation::documentation()`): no summary or description line carries a line feed, for every
notion `ws` of white space -/
theorem op_doc_lines_no_newline (ws : Char → Bool) (s d : Option (List Char)) :
    ∀ l ∈ opDocLines ws s d none, '\n' ∉ l := by
  intro l hl
  have trim_sub : ∀ x : List Char, '\n' ∉ x → '\n' ∉ trimWs ws x := by
    intro x hx hm
    unfold trimWs at hm
    have h1 := List.mem_reverse.mp hm
    have h2 := (List.dropWhile_sublist ws).subset h1
    have h3 := List.mem_reverse.mp h2
    exact hx ((List.dropWhile_sublist ws).subset h3)
  simp only [opDocLines, List.append_nil, List.mem_append] at hl
  rcases hl with (hl | hl) | hl
  · cases s with
    | none => simp at hl
    | some s' =>
      simp only [List.mem_map, List.mem_filter] at hl
      obtain ⟨x, ⟨hx, _⟩, rfl⟩ := hl
      exact trim_sub x (lines_no_nl s' x hx)
  · cases d with
    | none => simp at hl
    | some d' =>
      simp only [List.mem_append, List.mem_map] at hl
      rcases hl with hl | ⟨x, hx, rfl⟩
      · split at hl <;> simp at hl; subst hl; simp
      · exact trim_sub x (lines_no_nl d' x hx)
  · split at hl <;> simp at hl; subst hl; simp

/-- non-vacuity: a description with quotes, a comment terminator, `\n` escapes, CRLF and a lone CR -/
example : docAttrs (docLinesOf "q\"uote */ x\\ny\r\nz\rw".toList) = [" q\"uote */ x".toList, " y".toList, " z".toList, " w".toList] := by
  decide +kernel

example : lexStr (strLit (fun c => c.toNat ≥ 32 && c.toNat < 127) "a\"b\\c\nd\x00".toList ++ "7; evil()".toList) = some ("a\"b\\c\nd\x00".toList, "7; evil()".toList) := by
  decide +kernel

example : strLit (fun c => c.toNat ≥ 32 && c.toNat < 127) "\x007é".toList = "\"\\x007\\u{e9}\"".toList := by decide +kernel

end Oas3.Props.C19
