import Oas3Model.Model.Fmt
import Oas3Model.Proofs.Fmt
import Oas3Model.Props.C03
import Oas3Model.Gen.PanicSites
namespace Oas3.Props.C19
open Oas3.Fmt

/-- a brace-free literal used as a format string prints exactly itself -/
theorem fmt_nobrace (s : List Char) (h : noBrace s = true) : fmtRender s = some s := by
  induction s with
  | nil => rfl
  | cons c r ih =>
    simp [noBrace] at h
    obtain ⟨⟨h1, h2⟩, hr⟩ := h
    have ih' := ih (by simpa [noBrace] using hr)
    unfold fmtRender
    split <;> simp_all

/-- the escaping applied by `DisplayImplArmFragment` (since the `fix:` commit for F19-1): EVERY enum value, braces
or not, survives as the format string of `write!` and prints exactly itself -/
theorem fmt_escape (s : List Char) : fmtRender (escapeBraces s) = some s := Oas3.Fmt.fmt_escape s

/-- escaping is necessary, not only sufficient: a text used RAW as a format string prints itself iff it has no brace -/
theorem fmt_raw_iff (s : List Char) : fmtRender s = some s ↔ noBrace s = true :=
  ⟨Oas3.Fmt.fmt_raw_noBrace s, fmt_nobrace s⟩

/-- what the unescaped form did (finding F19-1, fixed): `write!(f, "a{b}")` does not compile; `"{{x}}"` prints `{x}` -/
theorem cex_display_braces : fmtRender "a{b}".toList = none ∧ fmtRender "{{x}}".toList = some "{x}".toList := by decide

/-- the `format!` template of a mixed path segment (built from spec text) is brace-safe: proved in C03 -/
theorem path_format_safe (decl : List (List Char × List Char)) (s : List Char) (ps : List Oas3.Path.Part) :
    Oas3.Path.tokenize s = .ok ps → Oas3.Path.formatSafe (Oas3.Path.formatOf ps) = true ∧ Oas3.Path.countPlaceholders (Oas3.Path.formatOf ps) = (Oas3.Path.paramsOf decl ps).length :=
  Oas3.Props.C03.format_safe decl s ps

/-- every place that turns a composed string into tokens is in the reviewed site table of C12 -/
def tokenSites : List (List Char × List Char × List Char × Nat) :=
  Oas3.Gen.PanicSites.sites.filter fun s => ["parse-tokens", "syn::parse_str", "syn::parse2", "format_ident!", "Ident::new"].map String.toList |>.contains s.2.2.1

theorem token_sites_nonempty : tokenSites.length > 10 := by decide +kernel

end Oas3.Props.C19
