/-
Property C15 — enum modes keep their documented accept/emit contracts.

`J nm mode shape values cands e` is the statement evaluated (through the trusted serde semantics of
`Sem/SerdeEnum`) on what is EMITTED for the value list; `F` is the model of the generator.  All theorems
hold for EVERY naming function `nm` (the real one is `to_rust_type_name`, property C09), for value lists
of any length and content, with JSON `null`s anywhere in the list, and for every candidate list `cands`.
-/
import Oas3Model.Proofs.Enum
import Oas3Model.Gen.Naming
namespace Oas3.Props.C15
open Oas3.Enum

/-! ### the flag table (regenerated from `EnumPolicies::from`, `convert_value_enum`, `create_known_enum`) -/

theorem policies_table :
    policies .merge = ⟨false, false⟩ ∧ policies .preserve = ⟨true, false⟩ ∧ policies .relaxed = ⟨false, true⟩ := by
  decide

theorem strategy_table :
    (∀ sh, sh ≠ .open → strategyOf .merge sh = .dedup ∧ strategyOf .relaxed sh = .dedup) ∧
    (∀ sh, strategyOf .preserve sh = .preserve) ∧ (∀ m, strategyOf m .open = .preserve) := by
  refine ⟨fun sh h => ?_, fun sh => ?_, fun m => ?_⟩
  · cases sh <;> first | exact absurd rfl h | decide
  · cases sh <;> decide
  · cases m <;> decide

/-- `F` either produces nothing (exactly on the two failure classes) or emits the variants of the fold,
the decoder of the case policy, and the wrapper of the shape. -/
theorem F_cases (nm : Str → Str) (m : Mode) (sh : Shape) (es : List (Option Str)) :
    (F nm m sh es = none ∧ GenFails nm m sh es = true) ∨
    (F nm m sh es = some ⟨build (strategyOf m sh) nm es, emitDe (policies m).ci (build (strategyOf m sh) nm es), sh == .open⟩ ∧
      GenFails nm m sh es = false) := by
  unfold F GenFails KnownSelfVariantPanics KnownOpenHelperKeyword
  cases h : (selfPanics nm (strategyOf m sh) es || helperKeyword nm sh es) <;> simp

/-- the helper-constructor failure needs the open-string shape -/
theorem helperKeyword_closed (nm : Str → Str) (m : Mode) (sh : Shape) (hsh : sh ≠ .open) (es : List (Option Str)) :
    KnownOpenHelperKeyword nm m sh es = false := by
  cases sh <;> first | exact absurd rfl hsh | simp [KnownOpenHelperKeyword, helperKeyword]

/-! ### soundness of the judge's "rejects everything undeclared" clause w.r.t. `Sem` (any emitted enum) -/

theorem acceptsOnlyDeclared_sound (values : List Str) (e : Emitted) (h : acceptsOnlyDeclared values e = true) (s : Str) :
    (e.de = .derive → s ∉ values → decode e s = none) ∧
    (∀ arms fb, e.de = .custom true arms fb → (∀ v ∈ values, lowerS v ≠ lowerS s) → decode e s = none) ∧
    (∀ arms fb, e.de = .custom false arms fb → s ∉ values → decode e s = none) := by
  refine ⟨fun hd hs => ?_, fun arms fb hd hs => ?_, fun arms fb hd hs => ?_⟩
  · simp only [acceptsOnlyDeclared, hd, List.all_eq_true, Bool.and_eq_true] at h
    simp only [decode, hd]
    cases hf : decodeStrict e.variants s with
    | none => rfl
    | some y =>
      obtain ⟨hy, hh⟩ := decodeStrict_mem hf
      have := h y hy
      rcases (holds_iff y s).1 hh with e1 | e1
      · exact absurd (by simpa [e1] using this.1) hs
      · exact absurd (by simpa using this.2 s e1) hs
  · simp only [acceptsOnlyDeclared, hd, Bool.and_eq_true, List.all_eq_true, if_true] at h
    have hfb : fb = none := by cases fb <;> simp_all
    simp only [decode, hd, decodeCustom, if_true]
    cases hf : arms.find? (·.key == lowerS s) with
    | none => simp [hfb]
    | some a =>
      have ha := List.mem_of_find?_eq_some hf
      have hk : a.key = lowerS s := by simpa using List.find?_some hf
      have := h.2 a ha
      simp only [List.any_eq_true] at this
      obtain ⟨v, hv, hvk⟩ := this
      exact absurd (by simpa [hk] using hvk) (hs v hv)
  · simp only [acceptsOnlyDeclared, hd, Bool.and_eq_true, List.all_eq_true] at h
    have hfb : fb = none := by cases fb <;> simp_all
    simp only [decode, hd, decodeCustom]
    cases hf : arms.find? (·.key == (if false = true then lowerS s else s)) with
    | none => simp [hfb]
    | some a =>
      have ha := List.mem_of_find?_eq_some hf
      have hk : a.key = s := by simpa using List.find?_some hf
      have := h.2 a ha
      exact absurd (by simpa [hk] using this) hs

/-- open-string alternative: whatever the known-values enum rejects is kept verbatim; without the
alternative it is rejected. -/
theorem wire_of_rejected (e : Emitted) (s : Str) (h : decode e s = none) :
    (e.wrapped = true → decodeWire e s = .other s ∧ encodeWire (decodeWire e s) = some s) ∧
    (e.wrapped = false → decodeWire e s = .reject) := by
  constructor <;> intro hw <;> simp [decodeWire, encodeWire, h, hw]

/-- … and what it accepts is `Known`. -/
theorem wire_of_accepted (e : Emitted) (s : Str) (x : Variant) (h : decode e s = some x) :
    decodeWire e s = .known x ∧ encodeWire (decodeWire e s) = some x.rename := by
  simp [decodeWire, encodeWire, encode, h]

/-! ### merge -/

theorem merge_core (nm : Str → Str) (es : List (Option Str)) (w : Bool) :
    let e : Emitted := ⟨build .dedup nm es, .derive, w⟩
    namesDistinct e = true ∧ Jmerge nm (strs es) e = true ∧ acceptsOnlyDeclared (strs es) e = true := by
  intro e
  obtain ⟨h1, _, h3, h4⟩ := dedup_contract nm es
  refine ⟨by simpa [namesDistinct, e] using h4, ?_, ?_⟩
  · simp only [Jmerge, mergeOk, List.all_eq_true]
    intro v hv
    obtain ⟨y, _, hd, hn, hf⟩ := h1 v hv
    simp only [decode, e, hd, encode, hf, beq_self_eq_true, Bool.true_and, List.all_eq_true]
    intro w' hw'
    obtain ⟨y', _, hd', hn', _⟩ := h1 w' hw'
    by_cases hc : nm w' = nm v
    · simp [hd', hn', hn, hc]
    · simp [hc]
  · simp only [acceptsOnlyDeclared, e, List.all_eq_true, Bool.and_eq_true]
    intro x hx
    exact ⟨by simpa using (h3 x hx).1, fun a ha => by simpa using (h3 x hx).2 a ha⟩

/-- MERGE, closed shapes (plain / nullable), full strength: unless the generator panics on `r#Self`,
every declared value is accepted, colliding values decode to one variant that encodes as the first of
them, nothing undeclared is accepted, and the emitted identifiers are distinct. -/
theorem C15_merge (nm : Str → Str) (sh : Shape) (hsh : sh ≠ .open) (es : List (Option Str)) (cands : List Str) :
    (F nm .merge sh es = none ∧ GenFails nm .merge sh es = true) ∨
    ∃ e, F nm .merge sh es = some e ∧ J nm .merge sh (strs es) cands e = true := by
  rcases F_cases nm .merge sh es with h | ⟨h, _⟩
  · exact Or.inl h
  · refine Or.inr ⟨_, h, ?_⟩
    have hst : strategyOf .merge sh = .dedup := (strategy_table.1 sh hsh).1
    have hci : (policies .merge).ci = false := by decide
    have hw : (sh == Shape.open) = false := by cases sh <;> first | exact absurd rfl hsh | rfl
    obtain ⟨a, b, c⟩ := merge_core nm es false
    simp only [hst, hci, hw, emitDe, J, modeClause, wrapClause, Bool.false_eq_true, if_false, a, b, c,
      Bool.and_self, beq_self_eq_true]

/-! ### preserve -/

theorem preserve_core (nm : Str → Str) (es : List (Option Str)) (w : Bool) :
    let e : Emitted := ⟨build .preserve nm es, .derive, w⟩
    Jpreserve (strs es) e = true ∧ acceptsOnlyDeclared (strs es) e = true ∧
    (preserveClash nm es = false → namesDistinct e = true) := by
  intro e
  obtain ⟨h1, h2, h3⟩ := preserve_contract nm es
  refine ⟨?_, ?_, fun hc => by simpa [namesDistinct, e] using h3.1 hc⟩
  · simp only [Jpreserve, preserveOk, List.all_eq_true]
    intro v hv
    obtain ⟨y, _, hd, hr⟩ := (decodeStrict_rename_only h2 v).1 (by rw [h1]; exact hv)
    simp [decode, e, hd, encode, hr]
  · simp only [acceptsOnlyDeclared, e, List.all_eq_true, Bool.and_eq_true]
    intro x hx
    refine ⟨?_, by simp [h2 x hx]⟩
    have : x.rename ∈ (build .preserve nm es).map (·.rename) := List.mem_map.2 ⟨x, hx, rfl⟩
    rw [h1] at this
    simpa using this

/-- PRESERVE, every shape: every declared value has a variant that encodes back to exactly itself and
nothing undeclared is accepted; the emitted identifiers are distinct unless a suffixed name was taken. -/
theorem C15_preserve_char (nm : Str → Str) (sh : Shape) (es : List (Option Str)) (cands : List Str) :
    (F nm .preserve sh es = none ∧ GenFails nm .preserve sh es = true) ∨
    ∃ e, F nm .preserve sh es = some e ∧
      (J nm .preserve sh (strs es) cands e = true ∨ KnownPreserveSuffixClash nm .preserve sh es = true) := by
  rcases F_cases nm .preserve sh es with h | ⟨h, _⟩
  · exact Or.inl h
  · refine Or.inr ⟨_, h, ?_⟩
    have hst : strategyOf .preserve sh = .preserve := strategy_table.2.1 sh
    have hci : (policies .preserve).ci = false := by decide
    obtain ⟨a, b, c⟩ := preserve_core nm es (sh == .open)
    cases hc : preserveClash nm es with
    | true => exact Or.inr (by simp [KnownPreserveSuffixClash, hst, hc])
    | false =>
      refine Or.inl ?_
      simp only [hst, hci, emitDe, J, modeClause, wrapClause, Bool.false_eq_true, if_false, a, b, c hc,
        Bool.and_self, beq_self_eq_true]

/-- the suffix-clash class is EXACTLY "two emitted variants share an identifier" (so the emitted enum
does not compile and `J` fails): the class is not broader than the defect. -/
theorem preserve_clash_iff (nm : Str → Str) (es : List (Option Str)) :
    preserveClash nm es = true ↔ ¬ ((build .preserve nm es).map (·.name)).Nodup := by
  have h := (preserve_contract nm es).2.2
  constructor
  · intro hc hnd; rw [h.2 hnd] at hc; cases hc
  · intro hnd
    cases hc : preserveClash nm es with
    | true => rfl
    | false => exact absurd (h.1 hc) hnd

/-! ### relaxed -/

theorem relaxed_core (values cands : List Str) (vars : List Variant) (w : Bool)
    (hren : ∀ x ∈ vars, x.rename ∈ values)
    (hfb : fallbackVariant vars = none)
    (hkeys : ∀ v ∈ values, lowerS v ∈ vars.map fun x => lowerS x.rename) :
    let e : Emitted := ⟨vars, emitDe true vars, w⟩
    (∀ v ∈ values, ∀ s, lowerS s = lowerS v → ∃ x, decode e s = some x ∧ encode x ∈ values) ∧
    Jrelaxed values cands e = true ∧ acceptsOnlyDeclared values e = true := by
  intro e
  have hall : ∀ v ∈ values, ∀ s, lowerS s = lowerS v → ∃ x, decode e s = some x ∧ encode x ∈ values := by
    intro v hv s hs
    simp only [decode, e, emitDe, if_true, decodeCustom]
    obtain ⟨x, hx, hxk⟩ := List.mem_map.1 (hkeys v hv)
    cases hf : (vars.map fun x => (⟨lowerS x.rename, x.name⟩ : Arm)).find? (·.key == lowerS s) with
    | none =>
      have := List.find?_eq_none.1 hf ⟨lowerS x.rename, x.name⟩ (List.mem_map.2 ⟨x, hx, rfl⟩)
      simp [hxk, hs] at this
    | some a =>
      obtain ⟨x', hx', rfl⟩ := List.mem_map.1 (List.mem_of_find?_eq_some hf)
      simp only [byName]
      cases hb : vars.find? (·.name == x'.name) with
      | none =>
        have := List.find?_eq_none.1 hb x' hx'
        simp at this
      | some y => exact ⟨y, rfl, hren y (List.mem_of_find?_eq_some hb)⟩
  refine ⟨hall, ?_, ?_⟩
  · simp only [Jrelaxed, relaxedOk, List.all_eq_true, List.mem_filter, and_imp]
    intro v hv s _ hs
    obtain ⟨x, hd, hx⟩ := hall v hv s (by simpa using hs)
    simp [hd, hx]
  · simp only [acceptsOnlyDeclared, e, emitDe, if_true, hfb, Option.isNone_none, Bool.true_and, List.all_eq_true,
      List.mem_map, forall_exists_index, and_imp, List.any_eq_true]
    rintro a x hx rfl
    exact ⟨x.rename, hren x hx, by simp⟩

/-- RELAXED, closed shapes: unless the enum has a variant called `Unknown`/`Other` (then the `_` arm
accepts everything) or a declared value was merged as an alias (aliases are not arms), every declared
value is accepted in EVERY ASCII letter-case and encodes as a declared value, and nothing else is accepted. -/
theorem C15_relaxed_char (nm : Str → Str) (sh : Shape) (hsh : sh ≠ .open) (es : List (Option Str)) (cands : List Str) :
    (F nm .relaxed sh es = none ∧ GenFails nm .relaxed sh es = true) ∨
    ∃ e, F nm .relaxed sh es = some e ∧
      ((J nm .relaxed sh (strs es) cands e = true ∧
          ∀ v ∈ strs es, ∀ s, lowerS s = lowerS v → ∃ x, decode e s = some x ∧ encode x ∈ strs es) ∨
        KnownRelaxedFallbackAcceptsAll nm .relaxed sh es = true ∨
        KnownRelaxedAliasRejected nm .relaxed sh es = true) := by
  rcases F_cases nm .relaxed sh es with h | ⟨h, _⟩
  · exact Or.inl h
  · refine Or.inr ⟨_, h, ?_⟩
    have hst : strategyOf .relaxed sh = .dedup := (strategy_table.1 sh hsh).2
    have hci : (policies .relaxed).ci = true := by decide
    have hw : (sh == Shape.open) = false := by cases sh <;> first | exact absurd rfl hsh | rfl
    obtain ⟨_, _, h3, h4⟩ := dedup_contract nm es
    cases hfb : fallbackVariant (build .dedup nm es) with
    | some f => exact Or.inr (Or.inl (by simp [KnownRelaxedFallbackAcceptsAll, hst, hfb]))
    | none =>
      by_cases hk : ∀ v ∈ strs es, lowerS v ∈ (build .dedup nm es).map fun x => lowerS x.rename
      · obtain ⟨a, b, c⟩ := relaxed_core (strs es) cands (build .dedup nm es) false (fun x hx => (h3 x hx).1) hfb hk
        refine Or.inl ⟨?_, by simpa [hst, hci, hw] using a⟩
        have hnd : namesDistinct ⟨build .dedup nm es, emitDe true (build .dedup nm es), false⟩ = true := by
          simpa [namesDistinct] using h4
        simp only [hst, hci, hw, J, modeClause, wrapClause, hnd, b, c, Bool.and_self, beq_self_eq_true]
      · refine Or.inr (Or.inr ?_)
        simp only [KnownRelaxedAliasRejected, hst, hfb, beq_self_eq_true, Option.isNone_none, Bool.true_and,
          List.any_eq_true, Bool.not_eq_true', List.contains_eq_mem, decide_eq_false_iff_not]
        simpa using hk

/-- RELAXED with an open-string alternative (known values built with `Preserve`): no alias can be lost;
the remaining exceptions are the fallback variant and the suffix clash. -/
theorem C15_relaxed_open_char (nm : Str → Str) (es : List (Option Str)) (cands : List Str) :
    (F nm .relaxed .open es = none ∧ GenFails nm .relaxed .open es = true) ∨
    ∃ e, F nm .relaxed .open es = some e ∧
      (J nm .relaxed .open (strs es) cands e = true ∨
        KnownRelaxedFallbackAcceptsAll nm .relaxed .open es = true ∨
        KnownPreserveSuffixClash nm .relaxed .open es = true) := by
  rcases F_cases nm .relaxed .open es with h | ⟨h, _⟩
  · exact Or.inl h
  · refine Or.inr ⟨_, h, ?_⟩
    have hst : strategyOf .relaxed .open = .preserve := strategy_table.2.2 .relaxed
    have hci : (policies .relaxed).ci = true := by decide
    obtain ⟨h1, _, h3⟩ := preserve_contract nm es
    cases hfb : fallbackVariant (build .preserve nm es) with
    | some f => exact Or.inr (Or.inl (by simp [KnownRelaxedFallbackAcceptsAll, hst, hfb]))
    | none =>
      cases hc : preserveClash nm es with
      | true => exact Or.inr (Or.inr (by simp [KnownPreserveSuffixClash, hst, hc]))
      | false =>
        have hren : ∀ x ∈ build .preserve nm es, x.rename ∈ strs es := by
          intro x hx
          have : x.rename ∈ (build .preserve nm es).map (·.rename) := List.mem_map.2 ⟨x, hx, rfl⟩
          rwa [h1] at this
        have hk : ∀ v ∈ strs es, lowerS v ∈ (build .preserve nm es).map fun x => lowerS x.rename := by
          intro v hv
          rw [← h1] at hv
          obtain ⟨x, hx, rfl⟩ := List.mem_map.1 hv
          exact List.mem_map.2 ⟨x, hx, rfl⟩
        obtain ⟨_, b, c⟩ := relaxed_core (strs es) cands (build .preserve nm es) true hren hfb hk
        have hnd : namesDistinct ⟨build .preserve nm es, emitDe true (build .preserve nm es), true⟩ = true := by
          simpa [namesDistinct] using h3.1 hc
        refine Or.inl ?_
        simp only [hst, hci, J, modeClause, wrapClause, hnd, b, c, Bool.and_self, beq_self_eq_true]

/-! ### merge with an open-string alternative -/

/-- MERGE + open string: the known-values enum ignores the mode (`Preserve` is hard-wired), so the merge
contract holds exactly when no two DIFFERENT declared values collide (and no suffix clash). -/
theorem C15_merge_open_char (nm : Str → Str) (es : List (Option Str)) (cands : List Str) :
    (F nm .merge .open es = none ∧ GenFails nm .merge .open es = true) ∨
    ∃ e, F nm .merge .open es = some e ∧
      (J nm .merge .open (strs es) cands e = true ∨
        KnownPreserveSuffixClash nm .merge .open es = true ∨
        KnownOpenShapePreserves nm .merge .open es = true) := by
  rcases F_cases nm .merge .open es with h | ⟨h, _⟩
  · exact Or.inl h
  · refine Or.inr ⟨_, h, ?_⟩
    have hst : strategyOf .merge .open = .preserve := strategy_table.2.2 .merge
    have hci : (policies .merge).ci = false := by decide
    obtain ⟨a, b, c⟩ := preserve_core nm es true
    obtain ⟨h1, h2, _⟩ := preserve_contract nm es
    cases hc : preserveClash nm es with
    | true => exact Or.inr (Or.inl (by simp [KnownPreserveSuffixClash, hst, hc]))
    | false =>
      by_cases hcol : ∀ v ∈ strs es, ∀ w ∈ strs es, nm v = nm w → v = w
      · refine Or.inl ?_
        have hm : Jmerge nm (strs es) ⟨build .preserve nm es, .derive, true⟩ = true := by
          simp only [Jmerge, mergeOk, List.all_eq_true]
          intro v hv
          obtain ⟨y, _, hd, hr⟩ := (decodeStrict_rename_only h2 v).1 (by rw [h1]; exact hv)
          have hfirst : firstOf nm (strs es) v = some v := by
            unfold firstOf
            cases hf : (strs es).find? (fun w => nm w == nm v) with
            | none =>
              have := List.find?_eq_none.1 hf v hv
              simp at this
            | some w0 =>
              have hw0 := List.mem_of_find?_eq_some hf
              have : nm w0 = nm v := by simpa using List.find?_some hf
              rw [hcol w0 hw0 v hv this]
          simp only [decode, hd, encode, hr, hfirst, beq_self_eq_true, Bool.true_and, List.all_eq_true]
          intro w' hw'
          by_cases hcw : nm w' = nm v
          · have := hcol w' hw' v hv hcw
            subst this
            simp [hd]
          · simp [hcw]
        simp only [hst, hci, emitDe, J, modeClause, wrapClause, Bool.false_eq_true, if_false, hm, b, c hc,
          Bool.and_self, beq_self_eq_true]
      · refine Or.inr (Or.inr ?_)
        simp only [KnownOpenShapePreserves, hst, beq_self_eq_true, Bool.true_and, List.any_eq_true, Bool.and_eq_true,
          bne_iff_ne, ne_eq, beq_iff_eq]
        have : ∃ v ∈ strs es, ∃ w ∈ strs es, nm v = nm w ∧ v ≠ w := by
          simpa [Classical.not_forall] using hcol
        obtain ⟨v, hv, w, hw, hn, hne⟩ := this
        exact ⟨v, hv, w, hw, hne, hn⟩


/-! ### the known classes really are violations (converse directions that are cheap) -/

/-- a fallback variant makes the emitted decoder accept EVERY string (on any emitted enum whose
hand-written decoder has a `_ => Ok(E::f)` arm for an existing variant `f`) -/
theorem fallback_accepts_all (vars : List Variant) (arms : List Arm) (f : Str) (w : Bool) (hf : (byName vars f).isSome)
    (harms : ∀ a ∈ arms, (byName vars a.target).isSome) (s : Str) :
    (decode ⟨vars, .custom true arms (some f), w⟩ s).isSome := by
  simp only [decode, decodeCustom, if_true]
  cases h : arms.find? (·.key == lowerS s) with
  | none => simpa using hf
  | some a => simpa using harms a (List.mem_of_find?_eq_some h)

theorem fallback_fails_J (nm : Str → Str) (m : Mode) (sh : Shape) (values cands : List Str) (vars : List Variant)
    (arms : List Arm) (f : Str) (w : Bool) : J nm m sh values cands ⟨vars, .custom true arms (some f), w⟩ = false := by
  simp [J, acceptsOnlyDeclared]

/-! ### concrete witnesses (real naming function, ASCII transliteration = identity) -/

def nmAscii : Str → Str := Oas3.Naming.toRustTypeName Oas3.Gen.prelude (fun c => [c])
def vals (l : List String) : List (Option Str) := l.map fun s => some s.toList

/-- judge exactly as the driver evaluates it -/
def Jd (m : Mode) (sh : Shape) (es : List (Option Str)) : Option Bool :=
  (F nmAscii m sh es).map fun e => J nmAscii m sh (strs es) (candsOf (strs es)) e

/-- #8 of DESIGN §9: preserve mode, `["a","a2","A"]` → two variants `A2`. -/
theorem cex_preserve_suffix_clash :
    Jd .preserve .plain (vals ["a", "a2", "A"]) = some false ∧
    KnownPreserveSuffixClash nmAscii .preserve .plain (vals ["a", "a2", "A"]) = true ∧
    (build .preserve nmAscii (vals ["a", "a2", "A"])).map (·.name) = ["A", "A2", "A2"].map String.toList := by
  decide +kernel

/-- #11: relaxed mode, `foo_bar` merged under `foo-bar` as an alias is not an arm: rejected. -/
theorem cex_relaxed_alias_rejected :
    Jd .relaxed .plain (vals ["foo-bar", "foo_bar"]) = some false ∧
    KnownRelaxedAliasRejected nmAscii .relaxed .plain (vals ["foo-bar", "foo_bar"]) = true ∧
    (F nmAscii .relaxed .plain (vals ["foo-bar", "foo_bar"])).map (fun e => decode e "foo_bar".toList) = some none := by
  decide +kernel

/-- #11: relaxed mode, a value `unknown` makes every string decode to `Unknown`. -/
theorem cex_relaxed_fallback_accepts_all :
    Jd .relaxed .plain (vals ["a", "unknown"]) = some false ∧
    KnownRelaxedFallbackAcceptsAll nmAscii .relaxed .plain (vals ["a", "unknown"]) = true ∧
    (F nmAscii .relaxed .plain (vals ["a", "unknown"])).map (fun e => (decode e "zzz".toList).map encode) =
      some (some "unknown".toList) := by
  decide +kernel

/-- merge mode + open-string alternative: `foo_bar` keeps its own variant and encodes as itself. -/
theorem cex_open_shape_preserves :
    Jd .merge .open (vals ["foo-bar", "foo_bar"]) = some false ∧
    KnownOpenShapePreserves nmAscii .merge .open (vals ["foo-bar", "foo_bar"]) = true ∧
    (F nmAscii .merge .open (vals ["foo-bar", "foo_bar"])).map (fun e => (decode e "foo_bar".toList).map encode) =
      some (some "foo_bar".toList) := by
  decide +kernel

/-- a value `self` normalises to the variant name `r#Self`: the generator panics in every mode. -/
theorem cex_self_variant_panics :
    F nmAscii .merge .plain (vals ["self"]) = none ∧ F nmAscii .preserve .nullable (vals ["a", "Self"]) = none ∧
    KnownSelfVariantPanics nmAscii .relaxed .open (vals ["self"]) = true := by
  decide +kernel

/-- `anyOf[enum[in,out], string]`: the helper constructor would be `pub fn in()`; nothing is generated. -/
theorem cex_open_helper_keyword :
    F nmAscii .merge .open (vals ["in", "out"]) = none ∧ KnownOpenHelperKeyword nmAscii .merge .open (vals ["in", "out"]) = true ∧
    KnownSelfVariantPanics nmAscii .merge .open (vals ["in", "out"]) = false ∧
    (F nmAscii .merge .plain (vals ["in", "out"])).isSome = true := by
  decide +kernel

/-- the suffix index counts `null` entries (`enumerate()` runs before `filter_map`) -/
theorem null_consumes_an_index :
    (build .preserve nmAscii [some "a".toList, none, some "A".toList]).map (·.name) = ["A", "A2"].map String.toList := by
  decide +kernel

/-! ### non-vacuity: the contracts hold, and are not trivial, on colliding inputs -/

example : Jd .merge .plain (vals ["foo-bar", "foo_bar", "a", "A"]) = some true := by decide +kernel
example : Jd .preserve .nullable [some "foo-bar".toList, none, some "foo_bar".toList, some "a".toList, some "A".toList] = some true := by
  decide +kernel
example : Jd .relaxed .plain (vals ["a", "A", "b"]) = some true := by decide +kernel
example : Jd .relaxed .open (vals ["a", "A", "b"]) = some true := by decide +kernel
example : Jd .merge .open (vals ["a", "b"]) = some true := by decide +kernel
example : (F nmAscii .merge .plain (vals ["foo-bar", "foo_bar"])).map (fun e => (decode e "foo_bar".toList).map encode) =
    some (some "foo-bar".toList) := by decide +kernel
example : (F nmAscii .relaxed .plain (vals ["a", "b"])).map (fun e => (decode e "A".toList).map encode) = some (some "a".toList) := by
  decide +kernel
example : (F nmAscii .merge .open (vals ["a"])).map (fun e => encodeWire (decodeWire e "zz".toList)) = some (some "zz".toList) := by
  decide +kernel
/-- the judge is not vacuous: it rejects an emitted enum that drops an alias / adds an undeclared one -/
example : J nmAscii .merge .plain (["a", "A"].map String.toList) [] ⟨[⟨"A".toList, "a".toList, []⟩], .derive, false⟩ = false := by
  decide +kernel
example : J nmAscii .merge .plain (["a"].map String.toList) [] ⟨[⟨"A".toList, "a".toList, ["b".toList]⟩], .derive, false⟩ = false := by
  decide +kernel

end Oas3.Props.C15
