import Oas3Model.Model.Server
import Oas3Model.Props.C04
import Oas3Model.Proofs.Interop
namespace Oas3.Props.C05
open Oas3.Server Oas3.Status

/-- `HttpMethodFragment`'s catch-all `_ => get` arm is reached only by GET: on the eight methods an
OpenAPI path item can carry, the routing function determines the method. -/
theorem method_arms_injective : ∀ a ∈ oasMethods, ∀ b ∈ oasMethods, routerFn a = routerFn b → a = b := by
  decide

/-- …and GET is the only one routed by `get`. -/
theorem get_only_get : ∀ a ∈ oasMethods, routerFn a = "get".toList → a = "GET".toList := by decide

/-- the status sent for a variant declared under an exact token is that token's code (tables regenerated) -/
theorem status_of_exact : ∀ t ∈ Oas3.Gen.Status.tokens, ∀ c, code (.named t) = some c → httpStatus (.named t) = c := by
  decide +kernel

/-- a `3XX` variant is answered with a status of ITS range (300), like the other range tokens (was 500: F05-3, fixed) -/
theorem redirection_in_range : httpStatus (.named "Redirection3XX".toList) = 300 := by decide +kernel

/-- the status sent for a variant declared under ANY named token is acceptable for the key that token is written
as in the spec (`as_str`: exact code, `nXX` range or `default`): with the `3XX` arm in place there is no exception -/
theorem status_ok_every_token : ∀ p ∈ Oas3.Gen.Status.asStrTbl, statusOkFor p.2 (httpStatus (.named p.1)) = true := by
  decide +kernel

/-! ## status of the `IntoResponse` arms, routing -/
open Oas3.Resp Oas3.Path

/-- the property's reference for an exact key: exactly that code -/
theorem statusOkFor_exact {k : List Char} {c : Nat} (h : exactKey k = some c) (n : Nat) :
    statusOkFor k n = (n == c) :=
  Oas3.Proofs.Interop.statusOkFor_exact h n

/-- …for a range key `jXX`: the hundred `j` -/
theorem statusOkFor_range {k : List Char} {j : Nat} (h : rangeKey k = some j) (n : Nat) :
    statusOkFor k n = (decide (j * 100 ≤ n) && decide (n < (j + 1) * 100)) :=
  Oas3.Proofs.Interop.statusOkFor_range h n

/-- …for `default`: any status 100..599 -/
theorem statusOkFor_default (n : Nat) : statusOkFor "default".toList n = (decide (100 ≤ n) && decide (n ≤ 599)) :=
  Oas3.Proofs.Interop.statusOkFor_default n

/-- every `IntoResponse` arm is built from a variant of the response enum: its name, the status
`HttpStatusCode` emits for its token, and `axum::Json` iff the variant carries a payload. -/
theorem arms_spec (rs : List (List Char × List MediaDecl)) :
    ∀ a ∈ armsOf rs, ∃ v ∈ variantsOf rs,
      a.variant = v.name ∧ a.status = httpStatus v.tok ∧ a.json = v.schemaType.isSome :=
  Oas3.Proofs.Interop.arms_spec rs

/-- …and every variant has its arm (same length, same order). -/
theorem arms_complete (rs : List (List Char × List MediaDecl)) :
    (armsOf rs).map (·.variant) = (variantsOf rs).map (·.name) := by
  simp [armsOf, List.map_map, Function.comp_def]

/-- an arm whose variant is declared under an exact table token `t` with code `c` answers with status `c`. -/
theorem arms_exact_status (rs : List (List Char × List MediaDecl)) :
    ∀ v ∈ variantsOf rs, ∀ t ∈ Oas3.Gen.Status.tokens, ∀ c, v.tok = .named t → code (.named t) = some c →
      ∃ a ∈ armsOf rs, a.variant = v.name ∧ a.status = c ∧ a.json = v.schemaType.isSome := by
  intro v hv t ht c hvt hc
  refine ⟨_, Oas3.Proofs.Interop.arms_of_variant rs v hv, rfl, ?_, rfl⟩
  show httpStatus v.tok = c
  rw [hvt]; exact Oas3.Props.C04.exact_status t ht c hc

/-- the status sent for ANY canonical exact key `k` (table token or numeric fallback) is acceptable for `k`. -/
theorem exact_key_status_ok {k : List Char} {c : Nat} (h : exactKey k = some c) :
    httpStatus (fromStr k) = c ∧ statusOkFor k (httpStatus (fromStr k)) = true := by
  have hs := Oas3.Proofs.Interop.httpStatus_of_exactKey h
  exact ⟨hs, by rw [statusOkFor_exact h, hs]; simp⟩

/-- on the eight methods of a path item, different methods get different routing functions
(so two operations on one path never land in the same method router). -/
theorem routerFn_injective : ∀ a ∈ oasMethods, ∀ b ∈ oasMethods, a ≠ b → routerFn a ≠ routerFn b :=
  fun a ha b hb hne e => hne (method_arms_injective a ha b hb e)

/-- route entries are keyed by (pattern shape, routing function): two operations on the same path with
different OpenAPI methods are different entries. -/
theorem route_key_unique (p : Parsed) : ∀ a ∈ oasMethods, ∀ b ∈ oasMethods, a ≠ b →
    (shape (axumPath p), routerFn a) ≠ (shape (axumPath p), routerFn b) := by
  intro a ha b hb hne e
  exact routerFn_injective a ha b hb hne (Prod.mk.inj e).2

/-- the routing functions are the eight axum method routers, each used exactly once -/
theorem routerFn_range : oasMethods.map routerFn =
    ["get", "put", "post", "delete", "options", "head", "patch", "trace"].map String.toList := by decide +kernel

/-- method names are matched case-insensitively (`to_uppercase`) -/
example : routerFn "post".toList = "post".toList ∧ routerFn "Delete".toList = "delete".toList := by decide +kernel

end Oas3.Props.C05
