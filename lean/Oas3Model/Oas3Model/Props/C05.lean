import Oas3Model.Model.Server
namespace Oas3.Props.C05
open Oas3.Server Oas3.Status

/-- `HttpMethodFragment`'s catch-all `_ => get` arm is reached only by GET: on the eight methods an
OpenAPI path item can carry, the routing function determines the method. -/
theorem method_arms_injective : ∀ a ∈ oasMethods, ∀ b ∈ oasMethods, routerFn a = routerFn b → a = b := by
  decide

/-- …and GET is the only one routed by `get`. -/
theorem get_only_get : ∀ a ∈ oasMethods, routerFn a = "get".toList → a = "GET".toList := by decide

/-- the status sent for a variant declared under an exact token is that token's code (tables regenerated) -/
theorem status_of_exact : ∀ t ∈ Oas3.Gen.Status.tokens, ∀ c, code (.named t) = some c → httpStatus (.named t) = c := by
  decide +kernel

/-- known defect, reproduced by the model: a `3XX` variant is answered with 500. -/
theorem cex_redirection_500 : httpStatus (.named "Redirection3XX".toList) = 500 := by decide +kernel

end Oas3.Props.C05
