import Oas3Model.Proofs.Router
import Oas3Model.Props.C03
import Oas3Model.Model.Server
import Oas3Model.Model.ServerParams
import Oas3Model.Props.C04
import Oas3Model.Proofs.Interop
namespace Oas3.Props.C05
open Oas3.Server Oas3.Status

/-- `HttpMethodFragment`'s catch-all `_ => get` arm is reached only by GET: on the eight methods an
OpenAPI path item can carry, the routing function determines the method. -/
theorem method_arms_injective : ∀ a ∈ oasMethods, ∀ b ∈ oasMethods, routerFn a = routerFn b → a = b := by
  decide

/-- …and GET is the only one routed by `get`. -/
theorem get_only_get : ∀ a ∈ oasMethods, routerFn a = "get".toList → a = "GET".toList := by decide

/-- the status sent for a variant declared under an exact token is that token's code (tables regenerated) -/
theorem status_of_exact : ∀ t ∈ Oas3.Gen.Status.tokens, ∀ c, code (.named t) = some c → httpStatus (.named t) = c := by
  decide +kernel

/-- a `3XX` variant is answered with a status of ITS range (300), like the other range tokens (was 500: F05-3, fixed) -/
theorem redirection_in_range : httpStatus (.named "Redirection3XX".toList) = 300 := by decide +kernel

/-- the status sent for a variant declared under ANY named token is acceptable for the key that token is written
as in the spec (`as_str`: exact code, `nXX` range or `default`): with the `3XX` arm in place there is no exception -/
theorem status_ok_every_token : ∀ p ∈ Oas3.Gen.Status.asStrTbl, statusOkFor p.2 (httpStatus (.named p.1)) = true := by
  decide +kernel

/-! ## status of the `IntoResponse` arms, routing -/
open Oas3.Resp Oas3.Path

/-- the property's reference for an exact key: exactly that code -/
theorem statusOkFor_exact {k : List Char} {c : Nat} (h : exactKey k = some c) (n : Nat) :
    statusOkFor k n = (n == c) :=
  Oas3.Proofs.Interop.statusOkFor_exact h n

/-- …for a range key `jXX`: the hundred `j` -/
theorem statusOkFor_range {k : List Char} {j : Nat} (h : rangeKey k = some j) (n : Nat) :
    statusOkFor k n = (decide (j * 100 ≤ n) && decide (n < (j + 1) * 100)) :=
  Oas3.Proofs.Interop.statusOkFor_range h n

/-- …for `default`: any status 100..599 -/
theorem statusOkFor_default (n : Nat) : statusOkFor "default".toList n = (decide (100 ≤ n) && decide (n ≤ 599)) :=
  Oas3.Proofs.Interop.statusOkFor_default n

/-- every `IntoResponse` arm is built from a variant of the response enum: its name, the status
`HttpStatusCode` emits for its token, and `axum::Json` iff the variant carries a payload. -/
theorem arms_spec (rs : List (List Char × List MediaDecl)) :
    ∀ a ∈ armsOf rs, ∃ v ∈ variantsOf rs,
      a.variant = v.name ∧ a.status = httpStatus v.tok ∧ a.json = v.schemaType.isSome :=
  Oas3.Proofs.Interop.arms_spec rs

/-- …and every variant has its arm (same length, same order). -/
theorem arms_complete (rs : List (List Char × List MediaDecl)) :
    (armsOf rs).map (·.variant) = (variantsOf rs).map (·.name) := by
  simp [armsOf, List.map_map, Function.comp_def]

/-- an arm whose variant is declared under an exact table token `t` with code `c` answers with status `c`. -/
theorem arms_exact_status (rs : List (List Char × List MediaDecl)) :
    ∀ v ∈ variantsOf rs, ∀ t ∈ Oas3.Gen.Status.tokens, ∀ c, v.tok = .named t → code (.named t) = some c →
      ∃ a ∈ armsOf rs, a.variant = v.name ∧ a.status = c ∧ a.json = v.schemaType.isSome := by
  intro v hv t ht c hvt hc
  refine ⟨_, Oas3.Proofs.Interop.arms_of_variant rs v hv, rfl, ?_, rfl⟩
  show httpStatus v.tok = c
  rw [hvt]; exact Oas3.Props.C04.exact_status t ht c hc

/-- the status sent for ANY canonical exact key `k` (table token or numeric fallback) is acceptable for `k`. -/
theorem exact_key_status_ok {k : List Char} {c : Nat} (h : exactKey k = some c) :
    httpStatus (fromStr k) = c ∧ statusOkFor k (httpStatus (fromStr k)) = true := by
  have hs := Oas3.Proofs.Interop.httpStatus_of_exactKey h
  exact ⟨hs, by rw [statusOkFor_exact h, hs]; simp⟩

/-- on the eight methods of a path item, different methods get different routing functions
(so two operations on one path never land in the same method router). -/
theorem routerFn_injective : ∀ a ∈ oasMethods, ∀ b ∈ oasMethods, a ≠ b → routerFn a ≠ routerFn b :=
  fun a ha b hb hne e => hne (method_arms_injective a ha b hb e)

/-- route entries are keyed by (pattern shape, routing function): two operations on the same path with
different OpenAPI methods are different entries. -/
theorem route_key_unique (p : Parsed) : ∀ a ∈ oasMethods, ∀ b ∈ oasMethods, a ≠ b →
    (shape (axumPath p), routerFn a) ≠ (shape (axumPath p), routerFn b) := by
  intro a ha b hb hne e
  exact routerFn_injective a ha b hb hne (Prod.mk.inj e).2

/-- the routing functions are the eight axum method routers, each used exactly once -/
theorem routerFn_range : oasMethods.map routerFn =
    ["get", "put", "post", "delete", "options", "head", "patch", "trace"].map String.toList := by decide +kernel

/-- method names are matched case-insensitively (`to_uppercase`) -/
example : routerFn "post".toList = "post".toList ∧ routerFn "Delete".toList = "delete".toList := by decide +kernel

/-! ## what the handler is handed: members of the parameter structs vs. the merged parameter set -/
open Oas3.Client

/-- `collect_parameters`: an operation-level parameter is always part of the merged set … -/
theorem merged_keeps_op_level (ps : List WParam) (p : WParam) (hp : p ∈ ps) (hl : p.pathLevel = false)
    (huniq : ∀ q ∈ ps, q.pathLevel = false → q.loc = p.loc → q.name = p.name → q = p) : p ∈ collectW ps := by
  unfold collectW
  have hop : p ∈ ps.filter (!·.pathLevel) := by simp [List.mem_filter, hp, hl]
  have hu : ∀ q ∈ ps.filter (!·.pathLevel), q.loc = p.loc → q.name = p.name → q = p := by
    intro q hq; simp [List.mem_filter] at hq; exact huniq q hq.1 hq.2
  generalize ps.filter (!·.pathLevel) = ol at hop hu
  generalize ps.filter (·.pathLevel) = acc0
  -- invariant: once `p` has been pushed it stays (a later operation-level parameter with the same key is `p` itself)
  suffices h : ∀ (ol : List WParam) (acc : List WParam), (∀ q ∈ ol, q.loc = p.loc → q.name = p.name → q = p) →
      (p ∈ ol ∨ p ∈ acc) → p ∈ ol.foldl (fun acc p => acc.filter (fun q => q.loc != p.loc || q.name != p.name) ++ [p]) acc from
    h ol acc0 hu (Or.inl hop)
  intro ol
  induction ol with
  | nil =>
    intro acc _ h
    rcases h with h | h
    · cases h
    · simpa using h
  | cons x r ih =>
    intro acc hu h
    simp only [List.foldl_cons]
    apply ih _ (fun q hq => hu q (List.mem_cons_of_mem _ hq))
    by_cases hx : x = p
    · right; subst hx; simp
    · rcases h with h | h
      · rcases List.mem_cons.mp h with h | h
        · exact absurd h.symm hx
        · exact Or.inl h
      · right
        apply List.mem_append_left
        refine List.mem_filter.mpr ⟨h, ?_⟩
        by_cases hk : p.loc = x.loc ∧ p.name = x.name
        · exact absurd (hu x List.mem_cons_self hk.1.symm hk.2.symm) hx
        · by_cases h1 : p.loc = x.loc
          · have h2 : ¬ p.name = x.name := fun e => hk ⟨h1, e⟩
            simp [h2]
          · simp [h1]

/-- … and a path-item parameter that an operation-level parameter overrides is NOT -/
theorem merged_drops_overridden (ps : List WParam) (p0 p1 : WParam) (h1 : p1 ∈ ps) (hl0 : p0.pathLevel = true) (hl1 : p1.pathLevel = false)
    (hk : p0.loc = p1.loc ∧ p0.name = p1.name) : p0 ∉ collectW ps := by
  unfold collectW
  have hop : p1 ∈ ps.filter (!·.pathLevel) := by simp [List.mem_filter, h1, hl1]
  have hne : ∀ q ∈ ps.filter (!·.pathLevel), q ≠ p0 := by
    intro q hq e; subst e; simp [List.mem_filter, hl0] at hq
  generalize ps.filter (!·.pathLevel) = ol at hop hne
  generalize ps.filter (·.pathLevel) = acc0
  -- after `p1` has been processed `p0` is gone, and nothing pushes it back (it is not operation-level)
  suffices h : ∀ (ol : List WParam) (acc : List WParam), (∀ q ∈ ol, q ≠ p0) → (p1 ∈ ol ∨ p0 ∉ acc) →
      p0 ∉ ol.foldl (fun acc p => acc.filter (fun q => q.loc != p.loc || q.name != p.name) ++ [p]) acc from
    h ol acc0 hne (Or.inl hop)
  intro ol
  induction ol with
  | nil =>
    intro acc _ h
    rcases h with h | h
    · cases h
    · simpa using h
  | cons x r ih =>
    intro acc hne h
    simp only [List.foldl_cons]
    apply ih _ (fun q hq => hne q (List.mem_cons_of_mem _ hq))
    have hx0 : x ≠ p0 := hne x List.mem_cons_self
    by_cases hx : x = p1
    · right
      subst hx
      intro hm
      rcases List.mem_append.mp hm with hm | hm
      · have := (List.mem_filter.mp hm).2
        simp [hk.1, hk.2] at this
      · simp at hm; exact hx0 hm.symm
    · rcases h with h | h
      · rcases List.mem_cons.mp h with h | h
        · exact absurd h.symm hx
        · exact Or.inl h
      · right
        intro hm
        rcases List.mem_append.mp hm with hm | hm
        · exact h (List.mem_filter.mp hm).1
        · simp at hm; exact hx0 hm.symm

/-- the judge's clause is what it says: every merged parameter of the location has a member under its key, with
`Option` exactly when it is not required and the declared inner type, and the struct has no further member -/
theorem locOk_sound (merged : List WParam) (loc : Loc) (fields : List SField) (h : locOk merged loc fields = true) :
    (∀ p ∈ merged, p.loc = loc → ∃ f ∈ fields, memberOk p f = true) ∧ fields.length = (merged.filter (·.loc == loc)).length := by
  unfold locOk at h
  simp only [Bool.and_eq_true, List.all_eq_true, beq_iff_eq] at h
  refine ⟨fun p hp hl => ?_, h.2⟩
  have := (h.1 p (List.mem_filter.mpr ⟨hp, by simp [hl]⟩)).2
  simpa [List.any_eq_true] using this

/-- the override decides the member: a path-item `revision: integer` (optional) overridden by the operation's required
`revision: string` must arrive as `String`; the path-item's type is a failure -/
theorem override_decides_member :
    let ps : List WParam := [{ name := "revision".toList, loc := .query, pathLevel := true, item := .integer },
                             { name := "revision".toList, loc := .query, item := .string, required := true }]
    locOk (collectW ps) .query [{ ident := "revision".toList, rename := none, ty := "String".toList }] = true ∧
    locOk (collectW ps) .query [{ ident := "revision".toList, rename := none, ty := "Option<i64>".toList }] = false := by
  decide +kernel

/-- keys: a query member is found under its serde key, a header / path member under its identifier -/
example : memberOk { name := "sort-Order".toList, loc := .query, item := .boolean }
    { ident := "sort_order".toList, rename := some "sort-Order".toList, ty := "Option<bool>".toList } = true ∧
  memberOk { name := "X-Trace".toList, loc := .header, item := .integer, required := true }
    { ident := "x_trace".toList, rename := none, ty := "i64".toList } = true ∧
  memberOk { name := "ids".toList, loc := .query, isArray := true, item := .integer }
    { ident := "ids".toList, rename := none, ty := "Option<Vec<i64>>".toList } = true ∧
  memberOk { name := "e".toList, loc := .query, item := .enum, required := true }
    { ident := "e".toList, rename := none, ty := "OpRequestQueryE".toList } = true ∧
  memberOk { name := "e".toList, loc := .query, item := .enum, required := true }
    { ident := "e".toList, rename := none, ty := "String".toList } = false := by decide +kernel

/-! ## which request reaches which handler (stated axum semantics `Sem/Router.lean`, tied to the real axum by `route.dispatch`)

`dispatch` = the emitted router: path → route (static before parameter, no backtracking), route → method with axum's HEAD
fallback; `dispatchStrict` = the same path resolution with the methods exactly as declared (the property's reference). -/
section Routing
open Oas3.Router Oas3.ReqInterop

/-- no pattern of the table matches: 404 for every method -/
theorem undeclared_path_404 (table : List Route) (method : Str) (path : List Str)
    (h : ∀ r ∈ table, routeMatch r.pattern path = none) : dispatch table method path = .notFound :=
  dispatch_no_match table method path h

/-- exactly one route matches and it registers the method: that handler, no other -/
theorem declared_reaches_own_handler (table : List Route) (method : Str) (path : List Str) (r : Route) (id : Nat)
    (hm : matching table path = [r]) (hr : lookupM method r.methods = some id) : dispatch table method path = .handler id := by
  rw [dispatch_unique table method path r hm]; exact resolve_registered r method id hr

/-- exactly one route matches, the method is not registered there and is not a HEAD next to a GET: 405 -/
theorem undeclared_method_405 (table : List Route) (method : Str) (path : List Str) (r : Route)
    (hm : matching table path = [r]) (hr : lookupM method r.methods = none)
    (hh : method ≠ mHEAD ∨ lookupM mGET r.methods = none) : dispatch table method path = .methodNotAllowed := by
  rw [dispatch_unique table method path r hm]; exact resolve_unregistered r method hr hh

/-- whatever the table, a request only ever reaches a handler that a MATCHING route registered under the requested method —
or, for HEAD, under GET -/
theorem handler_reached_is_registered (table : List Route) (method : Str) (path : List Str) (id : Nat)
    (h : dispatch table method path = .handler id) :
    ∃ r ∈ table, (routeMatch r.pattern path).isSome ∧
      (lookupM method r.methods = some id ∨ (method = mHEAD ∧ lookupM method r.methods = none ∧ lookupM mGET r.methods = some id)) :=
  dispatch_handler_sound table method path id h

/-- characterisation of the deviation from the declared methods (for EVERY table, method and path): the emitted router
answers as declared, or the request is a HEAD that the document does not declare and the GET handler answers it -/
theorem router_as_declared_or_head (table : List Route) (method : Str) (path : List Str) :
    dispatch table method path = dispatchStrict table method path ∨
    (method = mHEAD ∧ dispatchStrict table method path = .methodNotAllowed ∧ ∃ id, dispatch table method path = .handler id) :=
  dispatch_eq_strict_or_head table method path

theorem router_as_declared_of_not_head (table : List Route) (method : Str) (path : List Str) (h : method ≠ mHEAD) :
    dispatch table method path = dispatchStrict table method path := dispatch_eq_strict_of_not_head table method path h

private def tbl : List Route := [⟨[.lit "x".toList], [(mGET, 0)]⟩, ⟨[.lit "pets".toList, .cap [] "id".toList], [(mGET, 1), ("DELETE".toList, 2)]⟩,
  ⟨[.lit "pets".toList, .lit "mine".toList], [(mGET, 3)]⟩]

/-- finding F05-6: `HEAD /x` on a GET-only path reaches the GET operation's handler (the document declares 405) -/
theorem cex_head_served_by_get : dispatch tbl mHEAD ["x".toList] = .handler 0 ∧ dispatchStrict tbl mHEAD ["x".toList] = .methodNotAllowed := by
  decide +kernel

/-- static before parameter, and no second try: `DELETE /pets/mine` is refused although `/pets/{id}` has a DELETE -/
example : dispatch tbl mGET ["pets".toList, "mine".toList] = .handler 3 ∧ dispatch tbl mGET ["pets".toList, "7".toList] = .handler 1 ∧
    dispatch tbl "DELETE".toList ["pets".toList, "mine".toList] = .methodNotAllowed ∧ dispatch tbl mGET ["y".toList] = .notFound ∧
    dispatch tbl mGET ["x".toList, [] ] = .notFound := by decide +kernel
end Routing

/-! ### captures of the route pattern and the serde names of the path struct's members (finding F05-7) -/

/-- the identifier as serde knows it: without the raw prefix -/
def unrawF : List Char → List Char
  | 'r' :: '#' :: r => r
  | s => s

theorem find_map_strip (l : List (List Char × List Char)) (n : List Char) :
    (l.map fun p => (p.1, unrawF p.2)).find? (fun p => p.1 == n) = (l.find? (fun p => p.1 == n)).map (fun p => (p.1, unrawF p.2)) := by
  induction l with
  | nil => rfl
  | cons a r ih =>
    simp only [List.map, List.find?]
    cases h : (a.1 == n) <;> simp [ih]

/-- looking a DECLARED parameter up in the table without raw prefixes gives the serde name of its member -/
theorem fieldOf_strip (decl : List (List Char × List Char)) (n : List Char) (hd : ∃ p ∈ decl, p.1 = n) :
    fieldOf (decl.map fun p => (p.1, unrawF p.2)) n = unrawF (fieldOf decl n) := by
  unfold fieldOf
  rw [← List.map_reverse, find_map_strip]
  cases h : decl.reverse.find? (fun p => p.1 == n) with
  | some p => rfl
  | none =>
    exfalso
    obtain ⟨p, hp, e⟩ := hd
    have := List.find?_eq_none.mp h p (List.mem_reverse.mpr hp)
    simp [e] at this

/-- the route pattern of an accepted segment, built from the table without raw prefixes: the template text with every
parameter written as `{…}` around the name looked up in that table — for a declared parameter the SERDE name of its member
(`fieldOf_strip`): `/k/{type}` for the member `r#type` (finding F05-7 was the prefix showing up in the capture) -/
theorem capture_render (decl : List (List Char × List Char)) (s : List Char) (seg : Segment)
    (h : parseSegment (decl.map fun p => (p.1, unrawF p.2)) s = .ok seg) :
    ∃ ps, tokenize s = .ok ps ∧
      axumSegment seg = (ps.map (fun p => match p with
        | .lit l => l
        | .param n => '{' :: fieldOf (decl.map fun p => (p.1, unrawF p.2)) n ++ ['}'])).flatten := by
  obtain ⟨ps, hp, e⟩ := Oas3.Props.C03.axum_segment_render _ s seg h
  exact ⟨ps, hp, by rw [e]; rfl⟩

example : fieldOf ([("type".toList, "r#type".toList)].map fun p => (p.1, unrawF p.2)) "type".toList = "type".toList := by decide

end Oas3.Props.C05
