import Oas3Model.Proofs.Discr
/-!
# C14 — discriminated unions dispatch by tag and round-trip

Statements are over the model `Oas3.Discr` (`Model/Discr.lean`) and the trusted semantics of the emitted
constructs (`Sem/Discr.lean`).  `bin/check C14` measures on every run that the model equals the real
generator on generated configurations, and evaluates the judge `Oas3.Discr.judge` on the real output.

Full strength where true: dispatch / unmapped-rejected for every mapping with distinct tags
(`C14_dispatch`, `C14_base_dispatch`), enum-typed tags round-trip (`C14_roundtrip_iff_plain`).
Where today's code violates the property the theorem is a characterisation
(`C14_members_char`, `C14_unreachable_child`, `C14_tag_lost`, `C14_multi_tag_default`) and each known
class has a `decide`d witness on the whole pipeline model (`cex_*`).
-/
namespace Oas3.Props.C14
open Oas3.Discr

-- ------------------------------------------------------------------------------------------
-- upgrade of a union to a tag-dispatching enum

/-- the union is upgraded exactly when it has variants, the mapping is non-empty and every mapping
target is one of the variants -/
theorem C14_upgrade_iff (members : List Str) (m : List (Str × Str)) :
    (upgrade members m).isSome = true ↔ members ≠ [] ∧ m ≠ [] ∧ ∀ e ∈ m, members.contains e.2 = true := by
  unfold upgrade
  by_cases h1 : members = []
  · subst h1; simp
  · by_cases h2 : m = []
    · subst h2; simp
    · have hc : ¬ ((members.isEmpty || m.isEmpty) = true) := by
        cases members with
        | nil => exact absurd rfl h1
        | cons _ _ =>
          cases m with
          | nil => exact absurd rfl h2
          | cons _ _ => simp
      rw [if_neg hc]
      by_cases h3 : m.all (fun e => members.contains e.2) = true
      · rw [if_pos h3]
        simp only [Option.isSome_some, true_iff]
        exact ⟨h1, h2, List.all_eq_true.mp h3⟩
      · rw [if_neg h3]
        constructor
        · intro h; cases h
        · rintro ⟨_, _, h⟩
          exact absurd (List.all_eq_true.mpr h) h3

theorem upgrade_some (members : List Str) (m : List (Str × Str)) (g : List (Str × List Str)) (hu : upgrade members m = some g) :
    g = (group m).filter (fun e => members.contains e.1) ∧ ∀ e ∈ m, members.contains e.2 = true := by
  unfold upgrade at hu
  by_cases h1 : (members.isEmpty || m.isEmpty) = true
  · simp [h1] at hu
  · simp only [h1, if_false] at hu
    by_cases h3 : m.all (fun e => members.contains e.2) = true
    · simp only [h3, if_true] at hu
      exact ⟨(Option.some.inj hu).symm, List.all_eq_true.mp h3⟩
    · rw [if_neg h3] at hu
      cases hu

theorem mem_arms_upgrade (members : List Str) (m : List (Str × Str)) (g : List (Str × List Str)) (hu : upgrade members m = some g)
    (t c : Str) : (t, c) ∈ armsOf g ↔ (t, c) ∈ m := by
  obtain ⟨hg, hall⟩ := upgrade_some members m g hu
  subst hg
  rw [mem_armsOf_filter (group m) (fun c => members.contains c) t c, mem_arms_group]
  constructor
  · exact fun h => h.1
  · exact fun h => ⟨h, hall (t, c) h⟩

/-- **Dispatch.**  For every mapping with distinct tags (a `BTreeMap`) whose union is upgraded, the emitted
`match` sends every mapped tag to the variant of the schema the mapping names, and has no arm for any
other tag (so `Some(other) => Err`). -/
theorem C14_dispatch (members : List Str) (m : List (Str × Str)) (g : List (Str × List Str))
    (hk : (m.map Prod.fst).Nodup) (hu : upgrade members m = some g) :
    (∀ t c, (t, c) ∈ m → look t (armsOf g) = some c) ∧ (∀ t, t ∉ m.map Prod.fst → look t (armsOf g) = none) := by
  have hm := mem_arms_upgrade members m g hu
  constructor
  · intro t c h
    apply look_of_mem_unique
    · exact (hm t c).mpr h
    · intro c' h'
      exact keys_nodup_unique m hk t c' c ((hm t c').mp h') h
  · intro t ht
    apply look_none_of_not_key
    intro c hc
    exact ht (List.mem_map.mpr ⟨(t, c), (hm t c).mp hc, rfl⟩)

/-- **Members (characterisation).**  A member of an upgraded union is reachable through some tag, or it
has no mapping entry at all (`Known.memberNotInMapping`) — and in that case no arm leads to it. -/
theorem C14_members_char (members : List Str) (m : List (Str × Str)) (g : List (Str × List Str))
    (hu : upgrade members m = some g) (c : Str) :
    (∃ t, (t, c) ∈ armsOf g) ∨ ((∀ t, (t, c) ∉ m) ∧ ∀ t, (t, c) ∉ armsOf g) := by
  have hm := mem_arms_upgrade members m g hu
  by_cases h : ∃ t, (t, c) ∈ m
  · obtain ⟨t, ht⟩ := h
    exact Or.inl ⟨t, (hm t c).mpr ht⟩
  · refine Or.inr ⟨fun t ht => h ⟨t, ht⟩, fun t ht => h ⟨t, (hm t c).mp ht⟩⟩

-- ------------------------------------------------------------------------------------------
-- base enum (allOf children) under the operation-reachability filter

theorem baseEnum_arms (cache : List (Str × DM)) (reach : Option (List Str)) (name fb : Str) (d : Disc) (variants : List Str)
    (m : List (Str × Str)) (he : effective cache (some d) variants = some m) :
    baseEnum cache reach name (some d) variants fb =
      [{ name := name, untagged := false, tag := d.prop,
         arms := armsOf (group (m.filter (fun e => isReach reach e.2))), fallback := some fb,
         types := (group (m.filter (fun e => isReach reach e.2))).map (·.1) ++ [fb] }] := by
  simp [baseEnum, he]

/-- **Dispatch of the base enum / unreachable children (characterisation).**  With distinct tags, a mapped
tag is dispatched to its schema iff that schema is in the operation-reachable set; the tags of a
filtered child have NO arm (`Known.unreachableChild`: they are rejected as unknown), and so have unmapped tags. -/
theorem C14_unreachable_child (reach : Option (List Str)) (m : List (Str × Str)) (hk : (m.map Prod.fst).Nodup) :
    let arms := armsOf (group (m.filter (fun e => isReach reach e.2)))
    (∀ t c, (t, c) ∈ m → isReach reach c = true → look t arms = some c) ∧
    (∀ t c, (t, c) ∈ m → isReach reach c = false → look t arms = none) ∧
    (∀ t, t ∉ m.map Prod.fst → look t arms = none) := by
  intro arms
  have hmem : ∀ t c, (t, c) ∈ arms ↔ (t, c) ∈ m ∧ isReach reach c = true := by
    intro t c
    show (t, c) ∈ armsOf (group (m.filter (fun e => isReach reach e.2))) ↔ _
    rw [mem_arms_group, List.mem_filter]
  refine ⟨?_, ?_, ?_⟩
  · intro t c h hr
    apply look_of_mem_unique
    · exact (hmem t c).mpr ⟨h, hr⟩
    · intro c' h'
      exact keys_nodup_unique m hk t c' c ((hmem t c').mp h').1 h
  · intro t c h hr
    apply look_none_of_not_key
    intro c' hc'
    have h2 := (hmem t c').mp hc'
    have : c' = c := keys_nodup_unique m hk t c' c h2.1 h
    subst this
    rw [hr] at h2
    exact absurd h2.2 (by simp)
  · intro t ht
    apply look_none_of_not_key
    intro c hc
    exact ht (List.mem_map.mpr ⟨(t, c), ((hmem t c).mp hc).1, rfl⟩)

/-- without a filter (`--all-schemas`) the base enum dispatches every mapped tag -/
theorem C14_base_dispatch (m : List (Str × Str)) (hk : (m.map Prod.fst).Nodup) :
    ∀ t c, (t, c) ∈ m → look t (armsOf (group (m.filter (fun e => isReach none e.2)))) = some c := by
  intro t c h
  exact (C14_unreachable_child none m hk).1 t c h rfl

-- ------------------------------------------------------------------------------------------
-- the tag property of the child struct: round trip

theorem look_buildStruct (cache : List (Str × DM)) (c rust : Str) (props : List (Str × PInfo)) (disc : Option Disc) (deny : Bool) (p : Str) :
    look p (buildStruct cache c rust props disc deny).fields = (look p props).map (fieldMode (look c cache) disc p) := by
  simp [buildStruct, look_map_fields]

/-- **Round trip (iff).**  Re-encoding a decoded child reproduces the tag property exactly when the child's
tag field is an ordinary (`plain`) field. -/
theorem C14_roundtrip_iff_plain (cache : List (Str × DM)) (c rust : Str) (props : List (Str × PInfo)) (disc : Option Disc) (deny : Bool)
    (p t : Str) (pi : PInfo) (hp : look p props = some pi) :
    encodeTag (buildStruct cache c rust props disc deny) p (some t) = some t ↔ fieldMode (look c cache) disc p pi = .plain := by
  unfold encodeTag
  rw [look_buildStruct, hp]
  simp only [Option.map_some]
  cases h : fieldMode (look c cache) disc p pi <;> simp

/-- an enum-typed tag property (more than one value) is never hidden: it round-trips -/
theorem C14_enum_tag_roundtrip (cache : List (Str × DM)) (c rust : Str) (props : List (Str × PInfo)) (disc : Option Disc) (deny : Bool)
    (p t : Str) (pi : PInfo) (hp : look p props = some pi) (he : pi.enumVals.length > 1) :
    encodeTag (buildStruct cache c rust props disc deny) p (some t) = some t := by
  rw [C14_roundtrip_iff_plain cache c rust props disc deny p t pi hp]
  unfold fieldMode
  simp [he]
  intro h h1 h2
  rw [h1, h2] at h
  simp at h

/-- **Tag lost on decode (`Known.tagLostOnDecode`).**  A child that has a tag-cache entry for property `p`
and whose `p` is not enum-typed gets a hidden field with the cached value: re-encoding a DECODED value
writes no tag property at all, while a `Default`-built value carries the cached value. -/
theorem C14_tag_lost (cache : List (Str × DM)) (c rust : Str) (props : List (Str × PInfo)) (disc : Option Disc) (deny : Bool)
    (p v t : Str) (pi : PInfo) (hp : look p props = some pi) (hc : look c cache = some ⟨p, v⟩) (he : pi.enumVals.length ≤ 1) :
    encodeTag (buildStruct cache c rust props disc deny) p (some t) = none ∧
    encodeDefaultTag (buildStruct cache c rust props disc deny) p = some v := by
  have hm : fieldMode (look c cache) disc p pi = .fixed v := by
    unfold fieldMode
    have : ¬ (pi.enumVals.length > 1) := by omega
    simp [hc, this]
  unfold encodeTag encodeDefaultTag
  rw [look_buildStruct, hp]
  simp [hm]

/-- **Several tags for one schema.**  After one explicit mapping has been written, the cache entry of a
child is the LAST tag (in `BTreeMap` order) the mapping gives it — so with `{cat→Cat, kitty→Cat}` the
fixed value of `Cat.kind` is `kitty` (seen in `Default`-built values; decoded values lose the tag). -/
theorem C14_multi_tag_default (cache0 : List (Str × DM)) (m : List (Str × Str)) (c rust : Str) (props : List (Str × PInfo))
    (disc : Option Disc) (deny : Bool) (p v : Str) (pi : PInfo)
    (hp : look p props = some pi) (he : pi.enumVals.length ≤ 1) (hl : lastTagFor m c = some v) :
    encodeDefaultTag (buildStruct (writeMapping p m cache0) c rust props disc deny) p = some v := by
  have hc : look c (writeMapping p m cache0) = some ⟨p, v⟩ := by
    rw [look_writeMapping, hl]
  exact (C14_tag_lost (writeMapping p m cache0) c rust props disc deny p v [] pi hp hc he).2

/-- `deny_unknown_fields` + hidden tag field (`Known.denyUnknownTag`): a document that carries the tag key
is rejected by the child struct -/
theorem C14_deny_hidden_rejects (cache : List (Str × DM)) (c rust : Str) (props : List (Str × PInfo)) (disc : Option Disc)
    (p v : Str) (pi : PInfo) (hp : look p props = some pi) (hc : look c cache = some ⟨p, v⟩) (he : pi.enumVals.length ≤ 1)
    (d : Doc) (hk : p ∈ d.keys) :
    structAccepts (buildStruct cache c rust props disc true) d = false := by
  have hm : fieldMode (look c cache) disc p pi = .fixed v := by
    unfold fieldMode
    have : ¬ (pi.enumVals.length > 1) := by omega
    simp [hc, this]
  have hd : deserialisable (buildStruct cache c rust props disc true) p = false := by
    unfold deserialisable
    rw [look_buildStruct, hp]
    simp [hm]
  unfold structAccepts
  have hdeny : (buildStruct cache c rust props disc true).deny = true := rfl
  rw [hdeny]
  simp only [Bool.not_true, Bool.false_or]
  apply Bool.eq_false_iff.mpr
  intro hall
  have := List.all_eq_true.mp hall p hk
  rw [hd] at this
  exact absurd this (by simp)

-- ------------------------------------------------------------------------------------------
-- concrete witnesses on the WHOLE pipeline model `F` and the judge `J`

private def s (x : String) : Str := x.toList
private def plainTag : PInfo := {}
private def enumTag (t : String) : PInfo := { enumVals := [s t, s (t ++ "2")] }
private def constTag (t : String) : PInfo := { const := some (s t) }
private def leaf (n : String) (tag : PInfo) (deny : Bool := false) : Str × Sch :=
  (s n, { props := [(s ("f" ++ n.toLower), {}), (s "kind", tag)], deny := deny })
private def union (n : String) (members : List String) (mapping : Option (List (String × String))) : Str × Sch :=
  (s n, { oneOf := members.map s, disc := some { prop := s "kind", mapping := mapping.map (fun m => mkMap (m.map (fun e => (s e.1, s e.2)))) } })

/-- enum-typed tags, full mapping: the property holds -/
def good : Spec :=
  { schemas := [leaf "Cat" (enumTag "cat"), leaf "Dog" (enumTag "dog"), union "Pet" ["Cat", "Dog"] (some [("cat", "Cat"), ("dog", "Dog")])],
    roots := [s "Pet"], all := false }

def wTagLost : Spec :=
  { schemas := [leaf "Cat" plainTag, leaf "Dog" plainTag, union "Pet" ["Cat", "Dog"] (some [("cat", "Cat"), ("dog", "Dog")])],
    roots := [s "Pet"], all := false }

def wMember : Spec :=
  { schemas := [leaf "Cat" (enumTag "cat"), leaf "Dog" (enumTag "dog"), leaf "Emu" (enumTag "emu"),
      union "Pet" ["Cat", "Dog", "Emu"] (some [("cat", "Cat"), ("dog", "Dog")])],
    roots := [s "Pet"], all := false }

def wShared : Spec :=
  { schemas := [leaf "Cat" (constTag "cat"), leaf "Dog" (constTag "dog"), leaf "Fox" (enumTag "fox"),
      union "Pet" ["Cat", "Dog"] none, union "Zoo" ["Cat", "Fox"] (some [("feline", "Cat"), ("fox", "Fox")])],
    roots := [s "Pet", s "Zoo"], all := false }

def wUnreachable : Spec :=
  { schemas := [
      (s "Cat", { allOf := [.ref (s "Pet"), .inl [(s "fcat", {})] false] }),
      (s "Dog", { allOf := [.ref (s "Pet"), .inl [(s "fdog", {})] false] }),
      (s "Pet", { props := [(s "fpet", {}), (s "kind", { enumVals := [s "cat", s "dog", s "pet"] })],
                  disc := some { prop := s "kind", mapping := some [(s "cat", s "Cat"), (s "dog", s "Dog")] } })],
    roots := [s "Pet"], all := false }

def wDeny : Spec :=
  { schemas := [leaf "Cat" plainTag true, leaf "Dog" (enumTag "dog"), union "Pet" ["Cat", "Dog"] (some [("cat", "Cat"), ("dog", "Dog")])],
    roots := [s "Pet"], all := false }

/-- non-vacuity: there are configurations on which the whole property holds of the model -/
theorem good_holds : J good (F good) = true := by decide +kernel

theorem cex_tag_lost :
    J wTagLost (F wTagLost) = false ∧ knownOf (judge wTagLost (F wTagLost)) = [.tagLostOnDecode] := by decide +kernel

theorem cex_member_not_in_mapping :
    J wMember (F wMember) = false ∧ knownOf (judge wMember (F wMember)) = [.memberNotInMapping] := by decide +kernel



theorem cex_unreachable_child :
    J wUnreachable (F wUnreachable) = false ∧ knownOf (judge wUnreachable (F wUnreachable)) = [.unreachableChild] := by decide +kernel

theorem cex_shared_child :
    J wShared (F wShared) = false ∧ knownOf (judge wShared (F wShared)) = [.tagLostOnDecode, .sharedChild] ∧
    -- the union whose mapping is implied by `const cat` dispatches the OTHER union's tag and rejects its own const
    (F wShared).effective = [(s "Pet", some [(s "dog", s "Dog"), (s "feline", s "Cat")]), (s "Zoo", some [(s "feline", s "Cat"), (s "fox", s "Fox")])] := by
  decide +kernel

/-- the same base with `--all-schemas`: nothing is dropped and the property holds -/
theorem unreachable_needs_filter : J { wUnreachable with all := true } (F { wUnreachable with all := true }) = true := by decide +kernel

theorem cex_deny_unknown_tag :
    J wDeny (F wDeny) = false ∧ knownOf (judge wDeny (F wDeny)) = [.denyUnknownTag] := by decide +kernel

/-- the hypotheses of `C14_dispatch` are satisfiable -/
example : ∃ g, upgrade [s "Cat", s "Dog"] [(s "cat", s "Cat"), (s "dog", s "Dog")] = some g ∧
    look (s "dog") (armsOf g) = some (s "Dog") ∧ look (s "emu") (armsOf g) = none := by
  refine ⟨_, rfl, ?_, ?_⟩ <;> decide +kernel

/-- last-writer-wins on a concrete multi-tag mapping: `{cat→Cat, kitty→Cat}` leaves `kitty` -/
example : look (s "Cat") (writeMapping (s "kind") [(s "cat", s "Cat"), (s "dog", s "Dog"), (s "kitty", s "Cat")] []) = some ⟨s "kind", s "kitty"⟩ := by
  decide +kernel

-- ------------------------------------------------------------------------------------------
-- use sites: positions, wrappers, `untagged`

/-- serde `untagged` = the FIRST variant (in declaration order) whose shape accepts the document -/
theorem untagged_first_accepting (acc : Str → Bool) (tys : List Str) :
    firstAccepting acc tys = tys.find? acc := by
  induction tys with
  | nil => rfl
  | cons t r ih =>
    simp only [firstAccepting, List.find?]
    cases h : acc t <;> simp [ih]

/-- … hence the selected variant accepts and every variant before it refuses -/
theorem untagged_first_accepting_spec (acc : Str → Bool) (tys : List Str) (t : Str)
    (h : firstAccepting acc tys = some t) :
    acc t = true ∧ ∃ pre post, tys = pre ++ t :: post ∧ ∀ x ∈ pre, acc x = false := by
  rw [untagged_first_accepting] at h
  obtain ⟨h1, pre, post, h2, h3⟩ := List.find?_eq_some_iff_append.mp h
  exact ⟨h1, pre, post, h2, fun x hx => by simpa using h3 x hx⟩

/-- a use site typed by an `untagged` enum decodes by shape only: the tag plays no part -/
theorem untagged_site_decode (fx : Facts) (shapes : List ShapeF) (fuel : Nat) (st : SiteTy) (e : EnumF) (doc : Doc)
    (hv : st.value = false) (he : st.en = some e) (hu : e.untagged = true) :
    siteDecode fx shapes fuel st doc =
      (match e.types.find? (shapeAccepts fx shapes doc) with | some t => .member t | none => .rejected) := by
  unfold siteDecode
  simp only [hv, he, hu, if_true, Bool.false_eq_true, if_false, untagged_first_accepting]
  rfl

private def wStruct (n : String) : StructF := { name := s n, deny := false, fields := [(s ("f" ++ n.toLower), .plain), (s "kind", .plain)] }
private def wFacts : Facts := { cache := [], effective := [], parents := [], reach := none, enums := [], structs := [wStruct "User", wStruct "Team"] }
private def wShapes : List ShapeF := [{ name := s "User", req := [s "kind"], allowed := [] }, { name := s "Team", req := [s "kind"], allowed := [] }]
private def wUntagged : SiteTy := { vec := 0, value := false, en := some { name := [], untagged := true, tag := [], arms := [], fallback := none, types := [s "User", s "Team"] } }
private def wTagged : SiteTy := { vec := 0, value := false, en := some { name := [], untagged := false, tag := s "kind", arms := [(s "team", s "Team"), (s "user", s "User")], fallback := none, types := [s "Team", s "User"] } }
private def teamDoc (tag : String) : Doc := { tagProp := s "kind", tag := some (s tag), keys := [s "fteam", s "kind"] }

/-- two members that accept each other's documents (only the tag is required): the tag names the SECOND member,
the `untagged` enum yields the FIRST, and an unmapped tag is accepted; the tag-dispatching enum gets both right -/
theorem overlap_wrong_member :
    siteDecode wFacts wShapes 4 wUntagged (teamDoc "team") = .member (s "User") ∧
    siteDecode wFacts wShapes 4 wUntagged (teamDoc "no-such-tag") = .member (s "User") ∧
    siteDecode wFacts wShapes 4 wTagged (teamDoc "team") = .member (s "Team") ∧
    siteDecode wFacts wShapes 4 wTagged (teamDoc "no-such-tag") = .rejected := by decide +kernel

/-- an enum-typed tag repairs `untagged`: the first member refuses the other member's tag -/
theorem overlap_enum_tag_repairs :
    siteDecode wFacts [{ name := s "User", req := [s "kind"], allowed := [(s "kind", [s "user", s "user2"])] },
                       { name := s "Team", req := [s "kind"], allowed := [(s "kind", [s "team", s "team2"])] }] 4 wUntagged (teamDoc "team") = .member (s "Team") := by
  decide +kernel

theorem resolveInline_own (fps : List (List Str × Str)) (reg : UReg) (u u' : Sch)
    (h : (resolveInline fps reg u).1 = .own u') : u' = u := by
  unfold resolveInline at h
  dsimp only at h
  split at h
  · split at h
    · cases h
    · split at h
      · cases h
      · exact (Origin.own.inj h).symm
  · exact (Origin.own.inj h).symm

theorem resolveTypeInline_not_own (fps : List (List Str × Str)) (u u' : Sch) : resolveTypeInline fps u ≠ .own u' := by
  unfold resolveTypeInline
  intro h
  split at h
  · cases h
  · dsimp only at h
    split at h
    · split at h <;> cases h
    · cases h

/-- well-formed spelling: only a wrapper can carry an outer discriminator, and the one spelling whose flattening
loses it (`[array-of-union, null]` with the discriminator on the wrapper) is excluded (finding F14-10) -/
def SiteWF (s : SiteSch) : Prop :=
  (s.wrap = none → s.outerDisc = none) ∧ (s.arr = true → s.wrap.isSome = true → s.u.disc.isSome = true ∨ s.outerDisc = none)

theorem siteCore_eq_u (s : SiteSch) (h : s.u.disc.isSome = true ∨ s.outerDisc = none) : siteCore s = s.u := by
  cases s with
  | mk a w o u =>
    cases u with
    | mk props oneOf anyOf allOf disc deny =>
      cases disc with
      | some d => rfl
      | none =>
        cases h with
        | inl h => cases h
        | inr h => simp only at h; subst h; rfl

/-- whenever a site's type is converted from its own union, that union is the declared one (`siteCore`),
whatever the position and the wrapper spelling -/
theorem own_is_core (fps : List (List Str × Str)) (reg : UReg) (pos : Pos) (s : SiteSch) (u : Sch)
    (hwf : SiteWF s) (h : (route fps reg pos s).1.1 = .own u) : u = siteCore s := by
  obtain ⟨hw, ha⟩ := hwf
  have top : ∀ u, (topRoute fps reg s).1.1 = .own u → u = siteCore s := by
    intro u h
    unfold topRoute at h
    cases hwr : s.wrap with
    | some b =>
      rw [hwr] at h
      cases har : s.arr with
      | true =>
        simp only [har, if_true] at h
        have := ha har (by rw [hwr]; rfl)
        rw [siteCore_eq_u s this]; exact (Origin.own.inj h).symm
      | false =>
        simp only [har, Bool.false_eq_true, if_false] at h
        exact (Origin.own.inj h).symm
    | none =>
      rw [hwr] at h
      have hc : siteCore s = s.u := siteCore_eq_u s (Or.inr (hw hwr))
      cases har : s.arr with
      | true =>
        simp only [har, if_true] at h
        rw [hc]; exact resolveInline_own fps reg s.u u h
      | false =>
        simp only [har, Bool.false_eq_true, if_false] at h
        rw [hc]; exact (Origin.own.inj h).symm
  cases pos with
  | named => exact top u h
  | body => exact top u h
  | field =>
    simp only [route] at h
    unfold fieldRoute at h
    cases hwr : s.wrap with
    | some b => rw [hwr] at h; exact absurd h (resolveTypeInline_not_own fps s.u u)
    | none =>
      rw [hwr] at h
      rw [siteCore_eq_u s (Or.inr (hw hwr))]; exact resolveInline_own fps reg s.u u h
  | resp =>
    simp only [route] at h
    unfold respRoute at h
    split at h
    · exact absurd h (resolveTypeInline_not_own fps s.u u)
    · exact top u h

/-- wrappers and positions preserve dispatch: the model's dispatch function `dispatchOf` has no position argument,
and any two positions / registry states at which the SAME spelling is converted from its own union get the SAME
tag-dispatching enum, namely `dispatchOf` of the declared union -/
theorem dispatch_position_independent (e : Env) (fps : List (List Str × Str)) (reg reg' : UReg) (pos pos' : Pos)
    (s : SiteSch) (u u' : Sch) (hwf : SiteWF s)
    (h : (route fps reg pos s).1.1 = .own u) (h' : (route fps reg' pos' s).1.1 = .own u') :
    originEnum e (route fps reg pos s).1.1 = some (dispatchOf e.cache (siteCore s)) ∧
    originEnum e (route fps reg pos s).1.1 = originEnum e (route fps reg' pos' s).1.1 := by
  have h1 := own_is_core fps reg pos s u hwf h
  have h2 := own_is_core fps reg' pos' s u' hwf h'
  rw [h, h', h1, h2]
  exact ⟨rfl, rfl⟩

/-- … and that enum dispatches every tag of an explicit mapping to the member the mapping names (via `C14_dispatch`'s
ingredients): stated for the arms -/
theorem site_dispatch_arms (cache : List (Str × DM)) (core : Sch) (d : Disc) (m : List (Str × Str)) (g : List (Str × List Str))
    (hd : core.disc = some d) (hm : d.mapping = some m) (hu : upgrade (unionRefs core) m = some g) :
    (dispatchOf cache core).untagged = false ∧ (dispatchOf cache core).arms = armsOf g ∧ (dispatchOf cache core).tag = d.prop := by
  unfold dispatchOf unionEnum
  have he : effective cache (some d) (unionVariants core) = some m := by simp [effective, hm]
  have hu' : upgrade (if core.oneOf.isEmpty then core.anyOf else core.oneOf) m = some g := hu
  simp only [hd, he, hu']
  exact ⟨trivial, trivial, trivial⟩

/-- soundness of the use-site judge w.r.t. `Sem`: if it reports nothing, then at that site every document of a mapped
member carrying a mapped tag decodes to exactly that member and re-encodes the same tag, and a document with an unmapped
tag is rejected -/
theorem judgeSite_sound (sp : Spec) (fx : Facts) (shapes : List ShapeF) (site : Site) (st : SiteTy) (cls : Option Known)
    (d : Disc) (m : List (Str × Str))
    (hd : (siteCore site.s).disc = some d) (hm : intended sp.schemas (siteCore site.s) = some m)
    (hwf : m.all (fun x => (unionRefs (siteCore site.s)).contains x.2 && (look x.2 sp.schemas).isSome) = true)
    (hJ : judgeSite sp fx shapes site st cls = []) :
    st.vec = (if site.s.arr then 1 else 0) ∧
    (∀ x ∈ m, isUnionSch sp.schemas x.2 = false → permits (envOf sp) d.prop x.1 x.2 = true →
      siteDecode fx shapes (sp.schemas.length + 2) st (validDoc (envOf sp) d.prop x.1 x.2) = .member x.2 ∧
      ∀ sf, findStruct fx x.2 = some sf → encodeTag sf d.prop (some x.1) = some x.1) ∧
    (∀ c ∈ unionRefs (siteCore site.s), isUnionSch sp.schemas c = false →
      siteDecode fx shapes (sp.schemas.length + 2) st (validDoc (envOf sp) d.prop unmappedProbe c) = .rejected) := by
  unfold judgeSite at hJ
  simp only [hd, hm, hwf, Bool.not_true, Bool.false_eq_true, if_false] at hJ
  by_cases hv : st.vec = (if site.s.arr then 1 else 0)
  · simp only [hv, ne_eq, not_true_eq_false, if_false] at hJ
    obtain ⟨h12, h3⟩ := List.append_eq_nil_iff.mp hJ
    obtain ⟨h1, _⟩ := List.append_eq_nil_iff.mp h12
    refine ⟨hv, ?_, ?_⟩
    · intro x hx hnu hp
      have := List.flatMap_eq_nil_iff.mp h1 x hx
      simp only [hnu, hp, Bool.false_eq_true, if_false, Bool.not_true] at this
      cases hdec : siteDecode fx shapes (sp.schemas.length + 2) st (validDoc (envOf sp) d.prop x.1 x.2) with
      | untyped => rw [hdec] at this; cases this
      | rejected => rw [hdec] at this; cases this
      | member ty =>
        rw [hdec] at this
        by_cases hty : ty = x.2
        · subst hty
          refine ⟨rfl, ?_⟩
          intro sf hsf
          simp only [ne_eq, not_true_eq_false, if_false, hsf] at this
          by_cases henc : encodeTag sf d.prop (some x.1) = some x.1
          · exact henc
          · simp [henc] at this
        · simp [hty] at this
    · intro c hc hnu
      have := List.flatMap_eq_nil_iff.mp h3 c hc
      simp only [hnu, Bool.false_eq_true, if_false] at this
      cases hdec : siteDecode fx shapes (sp.schemas.length + 2) st (validDoc (envOf sp) d.prop unmappedProbe c) with
      | rejected => rfl
      | untyped => rw [hdec] at this; cases this
      | member ty => rw [hdec] at this; cases this
  · simp [hv] at hJ

-- concrete witnesses for the use-site classes on the whole model (`FSites`) + judge

private def uSch (members : List String) (mapping : Option (List (String × String))) (one : Bool := true) : Sch :=
  { oneOf := if one then members.map s else [], anyOf := if one then [] else members.map s,
    disc := some { prop := s "kind", mapping := mapping.map (fun m => mkMap (m.map (fun e => (s e.1, s e.2)))) } }
private def plainU (members : List String) : Sch := { oneOf := members.map s }
private def utMap : Option (List (String × String)) := some [("user", "User"), ("team", "Team")]
private def holder (n : String) : Str × Sch := (s n, { props := [(s "f", {})] })
private def wSiteSpec (extra : List (Str × Sch)) : Spec :=
  { schemas := mkMap ([leaf "User" plainTag, leaf "Team" plainTag] ++ extra), roots := [s "User", s "Team"] ++ extra.map (·.1), all := false }

/-- model-side verdict of one document: (origin, failures are all known, classes) -/
private def siteVerdict (sp : Spec) (sites : List Site) : List (Origin × Bool × List Known) :=
  (FSites sp sites).map (fun x =>
    let fs := judgeSite sp (F sp) [{ name := s "User", req := [s "kind"], allowed := [] }, { name := s "Team", req := [s "kind"], allowed := [] }] x.1 x.2.2 (siteClass sp x.1 x.2.1)
    (x.2.1, fs.isEmpty, knownOf fs))

/-- an inline discriminated union at a property, with explicit mapping and no neighbour: the property holds,
whether a plain inline twin is converted BEFORE it or after it (what regression m3 breaks) -/
theorem site_inline_good :
    siteVerdict (wSiteSpec [holder "Aaa", holder "Mid"])
      [{ id := s "n", pos := .field, holder := s "Aaa", field := s "f", s := { u := plainU ["User", "Team"] } },
       { id := s "m", pos := .field, holder := s "Mid", field := s "f", s := { u := uSch ["User", "Team"] utMap } }]
    = [(.own (plainU ["User", "Team"]), true, []), (.own (uSch ["User", "Team"] utMap), true, [])] := by decide +kernel

/-- the nullable wrapper of a named component keeps the discriminator, on the inner or on the outer schema (what regression m4 breaks) -/
theorem site_named_wrapper_good :
    siteVerdict (wSiteSpec [(s "Maybe", {})])
      [{ id := s "m", pos := .named, holder := s "Maybe", s := { wrap := some true, u := uSch ["User", "Team"] utMap } }]
      = [(.own (uSch ["User", "Team"] utMap), true, [])] ∧
    siteVerdict (wSiteSpec [(s "Maybe", {})])
      [{ id := s "m", pos := .named, holder := s "Maybe", s := { wrap := some false, outerDisc := (uSch [] utMap).disc, u := { anyOf := [s "User", s "Team"] } } }]
      = [(.own (uSch ["User", "Team"] utMap false), true, [])] := by decide +kernel

theorem cex_site_untyped :
    siteVerdict (wSiteSpec [holder "Mid"])
      [{ id := s "m", pos := .field, holder := s "Mid", field := s "f", s := { wrap := some true, u := uSch ["User", "Team"] utMap } }]
    = [(.value, false, [.siteUntyped])] := by decide +kernel

theorem cex_inline_implicit :
    siteVerdict { wSiteSpec [holder "Mid"] with schemas := mkMap [leaf "User" (constTag "user"), leaf "Team" (constTag "team"), holder "Mid"] }
      [{ id := s "m", pos := .field, holder := s "Mid", field := s "f", s := { u := uSch ["User", "Team"] none } }]
    = [(.own (uSch ["User", "Team"] none), false, [.implicitNotSynth])] := by decide +kernel

theorem cex_named_twin :
    siteVerdict (wSiteSpec [holder "Mid", (s "Zzz", plainU ["Team", "User"])])
      [{ id := s "m", pos := .field, holder := s "Mid", field := s "f", s := { u := uSch ["User", "Team"] utMap } }]
    = [(.named (s "Zzz"), false, [.namedTwin])] := by decide +kernel

theorem cex_inline_twin :
    siteVerdict (wSiteSpec [holder "Aaa", holder "Mid"])
      [{ id := s "m", pos := .field, holder := s "Mid", field := s "f", s := { u := uSch ["User", "Team"] utMap } },
       { id := s "n", pos := .field, holder := s "Aaa", field := s "f", s := { u := uSch ["User", "Team"] (some [("xuser", "User"), ("xteam", "Team")]) } }]
    = [(.own (uSch ["User", "Team"] (some [("xuser", "User"), ("xteam", "Team")])), true, []),
       (.earlier (uSch ["User", "Team"] (some [("xuser", "User"), ("xteam", "Team")])), false, [.inlineTwin])] := by decide +kernel

theorem cex_array_wrapper_flattened :
    siteVerdict (wSiteSpec [(s "Maybe", {})])
      [{ id := s "m", pos := .named, holder := s "Maybe", s := { arr := true, wrap := some true, u := uSch ["User", "Team"] utMap } }]
    = [(.own (uSch ["User", "Team"] utMap), false, [.arrayWrapperFlattened])] := by decide +kernel

end Oas3.Props.C14
