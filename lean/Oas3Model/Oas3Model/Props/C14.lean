import Oas3Model.Proofs.Discr
/-!
# C14 — discriminated unions dispatch by tag and round-trip

Statements are over the model `Oas3.Discr` (`Model/Discr.lean`) and the trusted semantics of the emitted
constructs (`Sem/Discr.lean`).  `bin/check C14` measures on every run that the model equals the real
generator on generated configurations, and evaluates the judge `Oas3.Discr.judge` on the real output.

Full strength where true: dispatch / unmapped-rejected for every mapping with distinct tags
(`C14_dispatch`, `C14_base_dispatch`), enum-typed tags round-trip (`C14_roundtrip_iff_plain`).
Where today's code violates the property the theorem is a characterisation
(`C14_members_char`, `C14_unreachable_child`, `C14_tag_lost`, `C14_multi_tag_default`) and each known
class has a `decide`d witness on the whole pipeline model (`cex_*`).
-/
namespace Oas3.Props.C14
open Oas3.Discr

-- ------------------------------------------------------------------------------------------
-- upgrade of a union to a tag-dispatching enum

/-- the union is upgraded exactly when it has variants, the mapping is non-empty and every mapping
target is one of the variants -/
theorem C14_upgrade_iff (members : List Str) (m : List (Str × Str)) :
    (upgrade members m).isSome = true ↔ members ≠ [] ∧ m ≠ [] ∧ ∀ e ∈ m, members.contains e.2 = true := by
  unfold upgrade
  by_cases h1 : members = []
  · subst h1; simp
  · by_cases h2 : m = []
    · subst h2; simp
    · have hc : ¬ ((members.isEmpty || m.isEmpty) = true) := by
        cases members with
        | nil => exact absurd rfl h1
        | cons _ _ =>
          cases m with
          | nil => exact absurd rfl h2
          | cons _ _ => simp
      rw [if_neg hc]
      by_cases h3 : m.all (fun e => members.contains e.2) = true
      · rw [if_pos h3]
        simp only [Option.isSome_some, true_iff]
        exact ⟨h1, h2, List.all_eq_true.mp h3⟩
      · rw [if_neg h3]
        constructor
        · intro h; cases h
        · rintro ⟨_, _, h⟩
          exact absurd (List.all_eq_true.mpr h) h3

theorem upgrade_some (members : List Str) (m : List (Str × Str)) (g : List (Str × List Str)) (hu : upgrade members m = some g) :
    g = (group m).filter (fun e => members.contains e.1) ∧ ∀ e ∈ m, members.contains e.2 = true := by
  unfold upgrade at hu
  by_cases h1 : (members.isEmpty || m.isEmpty) = true
  · simp [h1] at hu
  · simp only [h1, if_false] at hu
    by_cases h3 : m.all (fun e => members.contains e.2) = true
    · simp only [h3, if_true] at hu
      exact ⟨(Option.some.inj hu).symm, List.all_eq_true.mp h3⟩
    · rw [if_neg h3] at hu
      cases hu

theorem mem_arms_upgrade (members : List Str) (m : List (Str × Str)) (g : List (Str × List Str)) (hu : upgrade members m = some g)
    (t c : Str) : (t, c) ∈ armsOf g ↔ (t, c) ∈ m := by
  obtain ⟨hg, hall⟩ := upgrade_some members m g hu
  subst hg
  rw [mem_armsOf_filter (group m) (fun c => members.contains c) t c, mem_arms_group]
  constructor
  · exact fun h => h.1
  · exact fun h => ⟨h, hall (t, c) h⟩

/-- **Dispatch.**  For every mapping with distinct tags (a `BTreeMap`) whose union is upgraded, the emitted
`match` sends every mapped tag to the variant of the schema the mapping names, and has no arm for any
other tag (so `Some(other) => Err`). -/
theorem C14_dispatch (members : List Str) (m : List (Str × Str)) (g : List (Str × List Str))
    (hk : (m.map Prod.fst).Nodup) (hu : upgrade members m = some g) :
    (∀ t c, (t, c) ∈ m → look t (armsOf g) = some c) ∧ (∀ t, t ∉ m.map Prod.fst → look t (armsOf g) = none) := by
  have hm := mem_arms_upgrade members m g hu
  constructor
  · intro t c h
    apply look_of_mem_unique
    · exact (hm t c).mpr h
    · intro c' h'
      exact keys_nodup_unique m hk t c' c ((hm t c').mp h') h
  · intro t ht
    apply look_none_of_not_key
    intro c hc
    exact ht (List.mem_map.mpr ⟨(t, c), (hm t c).mp hc, rfl⟩)

/-- **Members (characterisation).**  A member of an upgraded union is reachable through some tag, or it
has no mapping entry at all (`Known.memberNotInMapping`) — and in that case no arm leads to it. -/
theorem C14_members_char (members : List Str) (m : List (Str × Str)) (g : List (Str × List Str))
    (hu : upgrade members m = some g) (c : Str) :
    (∃ t, (t, c) ∈ armsOf g) ∨ ((∀ t, (t, c) ∉ m) ∧ ∀ t, (t, c) ∉ armsOf g) := by
  have hm := mem_arms_upgrade members m g hu
  by_cases h : ∃ t, (t, c) ∈ m
  · obtain ⟨t, ht⟩ := h
    exact Or.inl ⟨t, (hm t c).mpr ht⟩
  · refine Or.inr ⟨fun t ht => h ⟨t, ht⟩, fun t ht => h ⟨t, (hm t c).mp ht⟩⟩

-- ------------------------------------------------------------------------------------------
-- base enum (allOf children) under the operation-reachability filter

theorem baseEnum_arms (cache : List (Str × DM)) (reach : Option (List Str)) (name fb : Str) (d : Disc) (variants : List Str)
    (m : List (Str × Str)) (he : effective cache (some d) variants = some m) :
    baseEnum cache reach name (some d) variants fb =
      [{ name := name, untagged := false, tag := d.prop,
         arms := armsOf (group (m.filter (fun e => isReach reach e.2))), fallback := some fb,
         types := (group (m.filter (fun e => isReach reach e.2))).map (·.1) ++ [fb] }] := by
  simp [baseEnum, he]

/-- **Dispatch of the base enum / unreachable children (characterisation).**  With distinct tags, a mapped
tag is dispatched to its schema iff that schema is in the operation-reachable set; the tags of a
filtered child have NO arm (`Known.unreachableChild`: they are rejected as unknown), and so have unmapped tags. -/
theorem C14_unreachable_child (reach : Option (List Str)) (m : List (Str × Str)) (hk : (m.map Prod.fst).Nodup) :
    let arms := armsOf (group (m.filter (fun e => isReach reach e.2)))
    (∀ t c, (t, c) ∈ m → isReach reach c = true → look t arms = some c) ∧
    (∀ t c, (t, c) ∈ m → isReach reach c = false → look t arms = none) ∧
    (∀ t, t ∉ m.map Prod.fst → look t arms = none) := by
  intro arms
  have hmem : ∀ t c, (t, c) ∈ arms ↔ (t, c) ∈ m ∧ isReach reach c = true := by
    intro t c
    show (t, c) ∈ armsOf (group (m.filter (fun e => isReach reach e.2))) ↔ _
    rw [mem_arms_group, List.mem_filter]
  refine ⟨?_, ?_, ?_⟩
  · intro t c h hr
    apply look_of_mem_unique
    · exact (hmem t c).mpr ⟨h, hr⟩
    · intro c' h'
      exact keys_nodup_unique m hk t c' c ((hmem t c').mp h').1 h
  · intro t c h hr
    apply look_none_of_not_key
    intro c' hc'
    have h2 := (hmem t c').mp hc'
    have : c' = c := keys_nodup_unique m hk t c' c h2.1 h
    subst this
    rw [hr] at h2
    exact absurd h2.2 (by simp)
  · intro t ht
    apply look_none_of_not_key
    intro c hc
    exact ht (List.mem_map.mpr ⟨(t, c), ((hmem t c).mp hc).1, rfl⟩)

/-- without a filter (`--all-schemas`) the base enum dispatches every mapped tag -/
theorem C14_base_dispatch (m : List (Str × Str)) (hk : (m.map Prod.fst).Nodup) :
    ∀ t c, (t, c) ∈ m → look t (armsOf (group (m.filter (fun e => isReach none e.2)))) = some c := by
  intro t c h
  exact (C14_unreachable_child none m hk).1 t c h rfl

-- ------------------------------------------------------------------------------------------
-- the tag property of the child struct: round trip

theorem look_buildStruct (cache : List (Str × DM)) (c rust : Str) (props : List (Str × PInfo)) (disc : Option Disc) (deny : Bool) (p : Str) :
    look p (buildStruct cache c rust props disc deny).fields = (look p props).map (fieldMode (look c cache) disc p) := by
  simp [buildStruct, look_map_fields]

/-- **Round trip (iff).**  Re-encoding a decoded child reproduces the tag property exactly when the child's
tag field is an ordinary (`plain`) field. -/
theorem C14_roundtrip_iff_plain (cache : List (Str × DM)) (c rust : Str) (props : List (Str × PInfo)) (disc : Option Disc) (deny : Bool)
    (p t : Str) (pi : PInfo) (hp : look p props = some pi) :
    encodeTag (buildStruct cache c rust props disc deny) p (some t) = some t ↔ fieldMode (look c cache) disc p pi = .plain := by
  unfold encodeTag
  rw [look_buildStruct, hp]
  simp only [Option.map_some]
  cases h : fieldMode (look c cache) disc p pi <;> simp

/-- an enum-typed tag property (more than one value) is never hidden: it round-trips -/
theorem C14_enum_tag_roundtrip (cache : List (Str × DM)) (c rust : Str) (props : List (Str × PInfo)) (disc : Option Disc) (deny : Bool)
    (p t : Str) (pi : PInfo) (hp : look p props = some pi) (he : pi.enumVals.length > 1) :
    encodeTag (buildStruct cache c rust props disc deny) p (some t) = some t := by
  rw [C14_roundtrip_iff_plain cache c rust props disc deny p t pi hp]
  unfold fieldMode
  simp [he]
  intro h h1 h2
  rw [h1, h2] at h
  simp at h

/-- **Tag lost on decode (`Known.tagLostOnDecode`).**  A child that has a tag-cache entry for property `p`
and whose `p` is not enum-typed gets a hidden field with the cached value: re-encoding a DECODED value
writes no tag property at all, while a `Default`-built value carries the cached value. -/
theorem C14_tag_lost (cache : List (Str × DM)) (c rust : Str) (props : List (Str × PInfo)) (disc : Option Disc) (deny : Bool)
    (p v t : Str) (pi : PInfo) (hp : look p props = some pi) (hc : look c cache = some ⟨p, v⟩) (he : pi.enumVals.length ≤ 1) :
    encodeTag (buildStruct cache c rust props disc deny) p (some t) = none ∧
    encodeDefaultTag (buildStruct cache c rust props disc deny) p = some v := by
  have hm : fieldMode (look c cache) disc p pi = .fixed v := by
    unfold fieldMode
    have : ¬ (pi.enumVals.length > 1) := by omega
    simp [hc, this]
  unfold encodeTag encodeDefaultTag
  rw [look_buildStruct, hp]
  simp [hm]

/-- **Several tags for one schema.**  After one explicit mapping has been written, the cache entry of a
child is the LAST tag (in `BTreeMap` order) the mapping gives it — so with `{cat→Cat, kitty→Cat}` the
fixed value of `Cat.kind` is `kitty` (seen in `Default`-built values; decoded values lose the tag). -/
theorem C14_multi_tag_default (cache0 : List (Str × DM)) (m : List (Str × Str)) (c rust : Str) (props : List (Str × PInfo))
    (disc : Option Disc) (deny : Bool) (p v : Str) (pi : PInfo)
    (hp : look p props = some pi) (he : pi.enumVals.length ≤ 1) (hl : lastTagFor m c = some v) :
    encodeDefaultTag (buildStruct (writeMapping p m cache0) c rust props disc deny) p = some v := by
  have hc : look c (writeMapping p m cache0) = some ⟨p, v⟩ := by
    rw [look_writeMapping, hl]
  exact (C14_tag_lost (writeMapping p m cache0) c rust props disc deny p v [] pi hp hc he).2

/-- `deny_unknown_fields` + hidden tag field (`Known.denyUnknownTag`): a document that carries the tag key
is rejected by the child struct -/
theorem C14_deny_hidden_rejects (cache : List (Str × DM)) (c rust : Str) (props : List (Str × PInfo)) (disc : Option Disc)
    (p v : Str) (pi : PInfo) (hp : look p props = some pi) (hc : look c cache = some ⟨p, v⟩) (he : pi.enumVals.length ≤ 1)
    (d : Doc) (hk : p ∈ d.keys) :
    structAccepts (buildStruct cache c rust props disc true) d = false := by
  have hm : fieldMode (look c cache) disc p pi = .fixed v := by
    unfold fieldMode
    have : ¬ (pi.enumVals.length > 1) := by omega
    simp [hc, this]
  have hd : deserialisable (buildStruct cache c rust props disc true) p = false := by
    unfold deserialisable
    rw [look_buildStruct, hp]
    simp [hm]
  unfold structAccepts
  have hdeny : (buildStruct cache c rust props disc true).deny = true := rfl
  rw [hdeny]
  simp only [Bool.not_true, Bool.false_or]
  apply Bool.eq_false_iff.mpr
  intro hall
  have := List.all_eq_true.mp hall p hk
  rw [hd] at this
  exact absurd this (by simp)

-- ------------------------------------------------------------------------------------------
-- concrete witnesses on the WHOLE pipeline model `F` and the judge `J`

private def s (x : String) : Str := x.toList
private def plainTag : PInfo := {}
private def enumTag (t : String) : PInfo := { enumVals := [s t, s (t ++ "2")] }
private def constTag (t : String) : PInfo := { const := some (s t) }
private def leaf (n : String) (tag : PInfo) (deny : Bool := false) : Str × Sch :=
  (s n, { props := [(s ("f" ++ n.toLower), {}), (s "kind", tag)], deny := deny })
private def union (n : String) (members : List String) (mapping : Option (List (String × String))) : Str × Sch :=
  (s n, { oneOf := members.map s, disc := some { prop := s "kind", mapping := mapping.map (fun m => mkMap (m.map (fun e => (s e.1, s e.2)))) } })

/-- enum-typed tags, full mapping: the property holds -/
def good : Spec :=
  { schemas := [leaf "Cat" (enumTag "cat"), leaf "Dog" (enumTag "dog"), union "Pet" ["Cat", "Dog"] (some [("cat", "Cat"), ("dog", "Dog")])],
    roots := [s "Pet"], all := false }

def wTagLost : Spec :=
  { schemas := [leaf "Cat" plainTag, leaf "Dog" plainTag, union "Pet" ["Cat", "Dog"] (some [("cat", "Cat"), ("dog", "Dog")])],
    roots := [s "Pet"], all := false }

def wMember : Spec :=
  { schemas := [leaf "Cat" (enumTag "cat"), leaf "Dog" (enumTag "dog"), leaf "Emu" (enumTag "emu"),
      union "Pet" ["Cat", "Dog", "Emu"] (some [("cat", "Cat"), ("dog", "Dog")])],
    roots := [s "Pet"], all := false }

def wShared : Spec :=
  { schemas := [leaf "Cat" (constTag "cat"), leaf "Dog" (constTag "dog"), leaf "Fox" (enumTag "fox"),
      union "Pet" ["Cat", "Dog"] none, union "Zoo" ["Cat", "Fox"] (some [("feline", "Cat"), ("fox", "Fox")])],
    roots := [s "Pet", s "Zoo"], all := false }

def wUnreachable : Spec :=
  { schemas := [
      (s "Cat", { allOf := [.ref (s "Pet"), .inl [(s "fcat", {})] false] }),
      (s "Dog", { allOf := [.ref (s "Pet"), .inl [(s "fdog", {})] false] }),
      (s "Pet", { props := [(s "fpet", {}), (s "kind", { enumVals := [s "cat", s "dog", s "pet"] })],
                  disc := some { prop := s "kind", mapping := some [(s "cat", s "Cat"), (s "dog", s "Dog")] } })],
    roots := [s "Pet"], all := false }

def wDeny : Spec :=
  { schemas := [leaf "Cat" plainTag true, leaf "Dog" (enumTag "dog"), union "Pet" ["Cat", "Dog"] (some [("cat", "Cat"), ("dog", "Dog")])],
    roots := [s "Pet"], all := false }

/-- non-vacuity: there are configurations on which the whole property holds of the model -/
theorem good_holds : J good (F good) = true := by decide +kernel

theorem cex_tag_lost :
    J wTagLost (F wTagLost) = false ∧ knownOf (judge wTagLost (F wTagLost)) = [.tagLostOnDecode] := by decide +kernel

theorem cex_member_not_in_mapping :
    J wMember (F wMember) = false ∧ knownOf (judge wMember (F wMember)) = [.memberNotInMapping] := by decide +kernel



theorem cex_unreachable_child :
    J wUnreachable (F wUnreachable) = false ∧ knownOf (judge wUnreachable (F wUnreachable)) = [.unreachableChild] := by decide +kernel

theorem cex_shared_child :
    J wShared (F wShared) = false ∧ knownOf (judge wShared (F wShared)) = [.tagLostOnDecode, .sharedChild] ∧
    -- the union whose mapping is implied by `const cat` dispatches the OTHER union's tag and rejects its own const
    (F wShared).effective = [(s "Pet", some [(s "dog", s "Dog"), (s "feline", s "Cat")]), (s "Zoo", some [(s "feline", s "Cat"), (s "fox", s "Fox")])] := by
  decide +kernel

/-- the same base with `--all-schemas`: nothing is dropped and the property holds -/
theorem unreachable_needs_filter : J { wUnreachable with all := true } (F { wUnreachable with all := true }) = true := by decide +kernel

theorem cex_deny_unknown_tag :
    J wDeny (F wDeny) = false ∧ knownOf (judge wDeny (F wDeny)) = [.denyUnknownTag] := by decide +kernel

/-- the hypotheses of `C14_dispatch` are satisfiable -/
example : ∃ g, upgrade [s "Cat", s "Dog"] [(s "cat", s "Cat"), (s "dog", s "Dog")] = some g ∧
    look (s "dog") (armsOf g) = some (s "Dog") ∧ look (s "emu") (armsOf g) = none := by
  refine ⟨_, rfl, ?_, ?_⟩ <;> decide +kernel

/-- last-writer-wins on a concrete multi-tag mapping: `{cat→Cat, kitty→Cat}` leaves `kitty` -/
example : look (s "Cat") (writeMapping (s "kind") [(s "cat", s "Cat"), (s "dog", s "Dog"), (s "kitty", s "Cat")] []) = some ⟨s "kind", s "kitty"⟩ := by
  decide +kernel

end Oas3.Props.C14
