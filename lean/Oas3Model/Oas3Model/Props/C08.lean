import Oas3Model.Model.Registry
namespace Oas3.Props.C08
open Oas3.Registry

/-- selection is by whole identifier: the filter is plain list membership of the base id -/
theorem filter_whole_id (only : List Id) (b : Id) :
    accepts { only := some only, excluded := none } b = only.contains b := by
  simp [accepts]

theorem exclude_complement (ex : List Id) (b : Id) :
    accepts { only := none, excluded := some ex } b = !(accepts { only := some ex, excluded := none } b) := by
  simp [accepts]

end Oas3.Props.C08
