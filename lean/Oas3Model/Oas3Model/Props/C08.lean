import Oas3Model.Model.Registry
import Oas3Model.Proofs.Registry
/-
C08: "`list operations`, `--only` and `--exclude` agree and are exact".

`listIds ops` is what `list` prints; `build {only := some S, excluded := none} ops` is what
`--only S` generates; `build {only := none, excluded := some S} ops` is what `--exclude S` generates.

The property holds under two hypotheses on the spec (`select_exact`):
  * the base ids are pairwise distinct (no uniquifying suffix is ever added), and
  * common-affix trimming is the identity on every sub-selection (`TrimFree`).
Without them it FAILS in the model exactly as in the real generator (`cex_suffix`, `cex_trim`,
`cex_trim_nonident`): the filter is applied to the BASE id, while `list` prints the id after
uniquifying and trimming, and trimming depends on the selection itself.
-/
namespace Oas3.Props.C08
open Oas3.Registry

/-- selection is by whole identifier: the filter is plain list membership of the base id -/
theorem filter_whole_id (only : List Id) (b : Id) :
    accepts { only := some only, excluded := none } b = only.contains b := by
  simp [accepts]

theorem exclude_complement (ex : List Id) (b : Id) :
    accepts { only := none, excluded := some ex } b = !(accepts { only := some ex, excluded := none } b) := by
  simp [accepts]

/-! ### 1. ingestion: with pairwise distinct base ids no uniquifying suffix is ever added -/

theorem ingest_nodup_base (f : Filter) (ops : List Op) (h : (ops.map baseId).Nodup) :
    ingest f ops [] =
      some ((ops.filter (fun o => accepts f (baseId o))).map (fun o => (baseId o, o))) := by
  have := ingest_nodup_base_acc f ops [] h (by simp)
  simpa using this

/-! ### 2. `specOrder` is a permutation of the operations -/

theorem specOrder_perm (ops : List Op) :
    (∀ o, o ∈ specOrder ops ↔ o ∈ ops) ∧
    (specOrder ops).length = ops.length ∧
    ((ops.map baseId).Nodup → ((specOrder ops).map baseId).Nodup) := by
  have hp := specOrder_perm' ops
  refine ⟨fun o => hp.mem_iff, hp.length_eq, fun h => ?_⟩
  exact ((hp.map baseId).nodup_iff).mpr h

/-- the same fact as a `List.Perm` -/
theorem specOrder_isPerm (ops : List Op) : (specOrder ops).Perm ops := specOrder_perm' ops

/-! ### 3. exactness of `list` / `--only` / `--exclude` -/

/-- common-affix trimming is the identity on every sub-selection -/
def TrimFree (ids : List Id) : Prop := ∀ l, l.Sublist ids → trim l = l

/-- `build` under the two hypotheses, for an arbitrary filter -/
theorem build_exact (ops : List Op) (f : Filter)
    (hnd : ((specOrder ops).map baseId).Nodup)
    (htf : TrimFree ((specOrder ops).map baseId)) :
    build f ops =
      some (((specOrder ops).filter (fun o => accepts f (baseId o))).map (fun o => (baseId o, o))) := by
  have hsub : (((specOrder ops).filter (fun o => accepts f (baseId o))).map baseId).Sublist
      ((specOrder ops).map baseId) := (List.filter_sublist).map baseId
  simp only [build, ingest_nodup_base f (specOrder ops) hnd, List.map_map]
  have h1 : ((fun x : Id × Op => x.1) ∘ fun o => (baseId o, o)) = baseId := rfl
  have h2 : ((fun x : Id × Op => x.2) ∘ fun o => (baseId o, o)) = id := rfl
  rw [h1, h2, htf _ hsub]
  have := zip_map_fst_snd baseId id ((specOrder ops).filter (fun o => accepts f (baseId o)))
  simpa using this

theorem select_exact (ops : List Op)
    (hnd : ((specOrder ops).map baseId).Nodup)
    (htf : TrimFree ((specOrder ops).map baseId)) (S : List Id) :
    listIds ops = some ((specOrder ops).map (fun o => (baseId o, o))) ∧
    build { only := some S, excluded := none } ops =
      some (((specOrder ops).filter (fun o => S.contains (baseId o))).map (fun o => (baseId o, o))) ∧
    build { only := none, excluded := some S } ops =
      some (((specOrder ops).filter (fun o => !S.contains (baseId o))).map (fun o => (baseId o, o))) := by
  refine ⟨?_, ?_, ?_⟩
  · rw [listIds, build_exact ops _ hnd htf]
    have : (specOrder ops).filter (fun _ => true) = specOrder ops :=
      List.filter_eq_self.mpr (fun _ _ => rfl)
    simp only [accepts, Bool.and_self, this]
  · rw [build_exact ops _ hnd htf]
    simp [accepts]
  · rw [build_exact ops _ hnd htf]
    simp [accepts]

/-- `select_exact` with the distinctness hypothesis stated on the spec's operations in any order -/
theorem select_exact_of_nodup (ops : List Op)
    (hnd : (ops.map baseId).Nodup)
    (htf : TrimFree ((specOrder ops).map baseId)) (S : List Id) :
    listIds ops = some ((specOrder ops).map (fun o => (baseId o, o))) ∧
    build { only := some S, excluded := none } ops =
      some (((specOrder ops).filter (fun o => S.contains (baseId o))).map (fun o => (baseId o, o))) ∧
    build { only := none, excluded := some S } ops =
      some (((specOrder ops).filter (fun o => !S.contains (baseId o))).map (fun o => (baseId o, o))) :=
  select_exact ops ((specOrder_perm ops).2.2 hnd) htf S

/-- `--only S` generates exactly the listed rows whose PRINTED id is in `S`, in listing order, each
once (the printed ids are pairwise distinct, so `rows.filter` keeps at most one row per id);
`--exclude S` generates exactly the other listed rows. -/
theorem select_only_exact (ops : List Op)
    (hnd : ((specOrder ops).map baseId).Nodup)
    (htf : TrimFree ((specOrder ops).map baseId)) (S : List Id) :
    ∃ rows : List (Id × Op),
      listIds ops = some rows ∧
      (rows.map (·.1)).Nodup ∧ rows.Nodup ∧
      rows.map (·.2) = specOrder ops ∧
      build { only := some S, excluded := none } ops = some (rows.filter (fun r => S.contains r.1)) ∧
      build { only := none, excluded := some S } ops = some (rows.filter (fun r => !S.contains r.1)) := by
  obtain ⟨hl, ho, he⟩ := select_exact ops hnd htf S
  refine ⟨_, hl, ?_, ?_, ?_, ?_, ?_⟩
  · simpa [List.map_map, Function.comp_def] using hnd
  · have hfst : (((specOrder ops).map (fun o => (baseId o, o))).map (·.1)).Nodup := by
      simpa [List.map_map, Function.comp_def] using hnd
    exact List.Pairwise.of_map (·.1) (fun a b h hab => h (hab ▸ rfl)) hfst
  · simp [List.map_map, Function.comp_def]
  · rw [ho, List.filter_map]; rfl
  · rw [he, List.filter_map]; rfl

/-- membership form: a row is generated by `--only S` iff it is listed and its printed id is in `S`;
by `--exclude S` iff it is listed and its printed id is not in `S`. -/
theorem select_mem_iff (ops : List Op)
    (hnd : ((specOrder ops).map baseId).Nodup)
    (htf : TrimFree ((specOrder ops).map baseId)) (S : List Id) :
    ∃ rows sel rest : List (Id × Op),
      listIds ops = some rows ∧
      build { only := some S, excluded := none } ops = some sel ∧
      build { only := none, excluded := some S } ops = some rest ∧
      sel.Nodup ∧ rest.Nodup ∧
      (∀ r, r ∈ sel ↔ r ∈ rows ∧ r.1 ∈ S) ∧
      (∀ r, r ∈ rest ↔ r ∈ rows ∧ r.1 ∉ S) := by
  obtain ⟨rows, hl, _, hrn, _, ho, he⟩ := select_only_exact ops hnd htf S
  refine ⟨rows, _, _, hl, ho, he, hrn.filter _, hrn.filter _, ?_, ?_⟩
  · intro r; simp [List.mem_filter]
  · intro r; simp [List.mem_filter]

/-- `--only S` and `--exclude S` partition the listing: together they are a permutation of the
listed rows (hence of `specOrder ops` on the operation component), and they are disjoint. -/
theorem only_exclude_partition (ops : List Op)
    (hnd : ((specOrder ops).map baseId).Nodup)
    (htf : TrimFree ((specOrder ops).map baseId)) (S : List Id) :
    ∃ rows sel rest : List (Id × Op),
      listIds ops = some rows ∧
      build { only := some S, excluded := none } ops = some sel ∧
      build { only := none, excluded := some S } ops = some rest ∧
      (sel ++ rest).Perm rows ∧
      ((sel ++ rest).map (·.2)).Perm (specOrder ops) ∧
      sel.length + rest.length = ops.length ∧
      (∀ r, r ∈ sel → r ∉ rest) ∧
      (∀ o, o ∈ ops → ((o ∈ sel.map (·.2) ∧ o ∉ rest.map (·.2)) ∨ (o ∉ sel.map (·.2) ∧ o ∈ rest.map (·.2)))) := by
  obtain ⟨rows, hl, _, _, hr2, ho, he⟩ := select_only_exact ops hnd htf S
  have hperm : (rows.filter (fun r => S.contains r.1) ++ rows.filter (fun r => !S.contains r.1)).Perm rows :=
    List.filter_append_perm _ rows
  refine ⟨rows, _, _, hl, ho, he, hperm, ?_, ?_, ?_, ?_⟩
  · rw [← hr2]; exact hperm.map _
  · have := hperm.length_eq
    rw [List.length_append] at this
    rw [this, ← (specOrder_perm ops).2.1, ← hr2, List.length_map]
  · intro r h1 h2
    simp [List.mem_filter] at h1 h2
    exact h2.2 h1.2
  · intro o ho'
    have hos : o ∈ specOrder ops := ((specOrder_perm ops).1 o).mpr ho'
    -- every listed row is `(baseId o', o')`
    have hrows : rows = (specOrder ops).map (fun o => (baseId o, o)) := by
      have := (select_exact ops hnd htf S).1
      rw [hl] at this
      exact Option.some.inj this
    subst hrows
    by_cases hS : baseId o ∈ S
    · left
      refine ⟨?_, ?_⟩
      · simp only [List.mem_map, List.mem_filter]
        exact ⟨(baseId o, o), ⟨⟨o, hos, rfl⟩, List.contains_iff_mem.mpr hS⟩, rfl⟩
      · simp only [List.mem_map, List.mem_filter]
        rintro ⟨r, ⟨⟨o', _, rfl⟩, hn⟩, hro⟩
        simp only at hro hn
        subst hro
        simp [hS] at hn
    · right
      refine ⟨?_, ?_⟩
      · simp only [List.mem_map, List.mem_filter]
        rintro ⟨r, ⟨⟨o', _, rfl⟩, hn⟩, hro⟩
        simp only at hro hn
        subst hro
        simp [hS] at hn
      · simp only [List.mem_map, List.mem_filter]
        exact ⟨(baseId o, o), ⟨⟨o, hos, rfl⟩, by simp [hS]⟩, rfl⟩

/-! ### 5. decidable reformulation of `TrimFree` and non-vacuity -/

def trimFreeB (ids : List Id) : Bool := (subseqs ids).all (fun l => trim l == l)

theorem trimFree_of_trimFreeB {ids : List Id} (h : trimFreeB ids = true) : TrimFree ids := by
  intro l hl
  have := List.all_eq_true.mp h l (mem_subseqs_of_sublist hl)
  simpa using this

/-- three operations with no common prefix/suffix segment among any sub-selection -/
def okOps : List Op :=
  [ { method := "GET".toList,  path := "/a".toList, operationId := some "alpha".toList },
    { method := "POST".toList, path := "/b".toList, operationId := some "beta".toList },
    { method := "GET".toList,  path := "/c".toList, operationId := some "gamma_delta".toList } ]

theorem okOps_ids :
    (specOrder okOps).map baseId = ["alpha".toList, "beta".toList, "gamma_delta".toList] := by
  decide +kernel

theorem okOps_nodup : ((specOrder okOps).map baseId).Nodup := by
  rw [okOps_ids]; decide

theorem okOps_trimFree : TrimFree ((specOrder okOps).map baseId) := by
  apply trimFree_of_trimFreeB
  rw [okOps_ids]
  decide +kernel

/-- the hypotheses of `select_exact` are satisfiable, and its conclusion is what the model computes -/
theorem select_exact_nonvacuous :
    listIds okOps = some (okOps.map (fun o => (baseId o, o))) ∧
    build { only := some ["beta".toList], excluded := none } okOps =
      some [("beta".toList, { method := "POST".toList, path := "/b".toList, operationId := some "beta".toList })] ∧
    (build { only := none, excluded := some ["beta".toList] } okOps).map (·.map (·.1)) =
      some ["alpha".toList, "gamma_delta".toList] := by
  obtain ⟨h1, h2, h3⟩ := select_exact okOps okOps_nodup okOps_trimFree ["beta".toList]
  refine ⟨?_, ?_, ?_⟩
  · rw [h1]; decide +kernel
  · rw [h2]; decide +kernel
  · rw [h3]; decide +kernel

/-! ### 4. recorded defects, reproduced by the model (the unconditional property is FALSE) -/

def trimOps : List Op :=
  [ { method := "GET".toList, path := "/u".toList,      operationId := some "api_users_list".toList },
    { method := "GET".toList, path := "/u/{id}".toList, operationId := some "api_users_get".toList } ]

/-- `list` prints the TRIMMED ids `list`, `get`; an id copied from that output selects nothing,
while the untrimmed base id (never printed) does select the operation. -/
theorem cex_trim :
    (listIds trimOps).map (·.map (·.1)) = some ["list".toList, "get".toList] ∧
    build { only := some ["get".toList], excluded := none } trimOps = some [] ∧
    build { only := some ["api_users_get".toList], excluded := none } trimOps =
      some [("api_users_get".toList,
             { method := "GET".toList, path := "/u/{id}".toList, operationId := some "api_users_get".toList })] := by
  decide +kernel

def dupOps : List Op :=
  [ { method := "GET".toList,  path := "/a".toList, operationId := some "x".toList },
    { method := "POST".toList, path := "/a".toList, operationId := some "x".toList } ]

/-- two operations sharing an `operationId` are listed as `x`, `x_2`; `--only x` yields BOTH,
`--only x_2` yields none (the filter sees the base id, before the uniquifying suffix). -/
theorem cex_suffix :
    (listIds dupOps).map (·.map (·.1)) = some ["x".toList, "x_2".toList] ∧
    (build { only := some ["x".toList], excluded := none } dupOps).map (·.map (·.1)) =
      some ["x".toList, "x_2".toList] ∧
    build { only := some ["x_2".toList], excluded := none } dupOps = some [] := by
  decide +kernel

def nonIdentOps : List Op :=
  [ { method := "GET".toList,    path := "/a".toList,    operationId := some "a".toList },
    { method := "DELETE".toList, path := "/pets".toList, operationId := some "a_2".toList },
    { method := "PUT".toList,    path := "/pets".toList, operationId := some "a_2".toList } ]

/-- `--exclude a` leaves `a_2`, `a_2_2`, whose common prefix segment `a` is trimmed: the resulting
ids `2` and `2_2` are not identifiers (the real generator panics). -/
theorem cex_trim_nonident :
    (listIds nonIdentOps).map (·.map (·.1)) = some ["a".toList, "a_2".toList, "a_2_2".toList] ∧
    (build { only := none, excluded := some ["a".toList] } nonIdentOps).map (·.map (·.1)) =
      some ["2".toList, "2_2".toList] ∧
    Oas3.Naming.identShape "2".toList = false ∧ Oas3.Naming.identShape "2_2".toList = false := by
  decide +kernel

/-- the hypotheses of `select_exact` cannot be dropped: "`--only S` = listed rows with printed id
in `S`" fails for some spec and some `S` taken from the printed ids. -/
theorem exactness_fails_unconditionally :
    ¬ ∀ (ops : List Op) (S : List Id) (rows : List (Id × Op)), listIds ops = some rows →
        build { only := some S, excluded := none } ops = some (rows.filter (fun r => S.contains r.1)) := by
  intro h
  have := h trimOps ["get".toList] _ (by decide +kernel : listIds trimOps = some
    [("list".toList, { method := "GET".toList, path := "/u".toList, operationId := some "api_users_list".toList }),
     ("get".toList, { method := "GET".toList, path := "/u/{id}".toList, operationId := some "api_users_get".toList })])
  revert this
  decide +kernel

end Oas3.Props.C08
