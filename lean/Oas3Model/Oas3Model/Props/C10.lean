import Oas3Model.Model.Graph
import Oas3Model.Proofs.Graph
/-
C10: every by-value cycle is broken by a `Box`.
-/
namespace Oas3.Props.C10
open Oas3.Graph

/-- if the by-value containment relation `B` is a sub-relation of the dependency relation `E` and
never targets a node on an `E`-cycle (those references are boxed), then `B` has no cycle:
every generated type has finite size -/
theorem box_breaks_cycles {α : Type} (E B : α → α → Prop)
    (sub : ∀ a b, B a b → E a b) (boxed : ∀ a b, B a b → ¬ OnCycle E b) :
    ∀ v, ¬ OnCycle B v := by
  intro v hv
  -- the cycle through `v` passes through the target `w` of its first edge, which is on a `B`-cycle
  obtain ⟨w, hvw, hw⟩ := OnCycle.first_target hv
  -- a `B`-cycle is an `E`-cycle
  exact boxed v w hvw (TC.mono sub hw)

/-- the executable cycle test agrees with the spec-level notion -/
theorem cyclic_spec (deps : List (Name × List Name)) (v : Name) (b : Bool) :
    cyclic deps v = some b → (b = true ↔ OnCycle (Edge deps) v) := by
  intro h
  unfold cyclic at h
  split at h
  · rename_i R hR
    have hb : R.contains v = b := by simpa using h
    subst hb
    rw [List.contains_iff_mem, close_spec deps _ _ R hR v]
    simp only [mem_dedup]
    unfold OnCycle
    rw [TC.head_iff]
    exact Iff.rfl
  · cases h

/-- the fuel `(nodes deps).length + 2` always suffices -/
theorem cyclic_total (deps : List (Name × List Name)) (v : Name) :
    (cyclic deps v).isSome = true := by
  have h := cyclic_close_total deps v
  unfold cyclic
  split
  · rfl
  · rename_i hn
    rw [hn] at h
    cases h

/-- hence `cyclic` is a total decision procedure for "lies on a dependency cycle" -/
theorem cyclic_decides (deps : List (Name × List Name)) (v : Name) :
    ∃ b, cyclic deps v = some b ∧ (b = true ↔ OnCycle (Edge deps) v) := by
  have h := cyclic_total deps v
  cases hc : cyclic deps v with
  | none => rw [hc] at h; cases h
  | some b => exact ⟨b, rfl, cyclic_spec deps v b hc⟩

/-- the by-value relation kept by the generator: dependency edges whose target is not flagged cyclic
(edges into flagged nodes are boxed) -/
def ByValue (deps : List (Name × List Name)) (a b : Name) : Prop :=
  Edge deps a b ∧ cyclic deps b = some false

/-- keeping by value only the references to non-cyclic schemas leaves no by-value cycle -/
theorem boxed_refs_acyclic (deps : List (Name × List Name)) :
    ∀ v, ¬ OnCycle (fun a b => Edge deps a b ∧ cyclic deps b = some false) v := by
  apply box_breaks_cycles (Edge deps)
  · exact fun a b h => h.1
  · intro a b h hc
    have := (cyclic_spec deps b false h.2).2 hc
    cases this

/-! ## non-vacuity: a mutually recursive pair `A ↔ B`, a self-loop `S`, and a leaf -/

def nA : Name := ['A']
def nB : Name := ['B']
def nL : Name := ['L']
def nS : Name := ['S']

def exSchemas : List (Name × S) :=
  [ (nA, .obj [.ref nB, .ref nL] [] [] [] none none),
    (nB, .obj [] [] [] [] (some (.ref nA)) none),
    (nL, .obj [] [] [] [] none none),
    (nS, .obj [.obj [.ref nS] [] [] [] none none] [] [] [] none none) ]

def exDeps : List (Name × List Name) :=
  [ (nA, [nB, nL]), (nB, [nA]), (nL, []), (nS, [nS]) ]

theorem ex_depsOf : depsOf exSchemas = exDeps := by decide

theorem ex_cyclic_A : cyclic exDeps nA = some true := by decide
theorem ex_cyclic_B : cyclic exDeps nB = some true := by decide
theorem ex_cyclic_leaf : cyclic exDeps nL = some false := by decide
theorem ex_cyclic_self : cyclic exDeps nS = some true := by decide
theorem ex_cyclic_unknown : cyclic exDeps ['Z'] = some false := by decide

/-- the hypotheses of `box_breaks_cycles` are satisfiable with a non-empty `B`:
`A → L` is kept by value, and `A`, `B` really are on a cycle -/
theorem ex_byValue_nonempty : ByValue exDeps nA nL := by
  refine ⟨?_, ex_cyclic_leaf⟩
  unfold Edge
  decide

theorem ex_A_onCycle : OnCycle (Edge exDeps) nA :=
  (cyclic_spec exDeps nA true ex_cyclic_A).1 rfl

theorem ex_leaf_not_onCycle : ¬ OnCycle (Edge exDeps) nL := by
  intro h
  have := (cyclic_spec exDeps nL false ex_cyclic_leaf).2 h
  cases this

end Oas3.Props.C10
