import Oas3Model.Model.Graph
import Oas3Model.Proofs.Graph
/-
C10: every by-value cycle is broken by a `Box`.
-/
namespace Oas3.Props.C10
open Oas3.Graph

/-- if the by-value containment relation `B` is a sub-relation of the dependency relation `E` and
never targets a node on an `E`-cycle (those references are boxed), then `B` has no cycle:
every generated type has finite size -/
theorem box_breaks_cycles {α : Type} (E B : α → α → Prop)
    (sub : ∀ a b, B a b → E a b) (boxed : ∀ a b, B a b → ¬ OnCycle E b) :
    ∀ v, ¬ OnCycle B v := by
  intro v hv
  -- the cycle through `v` passes through the target `w` of its first edge, which is on a `B`-cycle
  obtain ⟨w, hvw, hw⟩ := OnCycle.first_target hv
  -- a `B`-cycle is an `E`-cycle
  exact boxed v w hvw (TC.mono sub hw)

/-- the executable cycle test agrees with the spec-level notion -/
theorem cyclic_spec (deps : List (Name × List Name)) (v : Name) (b : Bool) :
    cyclic deps v = some b → (b = true ↔ OnCycle (Edge deps) v) := by
  intro h
  unfold cyclic at h
  split at h
  · rename_i R hR
    have hb : R.contains v = b := by simpa using h
    subst hb
    rw [List.contains_iff_mem, close_spec deps _ _ R hR v]
    simp only [mem_dedup]
    unfold OnCycle
    rw [TC.head_iff]
    exact Iff.rfl
  · cases h

/-- the fuel `(nodes deps).length + 2` always suffices -/
theorem cyclic_total (deps : List (Name × List Name)) (v : Name) :
    (cyclic deps v).isSome = true := by
  have h := cyclic_close_total deps v
  unfold cyclic
  split
  · rfl
  · rename_i hn
    rw [hn] at h
    cases h

/-- hence `cyclic` is a total decision procedure for "lies on a dependency cycle" -/
theorem cyclic_decides (deps : List (Name × List Name)) (v : Name) :
    ∃ b, cyclic deps v = some b ∧ (b = true ↔ OnCycle (Edge deps) v) := by
  have h := cyclic_total deps v
  cases hc : cyclic deps v with
  | none => rw [hc] at h; cases h
  | some b => exact ⟨b, rfl, cyclic_spec deps v b hc⟩

/-- the by-value relation kept by the generator: dependency edges whose target is not flagged cyclic
(edges into flagged nodes are boxed) -/
def ByValue (deps : List (Name × List Name)) (a b : Name) : Prop :=
  Edge deps a b ∧ cyclic deps b = some false

/-- keeping by value only the references to non-cyclic schemas leaves no by-value cycle -/
theorem boxed_refs_acyclic (deps : List (Name × List Name)) :
    ∀ v, ¬ OnCycle (fun a b => Edge deps a b ∧ cyclic deps b = some false) v := by
  apply box_breaks_cycles (Edge deps)
  · exact fun a b h => h.1
  · intro a b h hc
    have := (cyclic_spec deps b false h.2).2 hc
    cases this

/-! ## the emitted type graph: every cycle passes through an indirection -/

/-- by-value containment between emitted types (entry-wise: also when a name is defined twice) -/
def HoldsByValue (g : EGraph) (a b : Name) : Prop := ∃ p ∈ valueDeps g, p.1 = a ∧ b ∈ p.2

theorem rankOk_spec (d : List (Name × List Name)) (r : Name → Nat) (h : rankOk d r = true) :
    ∀ p ∈ d, ∀ b ∈ p.2, r b < r p.1 := by
  intro p hp b hb
  unfold rankOk at h
  rw [List.all_eq_true] at h
  have h1 := h p hp
  rw [List.all_eq_true] at h1
  simpa using h1 b hb

/-- a relation that admits a strictly decreasing rank has no cycle … -/
theorem ranked_no_cycle {α : Type} {r : α → α → Prop} (rank : α → Nat)
    (hr : ∀ a b, r a b → rank b < rank a) : ∀ v, ¬ OnCycle r v := by
  have key : ∀ a b, TC r a b → rank b < rank a := by
    intro a b h
    induction h with
    | base h => exact hr _ _ h
    | step h _ ih => exact Nat.lt_trans ih (hr _ _ h)
  intro v hv
  exact Nat.lt_irrefl _ (key v v hv)

/-- … and every descent along it ends: the size of a type is a well-founded recursion over what it holds by
value (this is what rustc's layout computation needs) -/
theorem ranked_wf {α : Type} {r : α → α → Prop} (rank : α → Nat)
    (hr : ∀ a b, r a b → rank b < rank a) : ∀ v, Acc (fun b a => r a b) v := by
  have key : ∀ n v, rank v < n → Acc (fun b a => r a b) v := by
    intro n
    induction n with
    | zero => intro v h; exact absurd h (Nat.not_lt_zero _)
    | succ n ih =>
      intro v hv
      refine Acc.intro v ?_
      intro b hb
      exact ih b (Nat.lt_of_lt_of_le (hr v b hb) (Nat.le_of_lt_succ hv))
  intro v
  exact key (rank v + 1) v (Nat.lt_succ_self _)

/-- soundness of the decidable predicate w.r.t. finite size: it yields a layout order -/
theorem emitted_cycle_has_indirection_sound (g : EGraph) (h : emittedCycleHasIndirection g = true) :
    ∃ rank : Name → Nat, ∀ a b, HoldsByValue g a b → rank b < rank a := by
  refine ⟨layoutRank g, ?_⟩
  rintro a b ⟨p, hp, rfl, hb⟩
  exact rankOk_spec _ _ h p hp b hb

theorem emitted_cycle_has_indirection_no_cycle (g : EGraph) (h : emittedCycleHasIndirection g = true) :
    ∀ v, ¬ OnCycle (HoldsByValue g) v := by
  obtain ⟨rank, hr⟩ := emitted_cycle_has_indirection_sound g h
  exact ranked_no_cycle rank hr

theorem emitted_cycle_has_indirection_finite_size (g : EGraph) (h : emittedCycleHasIndirection g = true) :
    ∀ v, Acc (fun b a => HoldsByValue g a b) v := by
  obtain ⟨rank, hr⟩ := emitted_cycle_has_indirection_sound g h
  exact ranked_wf rank hr

theorem edge_holdsByValue (g : EGraph) (a b : Name) (h : Edge (valueDeps g) a b) : HoldsByValue g a b := by
  unfold Edge succ at h
  split at h
  · rename_i p hp
    have hm := List.mem_of_find?_eq_some hp
    have he := List.find?_some hp
    exact ⟨p, hm, by simpa using he, h⟩
  · cases h

/-- the two tests of the judge agree in the direction that matters: with a rank certificate the cycle test
(`cyclic` on the by-value edges) finds nothing -/
theorem sizeCycles_empty_of_indirection (g : EGraph) (h : emittedCycleHasIndirection g = true) :
    sizeCycles g = [] := by
  unfold sizeCycles
  rw [List.filter_eq_nil_iff]
  intro n _
  obtain ⟨b, hb, hiff⟩ := cyclic_decides (valueDeps g) n
  cases b with
  | false => simp [hb]
  | true =>
    exact absurd (TC.mono (edge_holdsByValue g) (hiff.1 rfl)) (emitted_cycle_has_indirection_no_cycle g h n)

/-! ### witness: a union that is NOT on a dependency cycle, held by value by a recursive struct

`ReplyTarget = oneOf[$ref Comment, string]`; `Comment.in_reply_to` repeats that union inline and is typed
`Option<ReplyTarget>` through the schema-identity cache.  The dependency graph has `Comment → Comment` and
`ReplyTarget → Comment` only: the union is not flagged, and the by-value edge `Comment → ReplyTarget` is not a
dependency edge at all (so `box_breaks_cycles` does not apply to it).  The ONE indirection on the emitted cycle is
the `Box` of the variant, which the rule puts there because `Comment` is flagged. -/

def nComment : Name := "Comment".toList
def nReply : Name := "ReplyTarget".toList
def strMember : S := .obj [] [] [] [] none none

def replySchemas : List (Name × S) :=
  [ (nComment, .obj [.obj [] [.ref nComment, strMember] [] [] none none] [] [] [] none none),
    (nReply, .obj [] [.ref nComment, strMember] [] [] none none) ]

theorem wit_reply_deps : depsOf replySchemas = [(nComment, [nComment]), (nReply, [nComment])] := by decide
theorem wit_union_not_on_cycle : cyclic (depsOf replySchemas) nReply = some false := by decide
theorem wit_struct_on_cycle : cyclic (depsOf replySchemas) nComment = some true := by decide
theorem wit_variant_boxed : expectBoxed (depsOf replySchemas) false nComment = some true := by decide
theorem wit_byvalue_edge_not_a_dep : nReply ∉ succ (depsOf replySchemas) nComment := by decide

/-- as emitted: `struct Comment { in_reply_to: Option<ReplyTarget> }`, `enum ReplyTarget { Comment(Box<Comment>), String(String) }` -/
def gReplyBoxed : EGraph := [(nComment, [⟨nReply, [.option]⟩]), (nReply, [⟨nComment, [.box]⟩])]
/-- the variant payload held directly -/
def gReplyFlat : EGraph := [(nComment, [⟨nReply, [.option]⟩]), (nReply, [⟨nComment, [.value]⟩])]

theorem wit_reply_boxed_ok : emittedCycleHasIndirection gReplyBoxed = true ∧ sizeCycles gReplyBoxed = [] := by decide
theorem cex_reply_flat : emittedCycleHasIndirection gReplyFlat = false ∧ sizeCycles gReplyFlat = [nComment, nReply] := by decide
/-- the cycle itself, through the union that is not flagged -/
theorem cex_reply_flat_cycle : OnCycle (HoldsByValue gReplyFlat) nComment :=
  .step (b := nReply) ⟨(nComment, [nReply]), by decide, rfl, by decide⟩
    (.base ⟨(nReply, [nComment]), by decide, rfl, by decide⟩)
/-- wrappers nest: `Option<Vec<Box<T>>>` and `Vec<T>` are indirections, `Option<Option<T>>` is not -/
theorem wit_via : (EEdge.mk nComment [.option, .vec, .box]).byValue = false ∧ (EEdge.mk nComment [.vec]).byValue = false ∧
    (EEdge.mk nComment [.option, .option]).byValue = true ∧ (EEdge.mk nComment []).byValue = true := by decide

/-! ## untagged unions: declaration order is matching order -/

/-- the chosen variant is the FIRST one that accepts -/
theorem chooseVariant_first (pre : List UVariant) (v : UVariant) (post : List UVariant) (keys : List Name)
    (hpre : ∀ w ∈ pre, w.accepts keys = false) (hv : v.accepts keys = true) :
    chooseVariant (pre ++ v :: post) keys = some v := by
  unfold chooseVariant
  induction pre with
  | nil => simp [hv]
  | cons w r ih =>
    have hw : w.accepts keys = false := hpre w (List.mem_cons_self ..)
    simp only [List.cons_append, List.find?, hw]
    exact ih (fun x hx => hpre x (List.mem_cons_of_mem _ hx))

/-- a document of member `v` (all its keys are members of `v`) survives whenever no variant declared before `v`
accepts it: in particular in EVERY order when the members exclude each other through required members -/
theorem keysPreserved_of_first (pre : List UVariant) (v : UVariant) (post : List UVariant) (keys : List Name)
    (hpre : ∀ w ∈ pre, w.accepts keys = false) (hv : v.accepts keys = true)
    (hk : keys.all v.wires.contains = true) : keysPreserved (pre ++ v :: post) keys = true := by
  unfold keysPreserved
  rw [chooseVariant_first pre v post keys hpre hv]
  exact hk

def vOperation : UVariant := { payload := "Operation".toList, required := ["op".toList], wires := ["op".toList, "left".toList, "right".toList] }
def vConstant : UVariant := { payload := "Constant".toList, required := [], wires := ["value".toList, "unit".toList] }
def opDoc : List Name := ["op".toList, "left".toList, "right".toList]

/-- `Expr = anyOf[Operation, Constant]`, `Constant` without required members: in spec order the recursive document
`{"op","left","right"}` is an `Operation` and comes back whole … -/
theorem wit_permissive_last : keysPreserved [vOperation, vConstant] opDoc = true := by decide
/-- … with the permissive member declared first it is read as an empty `Constant` and written back as `{}` -/
theorem cex_permissive_first : keysPreserved [vConstant, vOperation] opDoc = false ∧
    chooseVariant [vConstant, vOperation] opDoc = some vConstant := by decide
theorem wit_expected_order : expectedVariantOrder ["Operation".toList, "Constant".toList] ["Constant".toList, "Operation".toList] =
    ["Operation".toList, "Constant".toList] := by decide

/-! ## non-vacuity: a mutually recursive pair `A ↔ B`, a self-loop `S`, and a leaf -/

def nA : Name := ['A']
def nB : Name := ['B']
def nL : Name := ['L']
def nS : Name := ['S']

def exSchemas : List (Name × S) :=
  [ (nA, .obj [.ref nB, .ref nL] [] [] [] none none),
    (nB, .obj [] [] [] [] (some (.ref nA)) none),
    (nL, .obj [] [] [] [] none none),
    (nS, .obj [.obj [.ref nS] [] [] [] none none] [] [] [] none none) ]

def exDeps : List (Name × List Name) :=
  [ (nA, [nB, nL]), (nB, [nA]), (nL, []), (nS, [nS]) ]

theorem ex_depsOf : depsOf exSchemas = exDeps := by decide

theorem ex_cyclic_A : cyclic exDeps nA = some true := by decide
theorem ex_cyclic_B : cyclic exDeps nB = some true := by decide
theorem ex_cyclic_leaf : cyclic exDeps nL = some false := by decide
theorem ex_cyclic_self : cyclic exDeps nS = some true := by decide
theorem ex_cyclic_unknown : cyclic exDeps ['Z'] = some false := by decide

/-- the hypotheses of `box_breaks_cycles` are satisfiable with a non-empty `B`:
`A → L` is kept by value, and `A`, `B` really are on a cycle -/
theorem ex_byValue_nonempty : ByValue exDeps nA nL := by
  refine ⟨?_, ex_cyclic_leaf⟩
  unfold Edge
  decide

theorem ex_A_onCycle : OnCycle (Edge exDeps) nA :=
  (cyclic_spec exDeps nA true ex_cyclic_A).1 rfl

theorem ex_leaf_not_onCycle : ¬ OnCycle (Edge exDeps) nL := by
  intro h
  have := (cyclic_spec exDeps nL false ex_cyclic_leaf).2 h
  cases this

end Oas3.Props.C10
