import Oas3Model.Model.Server
import Oas3Model.Props.C04
import Oas3Model.Proofs.Interop
import Oas3Model.Proofs.ReqInterop
namespace Oas3.Props.C06
open Oas3.Server Oas3.Status Oas3.Resp

private def json (t : String) : MediaDecl := { ct := "application/json".toList, schema := some t.toList, custom := true }

/-- known defect reproduced by the model: `{200: A, default: E}` — the server sends `default` as 200,
which the client's chain answers with the `200` variant. -/
theorem cex_default_is_200 :
    let rs := [("200".toList, [json "A"]), ("default".toList, [json "E"])]
    (armsOf rs).map (fun a => (a.variant, a.status)) = [("Ok".toList, 200), ("Unknown".toList, 200)] ∧
    (chainOf rs).map (fun ch => (evalChain ch 200 "application/json".toList).variant) = some "Ok".toList := by
  decide +kernel

/-- `{200: A, 2XX: B}`: the range variant is sent with the first code of the range and is read back as `200`. -/
theorem cex_range_first_code :
    let rs := [("200".toList, [json "A"]), ("2XX".toList, [json "B"])]
    (armsOf rs).map (fun a => (a.variant, a.status)) = [("Ok".toList, 200), ("Success".toList, 200), ("Unknown".toList, 200)] ∧
    (chainOf rs).map (fun ch => (evalChain ch 200 "application/json".toList).variant) = some "Ok".toList := by
  decide +kernel

/-! ## client/server interop for exact status codes -/
open Oas3.Gen.Status (tokens)
open Oas3.Props.C04 (WF)

/-- an exact key for `c` among the declared keys is the key the property's reference picks for `c`
(no distinctness needed: a canonical exact key is determined by its value). -/
theorem specKey_exact {keys : List (List Char)} {k : List Char} {c : Nat} (hk : k ∈ keys)
    (he : exactKey k = some c) : specKey keys c = k :=
  Oas3.Proofs.Interop.specKey_exact hk he

/-- a variant declared under an exact status code is sent by the server with that code (C05) and parsed
by the client as the same variant (C04), for well-formed single-media responses objects. -/
theorem interop_exact (rs : List (List Char × List MediaDecl)) (hwf : WF rs)
    (ch : Chain) (hch : chainOf rs = some ch) (v : Variant) (hv : v ∈ variantsOf rs)
    (t : List Char) (c : Nat) (ht : v.tok = .named t) (htt : t ∈ tokens) (hc : code (.named t) = some c)
    (hkey : ∃ k ∈ rs.map (·.1), fromStr k = v.tok ∧ exactKey k = some c) :
    ∀ ct, (evalChain ch (httpStatus v.tok) ct).variant = v.name := by
  intro ct
  rw [(Oas3.Proofs.Interop.interop_exact_core rs hwf.1 hwf.2.1 hwf.2.2 ch hch v hv t c ht htt hc hkey ct).2,
    Oas3.Proofs.Status.extractOf_variant]

/-- the status on the wire is the declared code -/
theorem interop_exact_status
    (v : Variant) (t : List Char) (c : Nat) (ht : v.tok = .named t) (htt : t ∈ tokens)
    (hc : code (.named t) = some c) : httpStatus v.tok = c := by
  rw [ht]; exact Oas3.Proofs.Status.exact_status t htt c hc

/-- stronger form, without table hypotheses: ANY declared canonical exact key `k` (a named table token or the
numeric fallback `Unknown(c)`): the variant built from it is sent as `c`, and the client executes exactly
the case built for that variant — same variant, and it reads a payload iff the server sends one. -/
theorem interop_exact_key (rs : List (List Char × List MediaDecl)) (hwf : WF rs)
    (ch : Chain) (hch : chainOf rs = some ch) (v : Variant) (hv : v ∈ variantsOf rs)
    (k : List Char) (c : Nat) (hk : k ∈ rs.map (·.1)) (hkt : fromStr k = v.tok) (hke : exactKey k = some c) :
    httpStatus v.tok = c ∧ ∀ ct, evalChain ch (httpStatus v.tok) ct = extractOf (primaryCat v.medias) v ∧
      (evalChain ch (httpStatus v.tok) ct).variant = v.name ∧
      (evalChain ch (httpStatus v.tok) ct).payload = v.schemaType.isSome := by
  have hs : httpStatus v.tok = c := by rw [← hkt]; exact Oas3.Proofs.Interop.httpStatus_of_exactKey hke
  refine ⟨hs, fun ct => ?_⟩
  have hsk : specKey (rs.map (·.1)) c = k := specKey_exact hk hke
  have he := Oas3.Proofs.Interop.chain_of_key rs hwf.1 hwf.2.1 hwf.2.2 ch hch v hv c
    (by rw [hsk]; exact hk) (by rw [hsk]; exact hkt) ct
  rw [hs, he]
  exact ⟨rfl, Oas3.Proofs.Status.extractOf_variant _ _, Oas3.Proofs.Interop.extractOf_payload _ _⟩

/-- the same, stated on the server's `IntoResponse` arms: every arm whose variant comes from a declared
exact key round-trips (variant and payload presence). -/
theorem interop_exact_arm (rs : List (List Char × List MediaDecl)) (hwf : WF rs)
    (ch : Chain) (hch : chainOf rs = some ch) (a : Arm) (ha : a ∈ armsOf rs)
    (hkey : ∀ v ∈ variantsOf rs, v.name = a.variant → ∃ k ∈ rs.map (·.1), ∃ c, fromStr k = v.tok ∧ exactKey k = some c) :
    ∀ ct, (evalChain ch a.status ct).variant = a.variant ∧ (evalChain ch a.status ct).payload = a.json := by
  obtain ⟨v, hv, h1, h2, h3⟩ := Oas3.Proofs.Interop.arms_spec rs a ha
  obtain ⟨k, hk, c, hkt, hke⟩ := hkey v hv h1.symm
  intro ct
  have := (interop_exact_key rs hwf ch hch v hv k c hk hkt hke).2 ct
  rw [h1, h2, h3]
  exact ⟨this.2.1, this.2.2⟩

/-- the general composition: whenever the key answering `n` is declared and carries the token of `v`, the
client answers `n` with the case built for `v`. The two recorded defects above are exactly the situations
where the status the SERVER picks for `v` (`httpStatus v.tok`: 200 for `default`, first code for a range)
is answered by a different declared key. -/
theorem chain_of_key (rs : List (List Char × List MediaDecl)) (hwf : WF rs)
    (ch : Chain) (hch : chainOf rs = some ch) (v : Variant) (hv : v ∈ variantsOf rs) (n : Nat)
    (hk : specKey (rs.map (·.1)) n ∈ rs.map (·.1)) (ht : fromStr (specKey (rs.map (·.1)) n) = v.tok)
    (ct : List Char) : evalChain ch n ct = extractOf (primaryCat v.medias) v :=
  Oas3.Proofs.Interop.chain_of_key rs hwf.1 hwf.2.1 hwf.2.2 ch hch v hv n hk ht ct

/-- non-vacuity on the 4-key object of C04: both exact variants round-trip. -/
example : (chainOf Oas3.Props.C04.rs4).map (fun ch => (armsOf Oas3.Props.C04.rs4).map fun a =>
      (a.variant, a.status, (evalChain ch a.status "application/json".toList).variant)) =
    some [("Ok".toList, 200, "Ok".toList), ("NotFound".toList, 404, "NotFound".toList),
          ("ClientError".toList, 400, "ClientError".toList), ("Unknown".toList, 200, "Ok".toList)] := by
  decide +kernel

/-! ## request side: the client's encoding against the server's decoding (two separate generator runs)

Model: `Model/ReqInterop.lean`; lemmas: `Proofs/ReqInterop.lean`.  The facts (`OpFacts`) are read by the harness
from the two emitted halves (`interop.req`); the judge `reqInteropOk` is evaluated on them by the driver. -/
section Request
open Oas3.ReqInterop Oas3.Url Oas3.Path

/-- **route round trip** (unbounded, by induction over the segments): for every chain of literal / parameter /
prefixed-parameter segments whose literal text travels unchanged, and all parameter values with a non-empty
Display form, the route pattern derived from the same chain matches the segments the client emits and captures
exactly the pushed values in template order — raw, and equal to the values after the percent-decoding that
axum's `Path` extractor applies.  ('/' inside a value needs no side condition: `push` percent-encodes it.) -/
theorem route_roundtrip (key : Str → Str) (env : Str → List UInt8) (chain : List CSeg)
    (hs : ∀ c ∈ chain, c.safe = true) (hv : ∀ c ∈ chain, ∀ f ∈ c.fields, env f ≠ []) :
    routeMatch (chain.map (toAxum key)) (chain.map (clientRaw env)) = some (capsOf key env chain) ∧
    (capsOf key env chain).map (fun c => (c.1, pctDecode c.2)) =
      (chain.flatMap CSeg.fields).map fun f => (key f, env f) :=
  ⟨routeMatch_toAxum key env chain hs hv, capsOf_decode key env chain⟩

/-- the judge's path clause forces the server's pattern to be the one derived from the client's chain -/
theorem path_clause_sound (k : Str → Option Str) (chain : List CSeg) (pat : List PSeg) (h : pathOk k chain pat = true) :
    pat = chain.map (toAxum fun f => (k f).getD []) ∧ ∀ c ∈ chain, c.safe = true :=
  pathOk_sound k chain pat h

/-- **enum codec**: the decidable clause is exactly "every variant survives Display → transform → arms" -/
theorem enum_roundtrip_iff (vars : List Str) (e : Encoder) (d : Decoder) :
    enumOk vars e d = true ↔ ∀ v ∈ vars, ∃ s, display e v = some s ∧ fromStr d s = some v :=
  enumOk_iff vars e d

/-- a lower-casing scrutinee with arms that keep an upper-case letter loses the variant -/
theorem lowercase_breaks :
    let enc : Encoder := [("Desc".toList, "DESC".toList), ("Premium".toList, "Premium".toList), ("Asc".toList, "asc".toList)]
    let arms := [("DESC".toList, "Desc".toList), ("Premium".toList, "Premium".toList), ("asc".toList, "Asc".toList)]
    enumOk ["Desc".toList, "Premium".toList, "Asc".toList] enc ⟨[.asciiLower], arms, none⟩ = false ∧
    fromStr ⟨[.asciiLower], arms, none⟩ "Premium".toList = none ∧
    enumOk ["Desc".toList, "Premium".toList, "Asc".toList] enc ⟨[.id], arms, none⟩ = true := by
  decide

/-- the hand-written case-insensitive `Deserialize` (lower-cased scrutinee AND lower-cased arms) is fine -/
theorem lowercase_with_lowered_arms_ok :
    enumOk ["Desc".toList, "Premium".toList] [("Desc".toList, "DESC".toList), ("Premium".toList, "Premium".toList)]
      ⟨[.asciiLower], [("desc".toList, "Desc".toList), ("premium".toList, "Premium".toList)], none⟩ = true := by
  decide

/-- a fallback arm does not rescue a lost variant: it answers with ANOTHER variant -/
theorem fallback_is_not_roundtrip :
    fromStr ⟨[.asciiLower], [("DESC".toList, "Desc".toList), ("Premium".toList, "Premium".toList)], some "Desc".toList⟩ "Premium".toList
      = some "Desc".toList := by
  decide

/-- **trailing slash**: `/items` and `/items/` are different routes, in both directions; a client chain ending
in an empty segment never satisfies the judge against a pattern without it -/
theorem trailing_slash_significant :
    (parsePattern "/items".toList).bind (fun p => (segsOfPath "/items/".toList).bind (routeMatch p)) = none ∧
    (parsePattern "/items/".toList).bind (fun p => (segsOfPath "/items".toList).bind (routeMatch p)) = none ∧
    (parsePattern "/items/".toList).bind (fun p => (segsOfPath "/items/".toList).bind (routeMatch p)) = some [] ∧
    (parsePattern "/items".toList).bind (fun p => (segsOfPath "/items".toList).bind (routeMatch p)) = some [] ∧
    pathOk (fun _ => none) [.lit "items".toList, .lit []] [.lit "items".toList] = false := by
  decide

/-- a parameter that ends the route captures a NON-EMPTY remainder (one in the middle may capture the empty
string, as matchit 0.8.4 does); a static prefix in the same segment is allowed -/
theorem capture_nonempty :
    routeMatch [.lit "a".toList, .cap "x-".toList "id".toList] ["a".toList, "x-5".toList] = some [("id".toList, "5".toList)] ∧
    routeMatch [.lit "a".toList, .cap "x-".toList "id".toList] ["a".toList, "x-".toList] = none ∧
    routeMatch [.lit "a".toList, .cap [] "id".toList] ["a".toList, []] = none ∧
    routeMatch [.cap [] "id".toList, .lit "b".toList] [[], "b".toList] = some [("id".toList, [])] := by
  decide

/-- matchit 0.8.4 rejects text after a parameter in the same segment (and two parameters in one segment):
the generated `router()` panics at start-up for such a template (recorded as `KnownParamSuffixSegment`) -/
theorem param_suffix_rejected :
    parsePattern "/files/{name}.json".toList = none ∧ parsePattern "/v/{a}:{b}".toList = none ∧
    parsePattern "/a/x-{id}".toList = some [.lit "a".toList, .cap "x-".toList "id".toList] := by
  decide

/-- a capture named after the RAW identifier (`{r#type}`) is not the key the path struct deserialises
(`type`): the judge's path clause fails (recorded as `KnownRawIdentCapture`) -/
theorem raw_ident_capture_breaks :
    pathOk (fun f => if f = "r#type".toList then some "type".toList else none) [.param "r#type".toList] [.cap [] "r#type".toList] = false ∧
    pathOk (fun f => if f = "r#type".toList then some "type".toList else none) [.param "r#type".toList] [.cap [] "type".toList] = true := by
  decide

/-- literal text that `push` percent-encodes does not match the un-encoded pattern text (axum routes on the
raw path): recorded as `KnownLiteralNeedsEncoding` -/
theorem literal_needing_encoding_breaks :
    urlSafe "a b".toList = false ∧ urlSafe "items".toList = true ∧
    routeMatch [.lit "a b".toList] [clientRaw (fun _ => []) (.lit "a b".toList)] = none := by
  decide

/-- header names are matched ASCII-case-insensitively, query keys exactly -/
theorem name_rules :
    headerNameEq "X-Trace".toList "x-trace".toList = true ∧ headerNameEq "x-trace".toList "x-trac".toList = false := by
  decide

/-- **judge soundness**: when `reqInteropOk` accepts the facts of an operation, then for ALL request values
(path values with a non-empty Display form) the modelled server-side extraction applied to the modelled
client request yields exactly the values sent — same handler (method, route, body extractor), path captures
bound to the server's own deserialisation keys, every header / query value found under the name the server
looks up — and every variant of every enum that travels as a parameter survives its codec pair. -/
theorem req_interop_sound (f : OpFacts) (h : reqInteropOk f = true) (v : ReqVal)
    (hv : ∀ c ∈ f.chain, ∀ fld ∈ c.fields, v.path fld ≠ []) :
    serverExtract f (clientRequest f v) = some (expected f v) ∧
    (∀ u ∈ f.enums, ∀ x ∈ u.vars, ∃ s, display u.enc x = some s ∧ fromStr u.dec s = some x) :=
  reqInteropOk_sound f h v hv

end Request

end Oas3.Props.C06
