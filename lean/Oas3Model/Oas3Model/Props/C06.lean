import Oas3Model.Model.Server
import Oas3Model.Props.C04
import Oas3Model.Proofs.Interop
namespace Oas3.Props.C06
open Oas3.Server Oas3.Status Oas3.Resp

private def json (t : String) : MediaDecl := { ct := "application/json".toList, schema := some t.toList, custom := true }

/-- known defect reproduced by the model: `{200: A, default: E}` — the server sends `default` as 200,
which the client's chain answers with the `200` variant. -/
theorem cex_default_is_200 :
    let rs := [("200".toList, [json "A"]), ("default".toList, [json "E"])]
    (armsOf rs).map (fun a => (a.variant, a.status)) = [("Ok".toList, 200), ("Unknown".toList, 200)] ∧
    (chainOf rs).map (fun ch => (evalChain ch 200 "application/json".toList).variant) = some "Ok".toList := by
  decide +kernel

/-- `{200: A, 2XX: B}`: the range variant is sent with the first code of the range and is read back as `200`. -/
theorem cex_range_first_code :
    let rs := [("200".toList, [json "A"]), ("2XX".toList, [json "B"])]
    (armsOf rs).map (fun a => (a.variant, a.status)) = [("Ok".toList, 200), ("Success".toList, 200), ("Unknown".toList, 200)] ∧
    (chainOf rs).map (fun ch => (evalChain ch 200 "application/json".toList).variant) = some "Ok".toList := by
  decide +kernel

/-! ## client/server interop for exact status codes -/
open Oas3.Gen.Status (tokens)
open Oas3.Props.C04 (WF)

/-- an exact key for `c` among the declared keys is the key the property's reference picks for `c`
(no distinctness needed: a canonical exact key is determined by its value). -/
theorem specKey_exact {keys : List (List Char)} {k : List Char} {c : Nat} (hk : k ∈ keys)
    (he : exactKey k = some c) : specKey keys c = k :=
  Oas3.Proofs.Interop.specKey_exact hk he

/-- a variant declared under an exact status code is sent by the server with that code (C05) and parsed
by the client as the same variant (C04), for well-formed single-media responses objects. -/
theorem interop_exact (rs : List (List Char × List MediaDecl)) (hwf : WF rs)
    (ch : Chain) (hch : chainOf rs = some ch) (v : Variant) (hv : v ∈ variantsOf rs)
    (t : List Char) (c : Nat) (ht : v.tok = .named t) (htt : t ∈ tokens) (hc : code (.named t) = some c)
    (hkey : ∃ k ∈ rs.map (·.1), fromStr k = v.tok ∧ exactKey k = some c) :
    ∀ ct, (evalChain ch (httpStatus v.tok) ct).variant = v.name := by
  intro ct
  rw [(Oas3.Proofs.Interop.interop_exact_core rs hwf.1 hwf.2.1 hwf.2.2 ch hch v hv t c ht htt hc hkey ct).2,
    Oas3.Proofs.Status.extractOf_variant]

/-- the status on the wire is the declared code -/
theorem interop_exact_status
    (v : Variant) (t : List Char) (c : Nat) (ht : v.tok = .named t) (htt : t ∈ tokens)
    (hc : code (.named t) = some c) : httpStatus v.tok = c := by
  rw [ht]; exact Oas3.Proofs.Status.exact_status t htt c hc

/-- stronger form, without table hypotheses: ANY declared canonical exact key `k` (a named table token or the
numeric fallback `Unknown(c)`): the variant built from it is sent as `c`, and the client executes exactly
the case built for that variant — same variant, and it reads a payload iff the server sends one. -/
theorem interop_exact_key (rs : List (List Char × List MediaDecl)) (hwf : WF rs)
    (ch : Chain) (hch : chainOf rs = some ch) (v : Variant) (hv : v ∈ variantsOf rs)
    (k : List Char) (c : Nat) (hk : k ∈ rs.map (·.1)) (hkt : fromStr k = v.tok) (hke : exactKey k = some c) :
    httpStatus v.tok = c ∧ ∀ ct, evalChain ch (httpStatus v.tok) ct = extractOf (primaryCat v.medias) v ∧
      (evalChain ch (httpStatus v.tok) ct).variant = v.name ∧
      (evalChain ch (httpStatus v.tok) ct).payload = v.schemaType.isSome := by
  have hs : httpStatus v.tok = c := by rw [← hkt]; exact Oas3.Proofs.Interop.httpStatus_of_exactKey hke
  refine ⟨hs, fun ct => ?_⟩
  have hsk : specKey (rs.map (·.1)) c = k := specKey_exact hk hke
  have he := Oas3.Proofs.Interop.chain_of_key rs hwf.1 hwf.2.1 hwf.2.2 ch hch v hv c
    (by rw [hsk]; exact hk) (by rw [hsk]; exact hkt) ct
  rw [hs, he]
  exact ⟨rfl, Oas3.Proofs.Status.extractOf_variant _ _, Oas3.Proofs.Interop.extractOf_payload _ _⟩

/-- the same, stated on the server's `IntoResponse` arms: every arm whose variant comes from a declared
exact key round-trips (variant and payload presence). -/
theorem interop_exact_arm (rs : List (List Char × List MediaDecl)) (hwf : WF rs)
    (ch : Chain) (hch : chainOf rs = some ch) (a : Arm) (ha : a ∈ armsOf rs)
    (hkey : ∀ v ∈ variantsOf rs, v.name = a.variant → ∃ k ∈ rs.map (·.1), ∃ c, fromStr k = v.tok ∧ exactKey k = some c) :
    ∀ ct, (evalChain ch a.status ct).variant = a.variant ∧ (evalChain ch a.status ct).payload = a.json := by
  obtain ⟨v, hv, h1, h2, h3⟩ := Oas3.Proofs.Interop.arms_spec rs a ha
  obtain ⟨k, hk, c, hkt, hke⟩ := hkey v hv h1.symm
  intro ct
  have := (interop_exact_key rs hwf ch hch v hv k c hk hkt hke).2 ct
  rw [h1, h2, h3]
  exact ⟨this.2.1, this.2.2⟩

/-- the general composition: whenever the key answering `n` is declared and carries the token of `v`, the
client answers `n` with the case built for `v`. The two recorded defects above are exactly the situations
where the status the SERVER picks for `v` (`httpStatus v.tok`: 200 for `default`, first code for a range)
is answered by a different declared key. -/
theorem chain_of_key (rs : List (List Char × List MediaDecl)) (hwf : WF rs)
    (ch : Chain) (hch : chainOf rs = some ch) (v : Variant) (hv : v ∈ variantsOf rs) (n : Nat)
    (hk : specKey (rs.map (·.1)) n ∈ rs.map (·.1)) (ht : fromStr (specKey (rs.map (·.1)) n) = v.tok)
    (ct : List Char) : evalChain ch n ct = extractOf (primaryCat v.medias) v :=
  Oas3.Proofs.Interop.chain_of_key rs hwf.1 hwf.2.1 hwf.2.2 ch hch v hv n hk ht ct

/-- non-vacuity on the 4-key object of C04: both exact variants round-trip. -/
example : (chainOf Oas3.Props.C04.rs4).map (fun ch => (armsOf Oas3.Props.C04.rs4).map fun a =>
      (a.variant, a.status, (evalChain ch a.status "application/json".toList).variant)) =
    some [("Ok".toList, 200, "Ok".toList), ("NotFound".toList, 404, "NotFound".toList),
          ("ClientError".toList, 400, "ClientError".toList), ("Unknown".toList, 200, "Ok".toList)] := by
  decide +kernel

end Oas3.Props.C06
