import Oas3Model.Model.Server
namespace Oas3.Props.C06
open Oas3.Server Oas3.Status Oas3.Resp

private def json (t : String) : MediaDecl := { ct := "application/json".toList, schema := some t.toList, custom := true }

/-- known defect reproduced by the model: `{200: A, default: E}` — the server sends `default` as 200,
which the client's chain answers with the `200` variant. -/
theorem cex_default_is_200 :
    let rs := [("200".toList, [json "A"]), ("default".toList, [json "E"])]
    (armsOf rs).map (fun a => (a.variant, a.status)) = [("Ok".toList, 200), ("Unknown".toList, 200)] ∧
    (chainOf rs).map (fun ch => (evalChain ch 200 "application/json".toList).variant) = some "Ok".toList := by
  decide +kernel

/-- `{200: A, 2XX: B}`: the range variant is sent with the first code of the range and is read back as `200`. -/
theorem cex_range_first_code :
    let rs := [("200".toList, [json "A"]), ("2XX".toList, [json "B"])]
    (armsOf rs).map (fun a => (a.variant, a.status)) = [("Ok".toList, 200), ("Success".toList, 200), ("Unknown".toList, 200)] ∧
    (chainOf rs).map (fun ch => (evalChain ch 200 "application/json".toList).variant) = some "Ok".toList := by
  decide +kernel

end Oas3.Props.C06
