import Oas3Model.Model.Flags
namespace Oas3.Props.C18
open Oas3.Flags

/-- erasing the documented decorations gives back the wire skeleton, for every flag setting -/
theorem erase_decorate (cfg : Cfg) (battrs : FieldSk → List (List Char)) (t : TypeSk) :
    erase (decorate cfg battrs t) = t := by
  cases t
  simp [erase, decorate, List.map_map, Function.comp_def]

/-- hence two settings of the flags always erase to the same skeleton -/
theorem erase_cfg_independent (c₁ c₂ : Cfg) (b₁ b₂ : FieldSk → List (List Char)) (t : TypeSk) :
    erase (decorate c₁ b₁ t) = erase (decorate c₂ b₂ t) := by
  rw [erase_decorate, erase_decorate]

/-- every decorated item and field carries exactly the requested visibility -/
theorem decorate_vis (cfg : Cfg) (battrs : FieldSk → List (List Char)) (t : TypeSk) :
    (decorate cfg battrs t).vis = cfg.vis ∧ ∀ f ∈ (decorate cfg battrs t).fields, f.vis = cfg.vis := by
  constructor
  · rfl
  · intro f hf
    simp [decorate] at hf
    obtain ⟨g, _, rfl⟩ := hf
    rfl

/-- builder decorations appear only when builders are on -/
theorem no_builder_when_off (vis : Vis) (battrs : FieldSk → List (List Char)) (t : TypeSk) :
    (decorate ⟨vis, false⟩ battrs t).builderDerive = false ∧
    ∀ f ∈ (decorate ⟨vis, false⟩ battrs t).fields, f.builderAttrs = [] := by
  constructor
  · simp [decorate]
  · intro f hf
    simp [decorate] at hf
    obtain ⟨g, _, rfl⟩ := hf
    rfl

example : erase (decorate ⟨.crate, true⟩ (fun _ => ["builder(default = 3)".toList])
    { kind := "struct".toList, name := "Pet".toList, derives := ["Debug".toList], attrs := [], fields := [⟨"n".toList, "i64".toList, ["serde(rename = \"N\")".toList]⟩] })
    = { kind := "struct".toList, name := "Pet".toList, derives := ["Debug".toList], attrs := [], fields := [⟨"n".toList, "i64".toList, ["serde(rename = \"N\")".toList]⟩] } := by
  rw [erase_decorate]

end Oas3.Props.C18
