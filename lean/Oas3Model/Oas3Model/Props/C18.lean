import Oas3Model.Model.Flags
import Oas3Model.Gen.FlagSites
import Oas3Model.Proofs.Cache
namespace Oas3.Props.C18
open Oas3.Flags

/-- erasing the documented decorations gives back the wire skeleton, for every flag setting -/
theorem erase_decorate (cfg : Cfg) (battrs : FieldSk → List (List Char)) (t : TypeSk) :
    erase (decorate cfg battrs t) = t := by
  cases t
  simp [erase, decorate, List.map_map, Function.comp_def]

/-- hence two settings of the flags always erase to the same skeleton -/
theorem erase_cfg_independent (c₁ c₂ : Cfg) (b₁ b₂ : FieldSk → List (List Char)) (t : TypeSk) :
    erase (decorate c₁ b₁ t) = erase (decorate c₂ b₂ t) := by
  rw [erase_decorate, erase_decorate]

/-- every decorated item and field carries exactly the requested visibility -/
theorem decorate_vis (cfg : Cfg) (battrs : FieldSk → List (List Char)) (t : TypeSk) :
    (decorate cfg battrs t).vis = cfg.vis ∧ ∀ f ∈ (decorate cfg battrs t).fields, f.vis = cfg.vis := by
  constructor
  · rfl
  · intro f hf
    simp [decorate] at hf
    obtain ⟨g, _, rfl⟩ := hf
    rfl

/-- builder decorations appear only when builders are on -/
theorem no_builder_when_off (vis : Vis) (battrs : FieldSk → List (List Char)) (t : TypeSk) :
    (decorate ⟨vis, false⟩ battrs t).builderDerive = false ∧
    ∀ f ∈ (decorate ⟨vis, false⟩ battrs t).fields, f.builderAttrs = [] := by
  constructor
  · simp [decorate]
  · intro f hf
    simp [decorate] at hf
    obtain ⟨g, _, rfl⟩ := hf
    rfl

example : erase (decorate ⟨.crate, true⟩ (fun _ => ["builder(default = 3)".toList])
    { kind := "struct".toList, name := "Pet".toList, derives := ["Debug".toList], attrs := [], fields := [⟨"n".toList, "i64".toList, ["serde(rename = \"N\")".toList]⟩] })
    = { kind := "struct".toList, name := "Pet".toList, derives := ["Debug".toList], attrs := [], fields := [⟨"n".toList, "i64".toList, ["serde(rename = \"N\")".toList]⟩] } := by
  rw [erase_decorate]

/-! ## where the presentation flags are READ (regenerated table `Gen/FlagSites.lean`, tie T)

`--no-helpers`, `--enable-builders` and `--all-headers` reach the generator as `CodegenConfig::{no_helpers, enable_builders,
include_all_headers}`. The translator lists every read of these (accessor calls, the fields behind them, the policy enums)
in the CURRENT non-test sources together with what the read feeds. Each is reviewed here and given the ONE documented
decoration it decides; a read added anywhere else (or one of these feeding something else) breaks the proof. -/

inductive Effect
  | helperMethods    -- `let methods = if no_helpers { vec![] } else { constructors }`: inherent helper constructors only
  | builderDerive    -- `additional_derives` of a schema struct: `bon::Builder`
  | builderAttrs     -- `FieldDef::with_builder_attrs` on the fields of a schema struct: `#[builder(..)]` only
  | builderCtor      -- the `builder_method` of a request struct
  | headerConsts     -- `extend_component_headers`: header-name constants of component-level headers
  | wiring           -- definition of the accessor / mapping of the command-line switch onto the config
  deriving DecidableEq, Repr

open Oas3.Gen.FlagSites in
def justifiedReads : List ((List Char × List Char × List Char × List Char) × Effect) := [
  (("generator/converter/fields.rs".toList, "build_struct_fields".toList, "enable_builders".toList, "if:fields".toList), .builderAttrs),
  (("generator/converter/mod.rs".toList, "<top>".toList, "enum_helpers".toList, "other:ult)] pub enum_case: EnumCasePolicy, #[builder(default)] pub|enum_helpers|: EnumHelperPolicy, #[builder(".toList), .wiring),
  (("generator/converter/mod.rs".toList, "<top>".toList, "header_scope".toList, "other:ult)] pub schema_scope: SchemaScope, #[builder(default)] pub|header_scope|: HeaderScope, #[builder(defau".toList), .wiring),
  (("generator/converter/mod.rs".toList, "enable_builders".toList, "enable_builders.field".toList, "ret".toList), .wiring),
  (("generator/converter/mod.rs".toList, "include_all_headers".toList, "HeaderScope".toList, "other:self.header_scope ==|HeaderScope::All|} #[must_use] pub fn enable_bu".toList), .wiring),
  (("generator/converter/mod.rs".toList, "include_all_headers".toList, "header_scope".toList, "other:self.|header_scope|== HeaderScope::All } #[must_u".toList), .wiring),
  (("generator/converter/mod.rs".toList, "no_helpers".toList, "EnumHelperPolicy".toList, "other:self.enum_helpers ==|EnumHelperPolicy::Disable|} #[must_use] pub fn odata_sup".toList), .wiring),
  (("generator/converter/mod.rs".toList, "no_helpers".toList, "enum_helpers".toList, "other:self.|enum_helpers|== EnumHelperPolicy::Disable }".toList), .wiring),
  (("generator/converter/operations.rs".toList, "process_all".toList, "include_all_headers".toList, "if:self.extend_component_headers".toList), .headerConsts),
  (("generator/converter/relaxed_enum.rs".toList, "build_relaxed_enum_types".toList, "no_helpers".toList, "let:methods".toList), .helperMethods),
  (("generator/converter/requests.rs".toList, "build".toList, "enable_builders.field".toList, "let:builder_method".toList), .builderCtor),
  (("generator/converter/requests.rs".toList, "new".toList, "enable_builders".toList, "field:param_converter".toList), .builderCtor),
  (("generator/converter/structs.rs".toList, "build_struct".toList, "enable_builders".toList, "let:enable_builders".toList), .builderDerive),
  (("generator/converter/unions.rs".toList, "collect_union_variants".toList, "no_helpers".toList, "let:methods".toList), .helperMethods),
  (("ui/commands/generate.rs".toList, "create_orchestrator".toList, "EnumHelperPolicy".toList, "other:|EnumHelperPolicy::Disable|} else { EnumHelperPolicy::Gen".toList), .wiring),
  (("ui/commands/generate.rs".toList, "create_orchestrator".toList, "EnumHelperPolicy".toList, "other:|EnumHelperPolicy::Generate|}) .enum_deserialize(if self.c".toList), .wiring),
  (("ui/commands/generate.rs".toList, "create_orchestrator".toList, "HeaderScope".toList, "other:|HeaderScope::All|} else { HeaderScope::Referenc".toList), .wiring),
  (("ui/commands/generate.rs".toList, "create_orchestrator".toList, "HeaderScope".toList, "other:|HeaderScope::ReferencedOnly|}) .enable_builders(self.enabl".toList), .wiring),
  (("ui/commands/generate.rs".toList, "create_orchestrator".toList, "all_headers.field".toList, "other:) .header_scope(if self|.all_headers|{ HeaderScope::All } else { He".toList), .wiring),
  (("ui/commands/generate.rs".toList, "create_orchestrator".toList, "enable_builders.field".toList, "other:) .enable_builders(self|.enable_builders|) .customizations(self.customi".toList), .wiring),
  (("ui/commands/generate.rs".toList, "create_orchestrator".toList, "enum_helpers".toList, "other:) .|enum_helpers|(if self.no_helpers { EnumHelp".toList), .wiring),
  (("ui/commands/generate.rs".toList, "create_orchestrator".toList, "header_scope".toList, "other:) .|header_scope|(if self.all_headers { HeaderS".toList), .wiring),
  (("ui/commands/generate.rs".toList, "create_orchestrator".toList, "no_helpers.field".toList, "other:) .enum_helpers(if self|.no_helpers|{ EnumHelperPolicy::Disable } ".toList), .wiring)]

/-- every read of a presentation flag in the current sources is a reviewed one -/
theorem flag_reads_justified : ∀ r ∈ Oas3.Gen.FlagSites.reads, r ∈ justifiedReads.map (·.1) := by decide +kernel

/-- … and every reviewed read is still there (a decoration that stops consulting its flag is a change too) -/
theorem justified_reads_present : ∀ p ∈ justifiedReads, p.1 ∈ Oas3.Gen.FlagSites.reads := by decide +kernel

/-- the three switches are each consulted by the generator proper (not only wired through) -/
theorem each_flag_decides_something :
    (justifiedReads.any fun p => p.2 == .helperMethods) ∧ (justifiedReads.any fun p => p.2 == .builderDerive) ∧
    (justifiedReads.any fun p => p.2 == .builderAttrs) ∧ (justifiedReads.any fun p => p.2 == .builderCtor) ∧
    (justifiedReads.any fun p => p.2 == .headerConsts) := by decide +kernel

/-! ## why `--no-helpers` can rename a type (finding F18-2), on the cache model of C13 (`Model/Cache.lean`)

An inline schema that has a PRE-COMPUTED name gets it whoever asks first; one that has none (inline `items`, union variants,
`additionalProperties`) is named after the FIRST requester. Helper constructors make the generator convert the members of a
union early, so with and without `--no-helpers` the first requester of a shared inline item type differs. -/
section CacheOrder
open Oas3.Cache

private def fns : NameFns := { mkName := id, uniq := fun n used => if used.contains n then n ++ ['2'] else n }
private def rq (base : String) : Req := { c := "K".toList, relaxed := false, relaxedAnyOf := false, base := base.toList, forced := none, ekCheck := none, ek := none }

/-- a key without a pre-computed name is named by its first requester: the two conversion orders give different names -/
theorem cex_first_requester_names_the_type :
    ((rq "BetaEntry").run fns ((rq "ZedThing").run fns {}).1).2 = "ZedThing".toList ∧
    ((rq "ZedThing").run fns ((rq "BetaEntry").run fns {}).1).2 = "BetaEntry".toList := by decide +kernel

/-- with a pre-computed name (and no forced one) the requester's own base plays no part: for EVERY state in which the key is
not yet registered, every pair of requests for it gets the same name -/
theorem precomputed_name_ignores_requester (f : NameFns) (st : St) (c : Key) (p : Name) (b₁ b₂ : List Char)
    (hs : lookupA c st.s2t = none) (hp : lookupA c st.pre = some p) :
    (resolveInline f st c false false b₁ none none none).2 = (resolveInline f st c false false b₂ none none none).2 := by
  simp [resolveInline, hs, hp, St.prepare, Option.bind]

/-- … and once a key is registered, every later request gets the registered name, whatever it would have called the type -/
theorem registered_name_is_kept (f : NameFns) (st : St) (q : Req) (n : Name) (h : lookupA q.c st.s2t = some n) :
    (q.run f st).2 = n := by
  simp [Req.run, resolveInline, h]
end CacheOrder

end Oas3.Props.C18
