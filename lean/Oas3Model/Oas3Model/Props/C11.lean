import Oas3Model.Gen.HashSites
import Oas3Model.Model.Responses
namespace Oas3.Props.C11
open Oas3.Gen.HashSites

/-- iterations over hash containers that are known not to reach the output, each with its reason:
* `parsed_path.rs` `params`: the regex-level translator cannot tell the `Vec<FieldNameToken>` field
  `params` of `PathSegment::Mixed` from the `&HashMap` parameter of the same name; both hits are on the Vec.
* `responses.rs` `success_set`/`error_set`: collected into `ResponseTypes`, whose only consumer
  (`extract_metadata`) feeds `SerdeUsageRecorder::mark_response_iter`, a set-insert sink. -/
def justified : List (List Char × List Char × List Char) := [
  ("generator/ast/parsed_path.rs".toList, "params".toList, ".iter()".toList),
  ("generator/ast/parsed_path.rs".toList, "params".toList, "for-in".toList),
  ("generator/naming/responses.rs".toList, "error_set".toList, ".into_iter()".toList),
  ("generator/naming/responses.rs".toList, "success_set".toList, ".into_iter()".toList)]

/-- every iteration over a HashMap/HashSet found in the CURRENT non-test sources is one of the
justified ones: adding an iteration over a hash container anywhere breaks this proof. -/
theorem no_unjustified_hash_iteration : ∀ s ∈ iterations, s ∈ justified := by decide

end Oas3.Props.C11
