import Oas3Model.Gen.HashSites
import Oas3Model.Model.Responses
import Oas3Model.Proofs.Misc11
import Oas3Model.Proofs.CanonPerm
namespace Oas3.Props.C11
open Oas3.Gen.HashSites

/-- iterations over hash containers that are known not to reach the output, each with its reason:
* `parsed_path.rs` `params`: the regex-level translator cannot tell the `Vec<FieldNameToken>` field
  `params` of `PathSegment::Mixed` from the `&HashMap` parameter of the same name; both hits are on the Vec.
* `responses.rs` `success_set`/`error_set`: collected into `ResponseTypes`, whose only consumer
  (`extract_metadata`) feeds `SerdeUsageRecorder::mark_response_iter`, a set-insert sink. -/
def justified : List (List Char × List Char × List Char) := [
  ("generator/ast/parsed_path.rs".toList, "params".toList, ".iter()".toList),
  ("generator/ast/parsed_path.rs".toList, "params".toList, "for-in".toList),
  ("generator/naming/responses.rs".toList, "error_set".toList, ".into_iter()".toList),
  ("generator/naming/responses.rs".toList, "success_set".toList, ".into_iter()".toList)]

/-- every iteration over a HashMap/HashSet found in the CURRENT non-test sources is one of the
justified ones: adding an iteration over a hash container anywhere breaks this proof. -/
theorem no_unjustified_hash_iteration : ∀ s ∈ iterations, s ∈ justified := by decide

/-! ## order-independence of map construction

The parser stores every object in a `BTreeMap`; `Oas3.Resp.sortKeys` is the model of "insert the
key/value pairs in document order, read back in key order". -/
open Oas3.Resp

/-- any re-ordering of an object's members (distinct keys) yields the same map. -/
theorem sortKeys_perm {β} (l₁ l₂ : List (List Char × β)) (hp : l₁.Perm l₂) (hk : (l₁.map (·.1)).Nodup) :
    sortKeys l₁ = sortKeys l₂ :=
  Oas3.Proofs.Misc11.sortKeys_perm l₁ l₂ hp hk

/-- two lists in strictly increasing key order with the same members are equal (the canonical form is unique). -/
theorem sorted_ext {β} (l₁ l₂ : List (List Char × β))
    (h1 : l₁.Pairwise (fun p q => strLt p.1 q.1 = true)) (h2 : l₂.Pairwise (fun p q => strLt p.1 q.1 = true))
    (h : ∀ x, x ∈ l₁ ↔ x ∈ l₂) : l₁ = l₂ :=
  Oas3.Proofs.Misc11.ksorted_ext l₁ l₂ h1 h2 h

/-- with distinct keys nothing is overwritten: the map holds exactly the members of the object. -/
theorem mem_sortKeys_iff {β} (l : List (List Char × β)) (hk : (l.map (·.1)).Nodup) (p : List Char × β) :
    p ∈ sortKeys l ↔ p ∈ l :=
  Oas3.Proofs.Misc11.mem_sortKeys_iff hk p

/-- …and it is a permutation of them. -/
theorem sortKeys_perm_self {β} (l : List (List Char × β)) (hk : (l.map (·.1)).Nodup) : (sortKeys l).Perm l :=
  Oas3.Proofs.Misc11.sortKeys_perm_self l hk

/-- re-reading a map is the identity (holds for every input, duplicate keys included). -/
theorem sortKeys_idem {β} (l : List (List Char × β)) : sortKeys (sortKeys l) = sortKeys l :=
  Oas3.Proofs.Misc11.sortKeys_idem l

/-- an already sorted member list is kept as is. -/
theorem sortKeys_of_sorted {β} (l : List (List Char × β)) (h : l.Pairwise (fun p q => strLt p.1 q.1 = true)) :
    sortKeys l = l :=
  Oas3.Proofs.Misc11.sortKeys_of_sorted l h

/-- non-vacuity: three keys in two document orders give the same map, in key order. -/
example :
    sortKeys [("b".toList, 2), ("a".toList, 1), ("c".toList, 3)] = sortKeys [("c".toList, 3), ("b".toList, 2), ("a".toList, 1)] ∧
    sortKeys [("b".toList, 2), ("a".toList, 1), ("c".toList, 3)] = [("a".toList, 1), ("b".toList, 2), ("c".toList, 3)] := by
  decide +kernel

/-- the same instance through the general theorem -/
example : sortKeys [("b".toList, 2), ("a".toList, 1), ("c".toList, 3)] = sortKeys [("c".toList, 3), ("b".toList, 2), ("a".toList, 1)] :=
  sortKeys_perm _ _ (by decide) (by decide +kernel)

/-- the distinct-keys hypothesis is needed: with a duplicated key the LAST occurrence wins, so order matters. -/
theorem cex_dup_key_order :
    sortKeys [("a".toList, 1), ("a".toList, 2)] ≠ sortKeys [("a".toList, 2), ("a".toList, 1)] := by
  decide +kernel

/-! ## the cache key (`CanonicalSchema::from_schema`) does not see how the schema was written down

`Oas3.Cache.canon` = `normalize_schema_semantics` followed by the RFC 8785 member order (model of `hashing.rs`, tied to the
real function by `cache.canon` in C13's and this check's K tie). `PermJ a b` = "`b` is `a` with the members of any of its
objects, at any depth, written in another order" (objects with distinct keys, which is all a JSON/YAML parser delivers). -/
open Oas3.Cache in
/-- the canonical form — and with it every decision keyed on it: type sharing, pre-computed names, de-duplication — is the
same for every re-ordering of object members at every depth (unbounded documents) -/
theorem canon_key_order_independent {a b : Oas3.Cache.J} (h : Oas3.Cache.PermJ a b) :
    Oas3.Cache.canon a = Oas3.Cache.canon b ∧ Oas3.Cache.canonString a = Oas3.Cache.canonString b :=
  ⟨Oas3.Cache.canon_permJ h, Oas3.Cache.canonString_permJ h⟩

/-- one object level (distinct keys): the member order after the RFC 8785 sort is that of no particular input order -/
theorem member_sort_order_independent (l₁ l₂ : List (List Char × Oas3.Cache.J)) (hp : l₁.Perm l₂) (hk : (l₁.map (·.1)).Nodup) :
    Oas3.Cache.sortKV l₁ = Oas3.Cache.sortKV l₂ := Oas3.Cache.sortKV_perm l₁ l₂ hp hk

section witness
open Oas3.Cache
private def k (s : String) : List Char := s.toList
/-- `{"type":"object","properties":{"a":{"default":{"burst":10,"rate":5}},"b":1}}` … -/
def docA : J := .obj [(k "type", .str (k "object")), (k "properties", .obj [(k "a", .obj [(k "default", .obj [(k "burst", .num 10), (k "rate", .num 5)])]), (k "b", .num 1)])]
/-- … and the same document with the members of three of its objects exchanged -/
def docB : J := .obj [(k "properties", .obj [(k "b", .num 1), (k "a", .obj [(k "default", .obj [(k "rate", .num 5), (k "burst", .num 10)])])]), (k "type", .str (k "object"))]

/-- non-vacuity: the two are related (member order only, at depths 0, 1 and 3) … -/
theorem docA_perm_docB : PermJ docA docB := by
  have inner : PermJ (.obj [(k "burst", .num 10), (k "rate", .num 5)]) (.obj [(k "rate", .num 5), (k "burst", .num 10)]) :=
    .obj (mid := [(k "burst", .num 10), (k "rate", .num 5)]) (.cons (.leaf _) (.cons (.leaf _) .nil)) (List.Perm.swap _ _ _) (by decide)
  have a' : PermJ (.obj [(k "default", .obj [(k "burst", .num 10), (k "rate", .num 5)])]) (.obj [(k "default", .obj [(k "rate", .num 5), (k "burst", .num 10)])]) :=
    .obj (mid := [(k "default", .obj [(k "rate", .num 5), (k "burst", .num 10)])]) (.cons inner .nil) (List.Perm.refl _) (by decide)
  have props : PermJ (.obj [(k "a", .obj [(k "default", .obj [(k "burst", .num 10), (k "rate", .num 5)])]), (k "b", .num 1)])
      (.obj [(k "b", .num 1), (k "a", .obj [(k "default", .obj [(k "rate", .num 5), (k "burst", .num 10)])])]) :=
    .obj (mid := [(k "a", .obj [(k "default", .obj [(k "rate", .num 5), (k "burst", .num 10)])]), (k "b", .num 1)])
      (.cons a' (.cons (.leaf _) .nil)) (List.Perm.swap _ _ _) (by decide)
  exact .obj (mid := [(k "type", .str (k "object")), (k "properties", .obj [(k "b", .num 1), (k "a", .obj [(k "default", .obj [(k "rate", .num 5), (k "burst", .num 10)])])])])
    (.cons (.leaf _) (.cons props .nil)) (List.Perm.swap _ _ _) (by decide)

/-- … so they have one cache key (instance of the theorem; also checked by evaluation) -/
example : canonString docA = canonString docB := (canon_key_order_independent docA_perm_docB).2
example : canonString docA = canonString docB := by decide +kernel

/-- the RFC 8785 stage is what makes it so: rendered right after normalisation (member order as written, which is what
`serde_json` with `preserve_order` does for free-form values such as `default`) the two documents differ -/
theorem cex_without_member_sort : ser (normalize docA) ≠ ser (normalize docB) := by decide +kernel
end witness

end Oas3.Props.C11
