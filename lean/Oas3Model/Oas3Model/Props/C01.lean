import Oas3Model.Model.Compile
namespace Oas3.C01
open Oas3.Comp

theorem placeholder : fromFlags (true, false) = .requestOnly := by decide

end Oas3.C01
