/-
C01 — generated code compiles against its documented dependencies  (partial by nature).

rustc is NOT modelled; it is the oracle of tie A.  What is proved here is the logic that decides the trait-bound
closure of the emitted types, and the soundness of the judge that attributes rustc errors to characterised defects:

* `C01_usage_closed`      after `SerdeUsage::propagate` (worklist model, any graph, any seeds) the request / response
                          flags only grow along every edge of the dependency graph.
* `C01_serde_closed`      consequently, across every PLAIN member edge between usage-driven types (Schema structs,
                          enums) `Serialize` of the holder implies `Serialize` of the member type, and the same for
                          `Deserialize` — for both targets.
* `cex_map_edge`          … and it is FALSE across a map member (`HashMap<String, B>` is one opaque atom): the model
                          derives Serialize for A and only Deserialize for B (class KnownSerdeMapEdge).
* `judgeA_*`, `judgeWF_*` the judges: ok iff rustc reported nothing / iff well-formed; a class is only ever named when
                          EVERY rustc error is accounted for by a violation of a characterised shape.
* `C01_char`              characterisation: a module is well-formed, or every violation has a characterised class, or
                          some violation is unlisted (then the verdict carries no class: a VIOLATION).
-/
import Oas3Model.Proofs.Compile
namespace Oas3.C01
open Oas3.Comp

/-- **usage closure** — for every type graph and every seeding: whatever the worklist returns is closed under
every edge (`b ∈ succ g a` = `b` is the base-type atom of a member of `a`) -/
theorem C01_usage_closed (g : Graph) (seeds u : Usage) (h : propagate g seeds = some u) :
    ∀ a b, b ∈ succ g a → leF (getU u a) (getU u b) = true :=
  propagate_closed h

/-- a plain member is an edge of the graph -/
theorem plain_dep_edge {g : Graph} {a : Node} (ha : a ∈ g) {d : Dep} (hd : d ∈ a.deps) (hp : d.plain = true) :
    d.to ∈ succ g a.name := by
  unfold succ
  rw [List.mem_flatMap]
  refine ⟨a, ?_, ?_⟩
  · rw [List.mem_filter]; exact ⟨ha, by simp⟩
  · rw [List.mem_map]
    refine ⟨d, hd, ?_⟩
    unfold Dep.plain at hp
    have h1 : d.map = false := by cases hm : d.map <;> simp [hm] at hp ⊢
    have h2 : d.arr = false := by cases ha' : d.arr <;> simp [h1, ha'] at hp ⊢
    unfold Dep.atom
    simp [h1, h2]

/-- the type has a usage entry with at least one flag set (what `SerdeUsageRecorder` records; orphans get (true,true)) -/
def Seeded (u : Usage) (n : Name) : Prop := ∃ f, u.lookup n = some f ∧ f ≠ (false, false)

theorem mode_mono (server : Bool) (fa fb : Flags) (hnz : fa ≠ (false, false)) (hle : leF fa fb = true) :
    ((toSerdeMode server (fromFlags fa)).ser = true → (toSerdeMode server (fromFlags fb)).ser = true) ∧
    ((toSerdeMode server (fromFlags fa)).de = true → (toSerdeMode server (fromFlags fb)).de = true) := by
  obtain ⟨a1, a2⟩ := fa
  obtain ⟨b1, b2⟩ := fb
  revert hnz hle
  cases a1 <;> cases a2 <;> cases b1 <;> cases b2 <;> cases server <;>
    simp [leF, fromFlags, toSerdeMode, SerdeMode.ser, SerdeMode.de]

def usageDriven (k : Kind) : Prop := k = .schema ∨ k = .enum

theorem serdeMode_driven {server : Bool} {u : Usage} {nd : Node} (h : usageDriven nd.kind) :
    serdeMode server u nd = toSerdeMode server (usageOf u nd.name) := by
  unfold serdeMode
  rcases h with h | h <;> rw [h]

/-- **serde closure** — for every graph, seeding and target: if a usage-driven type `a` (Schema struct / enum) has a
PLAIN member of usage-driven type `b`, then Serialize on `a` implies Serialize on `b`, and Deserialize likewise. -/
theorem C01_serde_closed (g : Graph) (seeds u : Usage) (server : Bool) (h : propagate g seeds = some u)
    (a b : Node) (ha : a ∈ g) (d : Dep) (hd : d ∈ a.deps) (hp : d.plain = true) (hb : d.to = b.name)
    (ka : usageDriven a.kind) (kb : usageDriven b.kind) (hs : Seeded u a.name) :
    ((serdeMode server u a).ser = true → (serdeMode server u b).ser = true) ∧
    ((serdeMode server u a).de = true → (serdeMode server u b).de = true) := by
  have hle := C01_usage_closed g seeds u h a.name d.to (plain_dep_edge ha hd hp)
  rw [hb] at hle
  obtain ⟨fa, hfa, hnz⟩ := hs
  rw [serdeMode_driven ka, serdeMode_driven kb]
  have ga : getU u a.name = fa := by unfold getU; rw [hfa]; rfl
  rw [ga] at hle
  unfold usageOf
  rw [hfa]
  cases hlb : u.lookup b.name with
  | none =>
    exfalso
    have gb : getU u b.name = (false, false) := by unfold getU; rw [hlb]; rfl
    rw [gb] at hle
    obtain ⟨x, y⟩ := fa
    revert hnz hle
    cases x <;> cases y <;> simp [leF]
  | some fb =>
    have gb : getU u b.name = fb := by unfold getU; rw [hlb]; rfl
    rw [gb] at hle
    exact mode_mono server fa fb hnz hle

/-! ### the part that is false of today's code -/

def gMap : Graph :=
  [{ name := "A".toList, kind := .schema, deps := [{ to := "B".toList, map := true }] },
   { name := "B".toList, kind := .schema, deps := [] }]
def sMap : Usage := [("A".toList, (true, false)), ("B".toList, (false, true))]

/-- KnownSerdeMapEdge: request-only `A {m: map of B}`, response-only `B`, client target: A derives Serialize, B only
Deserialize — `A: Serialize` needs `HashMap<String, B>: Serialize` -/
theorem cex_map_edge :
    ∃ u, propagate gMap sMap = some u ∧
      (serdeMode false u gMap[0]!).ser = true ∧ (serdeMode false u gMap[1]!).ser = false := by
  refine ⟨_, rfl, ?_, ?_⟩ <;> decide

def gArr : Graph :=
  [{ name := "A".toList, kind := .schema, deps := [{ to := "B".toList, arr := true }] },
   { name := "B".toList, kind := .schema, deps := [] }]

/-- KnownSerdeNestedArrayEdge: `A {l: array of (array of B)}` (e.g. `l: array of $ref E`, `E: array of $ref B`) is typed
`Vec<Vec<B>>` with the base atom `Vec<B>`, which is no graph node of a type: request-only A derives Serialize,
response-only B only Deserialize -/
theorem cex_nested_array_edge :
    ∃ u, propagate gArr sMap = some u ∧
      (serdeMode false u gArr[0]!).ser = true ∧ (serdeMode false u gArr[1]!).ser = false := by
  refine ⟨_, rfl, ?_, ?_⟩ <;> decide

/-- the same graph with a PLAIN member is fine (the closure theorem at work on a concrete input) -/
example : ∃ u, propagate [{ name := "A".toList, kind := .schema, deps := [{ to := "B".toList }] }, { name := "B".toList, kind := .schema, deps := [] }] sMap = some u ∧
    usageOf u "B".toList = .bidirectional := ⟨_, rfl, by decide⟩

/-! ### the judges -/

theorem judgeWF_ok_iff (m : Mod) : (judgeWF m).ok = true ↔ WF m = true := by
  unfold judgeWF WF
  simp only
  by_cases h : (violations m).isEmpty = true
  · rw [if_pos h]; simp [h]
  · rw [if_neg h]
    by_cases h2 : ((violations m).all fun v => (classOf m v).isSome) = true
    · rw [if_pos h2]; simp [h]
    · rw [if_neg h2]; simp [h]

theorem judgeA_ok_iff (m : Mod) (errs : List RErr) : (judgeA m errs).ok = true ↔ errs = [] := by
  unfold judgeA
  cases errs with
  | nil => simp
  | cons e t =>
    simp only [List.isEmpty_cons, Bool.false_eq_true, if_false]
    split <;> simp

/-- a class is named only when EVERY WF violation has a class and EVERY rustc error is accounted for by one of them -/
theorem judgeA_known_sound (m : Mod) (errs : List RErr) (h : (judgeA m errs).known ≠ []) :
    (∀ v ∈ violations m, (classOf m v).isSome = true) ∧
    ∀ e ∈ errs, ∃ v ∈ violations m, (classOf m v).isSome = true ∧ explains v e = true := by
  unfold judgeA at h
  cases errs with
  | nil => simp at h
  | cons e0 t =>
    simp only [List.isEmpty_cons, Bool.false_eq_true, if_false] at h
    by_cases hall : ((violations m).all (fun v => (classOf m v).isSome) &&
        (e0 :: t).all fun e => ((violations m).filter fun v => (classOf m v).isSome).any fun v => explains v e) = true
    · rw [Bool.and_eq_true] at hall
      obtain ⟨hv, he⟩ := hall
      refine ⟨?_, ?_⟩
      · rw [List.all_eq_true] at hv; exact hv
      · intro e hee
        rw [List.all_eq_true] at he
        have := he e hee
        rw [List.any_eq_true] at this
        obtain ⟨v, hv', hex⟩ := this
        rw [List.mem_filter] at hv'
        exact ⟨v, hv'.1, hv'.2, hex⟩
    · rw [if_neg hall] at h
      simp at h

/-- the E judge names classes only when every violation has one -/
theorem judgeWF_known_sound (m : Mod) (h : (judgeWF m).known ≠ []) :
    ∀ v ∈ violations m, (classOf m v).isSome = true := by
  unfold judgeWF at h
  simp only at h
  by_cases h1 : (violations m).isEmpty = true
  · rw [if_pos h1] at h; simp at h
  · rw [if_neg h1] at h
    by_cases h2 : ((violations m).all fun v => (classOf m v).isSome) = true
    · intro v hv
      rw [List.all_eq_true] at h2
      exact h2 v hv
    · rw [if_neg h2] at h; simp at h

/-- **characterisation** of the well-formedness judgement on any digest -/
theorem C01_char (m : Mod) :
    WF m = true ∨ (∀ v ∈ violations m, (classOf m v).isSome = true) ∨ (∃ v ∈ violations m, classOf m v = none) := by
  by_cases h : ∃ v ∈ violations m, classOf m v = none
  · exact Or.inr (Or.inr h)
  · right; left
    intro v hv
    cases hc : classOf m v with
    | none => exact absurd ⟨v, hv, hc⟩ h
    | some c => rfl

/-- a serde break across a PLAIN edge is never attributed to a known class -/
theorem plain_serde_break_unlisted (m : Mod) (it t : Name) (ser : Bool) :
    classOf m (.serde it t ser false false false) = none := rfl

/-- an undefined name that is not a component schema of the spec is never attributed to a known class -/
theorem foreign_undefined_unlisted (m : Mod) (n : Name) (h : m.schemas.contains n = false) :
    classOf m (.undefinedType n) = none := by
  have hn : ¬ n ∈ m.schemas := by
    intro hm
    have : m.schemas.contains n = true := by simpa using hm
    rw [h] at this; cases this
  simp [classOf, hn]

/-! ### witnesses at the digest level -/

def mMapEdge : Mod :=
  { mode := "client-mod".toList, schemas := ["A".toList, "B".toList],
    items := [{ file := "types".toList, kind := "struct".toList, name := "A".toList, vis := "pub".toList, ser := true,
                fields := [{ name := "m".toList, refs := [{ to := "B".toList, map := true, vec := false }] }] },
              { file := "types".toList, kind := "struct".toList, name := "B".toList, vis := "pub".toList, de := true }],
    imports := [], mentions := [] }

theorem cex_digest_map_edge : judgeWF mMapEdge = ⟨false, ["KnownSerdeMapEdge"]⟩ := by decide

def mPlainEdge : Mod :=
  { mode := "client-mod".toList, schemas := ["A".toList, "B".toList],
    items := [{ file := "types".toList, kind := "struct".toList, name := "A".toList, vis := "pub".toList, ser := true,
                fields := [{ name := "m".toList, refs := [{ to := "B".toList, map := false, vec := false }] }] },
              { file := "types".toList, kind := "struct".toList, name := "B".toList, vis := "pub".toList, de := true }],
    imports := [], mentions := [] }

/-- the same digest with a plain member: not well-formed and NOT attributed (it would be a new violation) -/
theorem cex_digest_plain_edge_unlisted : judgeWF mPlainEdge = ⟨false, []⟩ := by decide

def mArrEdge : Mod :=
  { mode := "server-mod".toList, schemas := ["A".toList, "B".toList],
    items := [{ file := "types".toList, kind := "struct".toList, name := "A".toList, vis := "pub".toList, de := true,
                fields := [{ name := "l".toList, refs := [{ to := "B".toList, map := false, vec := true, arr := true }] }] },
              { file := "types".toList, kind := "struct".toList, name := "B".toList, vis := "pub".toList, ser := true }],
    imports := [], mentions := [] }

theorem cex_digest_nested_array_edge : judgeWF mArrEdge = ⟨false, ["KnownSerdeNestedArrayEdge"]⟩ := by decide

def mRespWrap : Mod :=
  { mode := "client-mod".toList, schemas := ["Item".toList],
    items := [{ file := "types".toList, kind := "enum".toList, name := "GetAResponse".toList, vis := "pub".toList, respEnum := true,
                fields := [{ name := [], refs := [{ to := "Item".toList, map := false, vec := false, wrap := true }] }] },
              { file := "types".toList, kind := "struct".toList, name := "Item".toList, vis := "pub".toList, ser := true }],
    imports := [], mentions := [] }

/-- KnownResponseWrapperPayload: the payload `Option<Item>` of a response variant, `Item` being Serialize-only (client) -/
theorem cex_digest_response_wrapper : judgeWF mRespWrap = ⟨false, ["KnownResponseWrapperPayload"]⟩ := by decide

def mSerdeAs : Mod :=
  { mode := "client-mod".toList, schemas := [],
    items := [{ file := "types".toList, kind := "struct".toList, name := "OpRequestQuery".toList, vis := "pub".toList, ser := true, serdeAs := true,
                fields := [{ name := "ids".toList, refs := [], sep := true, sepStr := true, opt := false, serdeAsAttr := true, asOpt := true }] }],
    imports := [("types".toList, ["Serialize".toList])], mentions := [] }

/-- attribute / type agreement: `#[serde_as(as = "Option<..>")]` on a non-Option member is a violation WITHOUT a class
(today's generator never emits it; a change that does is reported as a VIOLATION even before rustc runs) -/
theorem serde_as_option_mismatch_unlisted : judgeWF mSerdeAs = ⟨false, []⟩ := by decide

def mReqWrap : Mod :=
  { mode := "client-mod".toList, schemas := ["Item".toList],
    items := [{ file := "types".toList, kind := "struct".toList, name := "OpRequest".toList, vis := "pub".toList, reqStruct := true,
                fields := [{ name := "body".toList, refs := [{ to := "Item".toList, map := false, vec := false, wrap := true }], opt := true }] },
              { file := "types".toList, kind := "struct".toList, name := "Item".toList, vis := "pub".toList, de := true }],
    imports := [], mentions := [] }

/-- KnownRequestWrapperBody: the body `Option<Item>` of a request struct, `Item` being Deserialize-only (client) -/
theorem cex_digest_request_wrapper : judgeWF mReqWrap = ⟨false, ["KnownRequestWrapperBody"]⟩ := by decide

def mHeader : Mod :=
  { mode := "types".toList, schemas := [],
    items := [{ file := "types".toList, kind := "struct".toList, name := "OpRequestHeader".toList, vis := "pub".toList,
                fields := [{ name := "id".toList, refs := [], opt := false, hdrOpt := true }] }],
    imports := [], mentions := [] }

/-- KnownRequiredHeaderDefault: a non-Option header member that the HeaderMap conversion reads with `if let Some(..)` -/
theorem cex_digest_required_header_default : judgeWF mHeader = ⟨false, ["KnownRequiredHeaderDefault"]⟩ := by decide

/-- several independent classes in one module: attributed only when EVERY rustc error is explained by one of them -/
theorem cex_two_classes :
    judgeA { mHeader with items := mHeader.items ++ mMapEdge.items }
      [{ code := "E0308".toList, file := "types".toList, ikind := "impl".toList, iname := "OpRequestHeader".toList, name := [], trait := [] },
       { code := "E0277".toList, file := "types".toList, ikind := "struct".toList, iname := "A".toList, name := "B".toList, trait := "Serialize".toList }]
      = ⟨false, ["KnownSerdeMapEdge", "KnownRequiredHeaderDefault"]⟩ ∧
    judgeA { mHeader with items := mHeader.items ++ mMapEdge.items }
      [{ code := "E0308".toList, file := "types".toList, ikind := "impl".toList, iname := "OpRequestHeader".toList, name := [], trait := [] },
       { code := "E0308".toList, file := "types".toList, ikind := "impl".toList, iname := "Other".toList, name := [], trait := [] }]
      = ⟨false, []⟩ := by decide

/-- an E0277 about `B: Serialize` in `A` is accounted for; the same error about another type is not -/
theorem cex_explains :
    judgeA mMapEdge [{ code := "E0277".toList, file := "types".toList, ikind := "struct".toList, iname := "A".toList, name := "B".toList, trait := "Serialize".toList }]
      = ⟨false, ["KnownSerdeMapEdge"]⟩ ∧
    judgeA mMapEdge [{ code := "E0277".toList, file := "types".toList, ikind := "struct".toList, iname := "A".toList, name := "C".toList, trait := "Serialize".toList }]
      = ⟨false, []⟩ := by decide

/-! ### the two expression-level clauses: helper constructors vs. `Box` payloads, `str::parse` vs. `FromStr` -/

theorem ctorBoxViols_sub (m : Mod) (it : Item) (h : it ∈ m.items) : ∀ v ∈ ctorBoxViols it, v ∈ violations m := by
  intro v hv
  unfold violations shapeViols
  refine List.mem_append_left _ (List.mem_append_right _ (List.mem_append_left _ (List.mem_append_left _ ?_)))
  exact List.mem_flatMap.mpr ⟨it, h, List.mem_append_right _ hv⟩

theorem hdrParseViols_sub (m : Mod) (it : Item) (h : it ∈ m.items) : ∀ v ∈ hdrParseViols m it, v ∈ violations m := by
  intro v hv
  unfold violations shapeViols
  refine List.mem_append_left _ (List.mem_append_right _ (List.mem_append_left _ (List.mem_append_left _ ?_)))
  exact List.mem_flatMap.mpr ⟨it, h, List.mem_append_left _ (List.mem_append_right _ hv)⟩

/-- in a well-formed module no free function is called like an identifier its own file imports (finding F01-17 is the
violation of this clause: `fn get` next to `use axum::routing::get`) -/
theorem WF_fn_not_imported (m : Mod) (hw : WF m = true) (it : Item) (hit : it ∈ m.items) (hk : it.kind = "fn".toList) :
    it.name ∉ (m.imports.filter (·.1 == it.file)).flatMap (·.2) := by
  intro hm
  have hv : Viol.fnShadowsImport it.file it.name ∈ violations m := by
    unfold violations shapeViols
    refine List.mem_append_left _ (List.mem_append_right _ (List.mem_append_left _ (List.mem_append_left _ ?_)))
    refine List.mem_flatMap.mpr ⟨it, hit, ?_⟩
    simp [hk]
    left
    obtain ⟨p, hp, hn⟩ := List.mem_flatMap.mp hm
    have hf := List.mem_filter.mp hp
    exact ⟨p.1, p.2, ⟨hf.1, by simpa using hf.2⟩, hn⟩
  unfold WF at hw
  simp [List.isEmpty_iff] at hw
  rw [hw] at hv
  simp at hv

/-- in a well-formed module no `Option` member of a struct deriving `Validate` is named like a local of the derive's expansion
(`errors` with any validator, `entry` with `nested`): finding F01-18 is the violation of this clause (validator_derive 0.20
unwraps the member with `if let Some(ref <name>) = self.<name>` around code that uses its own `errors` / `entry`) -/
theorem WF_no_validator_binder_shadow (m : Mod) (hw : WF m = true) (it : Item) (hit : it ∈ m.items)
    (hk : it.kind = "struct".toList) (hval : it.val = true) (fd : Fld) (hfd : fd ∈ it.fields) : binderShadowed fd = false := by
  cases hb : binderShadowed fd with
  | false => rfl
  | true =>
    have hv : Viol.validatorBinderShadowed it.name fd.name ∈ violations m := by
      unfold violations shapeViols
      refine List.mem_append_left _ (List.mem_append_right _ (List.mem_append_left _ (List.mem_append_left _ ?_)))
      refine List.mem_flatMap.mpr ⟨it, hit, ?_⟩
      simp [hk, hval]
      exact Or.inl ⟨fd, ⟨hfd, hb⟩, rfl⟩
    unfold WF at hw
    simp [List.isEmpty_iff] at hw
    rw [hw] at hv
    simp at hv

/-- non-vacuity: an optional `errors` member with a length validator is such a member; a required one is not -/
example : binderShadowed { name := "errors".toList, refs := [], opt := true, validated := true, len := true } = true ∧
    binderShadowed { name := "errors".toList, refs := [], opt := false, validated := true, len := true } = false ∧
    binderShadowed { name := "entry".toList, refs := [], opt := true, validated := true, nested := true } = true := by decide

/-- in a well-formed module EVERY helper constructor of EVERY enum agrees with its variant about `Box` -/
theorem WF_ctor_box (m : Mod) (hw : WF m = true) (it : Item) (hit : it ∈ m.items) (hk : it.kind = "enum".toList)
    (v : Name) (cb pb : Bool) (hc : (v, cb) ∈ it.helperCtors) (hv : it.vboxed.lookup v = some pb) : pb = cb := by
  by_cases hne : pb = cb
  · exact hne
  exfalso
  have hmem : Viol.ctorBoxMismatch it.name v ∈ ctorBoxViols it := by
    unfold ctorBoxViols
    simp only [hk, beq_self_eq_true, if_true, List.mem_flatMap]
    refine ⟨(v, cb), hc, ?_⟩
    simp only [hv]
    have : (pb != cb) = true := by simpa using hne
    simp [this]
  have := ctorBoxViols_sub m it hit _ hmem
  unfold WF at hw
  simp only [List.isEmpty_iff] at hw
  rw [hw] at this
  cases this

/-- in a well-formed module every header member built with `str::parse` has a type with `FromStr` -/
theorem WF_header_parse (m : Mod) (hw : WF m = true) (it : Item) (hit : it ∈ m.items) (hk : it.kind = "struct".toList)
    (fd : Fld) (hf : fd ∈ it.fields) (hp : fd.hdrParse = true) (r : Ref) (hr : r ∈ fd.refs) (hm : r.map = false) (hv : r.vec = false) :
    capable m (·.fromStr) 4 r.to = true := by
  by_cases hne : capable m (·.fromStr) 4 r.to = true
  · exact hne
  exfalso
  have hmem : Viol.headerParseNoFromStr it.name r.to ∈ hdrParseViols m it := by
    unfold hdrParseViols
    simp only [hk, beq_self_eq_true, if_true, List.mem_flatMap, List.mem_filter]
    refine ⟨fd, ⟨hf, hp⟩, r, hr, ?_⟩
    have : capable m (·.fromStr) 4 r.to = false := by simpa using hne
    simp [hm, hv, this]
  have := hdrParseViols_sub m it hit _ hmem
  unfold WF at hw
  simp only [List.isEmpty_iff] at hw
  rw [hw] at this
  cases this

/-- neither clause has a class: a violation of either is always reported -/
theorem expr_clauses_unlisted (m : Mod) (a b : Name) :
    classOf m (.ctorBoxMismatch a b) = none ∧ classOf m (.headerParseNoFromStr a b) = none := ⟨rfl, rfl⟩

def mCtorBox (ctorBoxed : Bool) : Mod :=
  { mode := "types".toList, schemas := ["Expr".toList, "Negation".toList],
    items := [{ file := "types".toList, kind := "enum".toList, name := "Expr".toList, vis := "pub".toList, ser := true, de := true,
                fields := [{ name := [], refs := [{ to := "Negation".toList, map := false, vec := false, wrap := true }] }],
                variants := ["Negation".toList], vboxed := [("Negation".toList, true)], helperCtors := [("Negation".toList, ctorBoxed)] },
              { file := "types".toList, kind := "struct".toList, name := "Negation".toList, vis := "pub".toList, ser := true, de := true }],
    imports := [], mentions := [] }

/-- a helper constructor `Self::Negation(Negation { .. })` of a variant `Negation(Box<Negation>)` is a violation WITHOUT a
class (rustc: E0308); with `Box::new(..)` the digest is well-formed -/
theorem ctor_box_mismatch_unlisted : judgeWF (mCtorBox false) = ⟨false, []⟩ ∧ judgeWF (mCtorBox true) = ⟨true, []⟩ := by decide

def mHdrParse (enumHasFromStr : Bool) : Mod :=
  { mode := "server-mod".toList, schemas := [],
    items := [{ file := "types".toList, kind := "struct".toList, name := "OpRequestHeader".toList, vis := "pub".toList,
                fields := [{ name := "x_mode".toList, refs := [{ to := "OpRequestHeaderXMode".toList, map := false, vec := false }], hdrParse := true },
                           { name := "x_n".toList, refs := [], opt := true, hdrParse := true }] },
              { file := "types".toList, kind := "enum".toList, name := "OpRequestHeaderXMode".toList, vis := "pub".toList, de := true, fromStr := enumHasFromStr }],
    imports := [], mentions := [] }

/-- an enum header member extracted with `value.parse()` whose enum has no `impl FromStr` (rustc: E0277) is a violation
WITHOUT a class; primitives need nothing -/
theorem header_parse_needs_fromstr_unlisted : judgeWF (mHdrParse false) = ⟨false, []⟩ ∧ judgeWF (mHdrParse true) = ⟨true, []⟩ := by decide

/-- in a well-formed module every constant that an expression names is defined by one of its items -/
theorem WF_consts_defined (m : Mod) (hw : WF m = true) (f n : Name) (ns : List Name) (hf : (f, ns) ∈ m.constMentions) (hn : n ∈ ns) :
    ∃ i ∈ m.items, (i.kind = "const".toList ∨ i.kind = "static".toList) ∧ i.name = n := by
  by_cases hd : n ∈ ((m.items.filter fun i => i.kind == "const".toList || i.kind == "static".toList).map (·.name))
  · obtain ⟨i, hi, rfl⟩ := List.mem_map.mp hd
    have := List.mem_filter.mp hi
    refine ⟨i, this.1, ?_, rfl⟩
    simpa using this.2
  · exfalso
    have hmem : Viol.undefinedConst n ∈ constViols m := by
      unfold constViols
      refine List.mem_map.mpr ⟨n, ?_, rfl⟩
      refine List.mem_eraseDups.mpr (List.mem_filter.mpr ⟨List.mem_flatMap.mpr ⟨(f, ns), hf, hn⟩, ?_⟩)
      simpa using hd
    have hv : Viol.undefinedConst n ∈ violations m := by unfold violations; exact List.mem_append_right _ hmem
    unfold WF at hw
    simp only [List.isEmpty_iff] at hw
    rw [hw] at hv
    cases hv

def mConst (defined : Name) : Mod :=
  { mode := "server-mod".toList, schemas := [],
    items := [{ file := "types".toList, kind := "const".toList, name := defined, vis := "pub".toList }],
    imports := [], mentions := [], constMentions := [("types".toList, ["X_RATE_LIMIT_WINDOW".toList])] }

/-- a header constant defined under one spelling and used under another (rustc: E0425) is a violation WITHOUT a class -/
theorem undefined_const_unlisted :
    judgeWF (mConst "X_RATELIMIT_WINDOW".toList) = ⟨false, []⟩ ∧ judgeWF (mConst "X_RATE_LIMIT_WINDOW".toList) = ⟨true, []⟩ := by decide

def mOk : Mod :=
  { mode := "types".toList, schemas := ["B".toList],
    items := [{ file := "types".toList, kind := "struct".toList, name := "B".toList, vis := "pub".toList, de := true }],
    imports := [], mentions := [("types".toList, ["B".toList])] }

/-- non-vacuity: a well-formed digest exists and is accepted -/
example : judgeWF mOk = ⟨true, []⟩ := by decide

end Oas3.C01
