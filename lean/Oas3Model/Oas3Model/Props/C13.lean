import Oas3Model.Model.Cache
import Oas3Model.Proofs.Cache
/-!
# C13 — type sharing is sound: only wire-equivalent schemas share a Rust type

The generator gives two schema occurrences one Rust type through four keys:

* the canonical form (`CanonicalSchema`: `normalize` + RFC 8785 member order),
* the enum cache key (`enumKey`: sorted string values),
* the union key (`refsOf`: set of `$ref` targets, + discriminator property for inline unions),
* the `SharedSchemaCache` state machine that consults them before generating (`resolveInline`).

For each key the theorem below says what equal keys imply for the wire behaviour, with the
decidable `Known…` classes naming exactly where today's code shares too much; `cex_*` exhibit each
class; the cache theorems are the "adding schemas / later look-ups never change an assigned name"
half.  The driver's judge (`Driver/Cache.lean`) evaluates the same predicates on the implementation.
-/
namespace Oas3.C13
open Oas3.Cache

/-! ## canonical form -/

/-- Equal canonical forms ⇒ the schemas are equal up to member order and the order of the
`required` / `type` / `enum` string arrays (`canonNoClamp`), or some integer lies beyond ±(2^53−1)
(class `KnownClamp`). -/
theorem C13_canon_sound_char (a b : J) (h : canon a = canon b) :
    canonNoClamp a = canonNoClamp b ∨ hasBig a = true ∨ hasBig b = true := by
  cases ha : hasBig a with
  | true => exact Or.inr (Or.inl rfl)
  | false =>
    cases hb : hasBig b with
    | true => exact Or.inr (Or.inr rfl)
    | false =>
      left
      unfold canon at h
      unfold canonNoClamp
      rw [normalize_noBig a ha, normalize_noBig b hb] at h
      exact h

/-- the ±2^53 clamp is the identity on safe integers -/
theorem C13_clamp_safe (n : Int) (h1 : -maxSafe ≤ n) (h2 : n ≤ maxSafe) : clamp n = n := clamp_safe n h1 h2

/-- RFC 8785 member ordering never changes what a member name maps to (the sort is stable, so this
holds even with repeated names): `properties` look-ups are those of the original schema. -/
theorem C13_member_sort_lookup (q : List Char) (l : List (List Char × J)) : lookupKV q (sortKV l) = lookupKV q l :=
  lookupKV_sortKV q l

/-- sorting `required` / `enum` / `type` string arrays keeps exactly the same members -/
theorem C13_string_sort_members (a : List Char) (l : List (List Char)) : a ∈ sortStrs l ↔ a ∈ l := mem_sortStrs a l

/-- `KnownClamp` witness: one canonical form, different schemas. -/
theorem C13_cex_clamp :
    let a := J.obj [("maximum".toList, .num 9007199254740992)]
    let b := J.obj [("maximum".toList, .num 9007199254740993)]
    canonString a = canonString b ∧ ser (canonNoClamp a) ≠ ser (canonNoClamp b) ∧ hasBig a = true := by decide +kernel

/-! ## enum key -/

/-- Equal enum cache keys ⇒ the two value enums accept the same wire strings, or one of them has a
non-string (integer / boolean) value (class `KnownNonStringEnum`). -/
theorem C13_enumkey_char (a b : List JV) (h : enumKey a = enumKey b) :
    (∀ w, w ∈ wireVals a ↔ w ∈ wireVals b) ∨ KnownNonStringEnum a b = true := by
  cases hk : KnownNonStringEnum a b with
  | true => exact Or.inr rfl
  | false =>
    left
    obtain ⟨ha, hb⟩ := not_known_nonstring a b hk
    intro w
    rw [wire_eq_strOf a ha, wire_eq_strOf b hb]
    have e : ∀ w, w ∈ sortStrs (a.filterMap JV.strOf) ↔ w ∈ sortStrs (b.filterMap JV.strOf) := by
      intro w; unfold enumKey at h; rw [h]
    simpa [mem_sortStrs] using e w

/-- the judge's Boolean is the proposition -/
theorem C13_sameMembers_iff (a b : List (List Char)) : sameMembers a b = true ↔ ∀ w, w ∈ a ↔ w ∈ b := sameMembers_iff a b

/-- full strength on string(-or-null) enums -/
theorem C13_enumkey_sound_strings (a b : List JV) (ha : ∀ v ∈ a, v.strOrNull = true) (hb : ∀ v ∈ b, v.strOrNull = true)
    (h : enumKey a = enumKey b) : sameMembers (wireVals a) (wireVals b) = true := by
  rw [sameMembers_iff]
  rcases C13_enumkey_char a b h with h | h
  · exact h
  · exfalso
    simp only [KnownNonStringEnum, Bool.or_eq_true, List.any_eq_true] at h
    rcases h with ⟨v, hv, hn⟩ | ⟨v, hv, hn⟩
    · simp [ha v hv] at hn
    · simp [hb v hv] at hn

/-- `[1,2,3]` and `[4,5,6]` have the same (empty) key and accept different values. -/
theorem C13_cex_enumkey :
    let a := [JV.int 1, .int 2, .int 3]
    let b := [JV.int 4, .int 5, .int 6]
    enumKey a = enumKey b ∧ sameMembers (wireVals a) (wireVals b) = false ∧ KnownNonStringEnum a b = true := by decide +kernel

/-- mixed: the string part is the key, the rest is ignored -/
theorem C13_cex_enumkey_mixed :
    let a := [JV.str "a".toList, .str "b".toList, .int 1]
    let b := [JV.str "b".toList, .str "a".toList, .int 2]
    enumKey a = enumKey b ∧ sameMembers (wireVals a) (wireVals b) = false ∧ KnownNonStringEnum a b = true := by decide +kernel

/-! ## union key -/

/-- Two unions render to the same wire shape, or they fall in exactly one of the three classes the
union key cannot see (it is a SET of `$ref` names; the component look-up also ignores the discriminator). -/
theorem C13_unionkey_char (a b : UnionS) :
    renderU a = renderU b ∨ KnownUnionVariantOrder a b = true ∨ KnownUnionExtraInline a b = true ∨ KnownUnionDiscriminator a b = true := by
  by_cases h1 : a.refList = b.refList
  · by_cases h2 : a.nonNull = b.nonNull
    · by_cases h3 : a.tag = b.tag
      · left; simp [renderU, h2, h3]
      · right; right; right; simp [KnownUnionDiscriminator, h3]
    · right; right; left; simp [KnownUnionExtraInline, h1, h2]
  · right; left; simp [KnownUnionVariantOrder, h1]

/-- the classes are exact: each one really changes the wire shape -/
theorem C13_union_classes_exact (a b : UnionS)
    (h : KnownUnionVariantOrder a b = true ∨ KnownUnionExtraInline a b = true ∨ KnownUnionDiscriminator a b = true) :
    renderU a ≠ renderU b := by
  intro e
  have e1 : a.nonNull = b.nonNull := congrArg Prod.fst e
  have e2 : a.tag = b.tag := congrArg Prod.snd e
  rcases h with h | h | h
  · simp only [KnownUnionVariantOrder, bne_iff_ne, ne_eq] at h
    exact h (by rw [refList_of_nonNull a, refList_of_nonNull b, e1])
  · simp [KnownUnionExtraInline, e1] at h
  · simp [KnownUnionDiscriminator, e2] at h

private def rA : Var := .ref "A".toList
private def rB : Var := .ref "B".toList

/-- inline `oneOf[A,B,string]` has the key of the component `oneOf[A,B]` -/
theorem C13_cex_union_extra_inline :
    let u : UnionS := { vars := [rA, rB] }
    let v : UnionS := { vars := [rA, rB, .prim "string".toList] }
    shareNamedU u v = true ∧ shareInlineU u v = true ∧ renderU u ≠ renderU v ∧ KnownUnionExtraInline u v = true := by decide +kernel

theorem C13_cex_union_order :
    let u : UnionS := { vars := [rA, rB] }
    let v : UnionS := { vars := [rB, rA] }
    shareNamedU u v = true ∧ shareInlineU u v = true ∧ renderU u ≠ renderU v ∧ KnownUnionVariantOrder u v = true := by decide +kernel

theorem C13_cex_union_discriminator :
    let u : UnionS := { vars := [rA, rB] }
    let v : UnionS := { vars := [rA, rB], disc := some "kind".toList, mapped := true }
    shareNamedU u v = true ∧ shareInlineU u v = false ∧ renderU u ≠ renderU v ∧ KnownUnionDiscriminator u v = true := by decide +kernel

/-- a discriminator WITHOUT mapping whose members carry `const` tags is a tagged enum too: the inline registry key
(refs + discriminator property) keeps it apart from the plain union over the same refs - the property name has to
be part of the key whether or not a mapping is written - while the component look-up (refs only) does not -/
theorem C13_unionkey_implicit_mapping :
    let u : UnionS := { vars := [rA, rB] }
    let v : UnionS := { vars := [rA, rB], disc := some "kind".toList, implicit := true }
    shareInlineU u v = false ∧ shareNamedU u v = true ∧ renderU u ≠ renderU v ∧ KnownUnionDiscriminator u v = true := by decide +kernel

/-- unions that share through the inline registry dispatch on the same tag as soon as they agree on HAVING a
(written or implicit) mapping; with the pool fixed that is a function of the refs and the property, i.e. of the key -/
theorem C13_inline_key_tag (a b : UnionS) (h : shareInlineU a b = true)
    (hm : (a.mapped || a.implicit) = (b.mapped || b.implicit)) : a.tag = b.tag := by
  have hd : a.disc = b.disc := by
    simp only [shareInlineU, Bool.and_eq_true, beq_iff_eq] at h
    exact h.2
  simp only [UnionS.tag, hm, hd]

/-- `oneOf` vs `anyOf`, descriptions, and an un-mapped discriminator are invisible to both the key and the
wire shape: sharing across them is sound (the design note's `KnownOneOfVsAnyOf` is not a defect class). -/
theorem C13_union_benign :
    let u : UnionS := { vars := [rA, rB] }
    let v : UnionS := { vars := [rA, rB, .null], disc := some "kind".toList, mapped := false }
    shareNamedU u v = true ∧ renderU u = renderU v := by decide +kernel

/-! ## the cache: lookup-before-generate is monotone -/

/-- Once a use site with canonical form `c` (and enum key `ek`) has been given the name `n`, every
later inline resolution of the same canonical form gets `n` again, whatever was resolved in between —
provided no intermediate request is a relaxed-enum pattern (those re-register their enum key, the
hypothesis the proof forced) and the enum key is a function of the canonical form. -/
theorem C13_cache_monotone_partial (f : NameFns) (st : St) (q : Req) (mid : List Req) (q' : Req)
    (hmid : ∀ m ∈ mid, m.relaxed = false ∧ (m.c = q.c → m.ekCheck = q.ekCheck))
    (hc : q'.c = q.c) (hek : q'.ekCheck = q.ekCheck) :
    (q'.run f (runInline f (q.run f st).1 mid)).2 = (q.run f st).2 := by
  apply remembers_answer
  rw [hc, hek]
  exact remembers_run f mid _ q.c q.ekCheck _ hmid (resolve_remembers f st q)

/-- a recorded canonical form is never re-pointed by inline resolutions (no hypothesis) -/
theorem C13_cache_recorded_stable (f : NameFns) (st : St) (mid : List Req) (c : Key) (n : Name)
    (h : lookupA c st.s2t = some n) : lookupA c (runInline f st mid).s2t = some n := by
  induction mid generalizing st with
  | nil => exact h
  | cons q r ih => exact ih _ (resolve_keeps_s2t f st q c n h)

/-- a generated name is fresh: when nothing is cached, forced or precomputed for the schema, the name
it gets was not in use (so it cannot be the name of a different, earlier key) — given that
`ensure_unique` is fresh (`Props/C09.lean: ensureUnique_fresh`). -/
theorem C13_cache_fresh_name (f : NameFns) (hf : ∀ b used, f.uniq b used ∉ used) (st : St) (q : Req)
    (h1 : lookupA q.c st.s2t = none) (h2 : q.ek = none) (h2' : q.ekCheck = none) (h3 : q.forced = none)
    (h4 : lookupA q.c st.pre = none) :
    (q.run f st).2 ∉ st.used := by
  unfold Req.run resolveInline
  cases hrx : q.relaxed <;> cases hra : q.relaxedAnyOf <;>
    simp [St.prepare, h1, h2, h2', h3, h4, St.determineName, St.makeUnique, hf]

/-- witness that the relaxed hypothesis of `C13_cache_monotone_partial` is needed: a relaxed `oneOf`
pattern registered in between re-points the enum key. -/
theorem C13_cex_cache_relaxed :
    let f : NameFns := { mkName := id, uniq := fun b used => (Oas3.Naming.ensureUnique b used).getD b }
    let k : EKey := ["a".toList]
    let q : Req := { c := "E".toList, relaxed := false, relaxedAnyOf := false, base := "E1".toList, forced := none, ekCheck := some k, ek := some k }
    let m : Req := { c := "U".toList, relaxed := true, relaxedAnyOf := false, base := "U1".toList, forced := none, ekCheck := none, ek := some k }
    let q2 : Req := { c := "E2".toList, relaxed := false, relaxedAnyOf := false, base := "E2".toList, forced := none, ekCheck := some k, ek := some k }
    (q.run f {}).2 = "E1".toList ∧ (q2.run f (runInline f (q.run f {}).1 [m])).2 = "U1".toList := by decide +kernel

/-! ## the identity token of the check's feature grammar -/

/-- two inline occurrences get one type identity only through one of the four keys -/
theorem C13_token_share_char (named : List Occ) (a b : Occ) (ha : a.named = none) (hb : b.named = none)
    (hk : a.kind = b.kind) (h : token named a = token named b) :
    (∃ n, token named a = .named n) ∨ a.canon = b.canon ∨ (a.kind = .enum ∧ a.ekey = b.ekey) ∨
    (a.kind = .union ∧ a.refs = b.refs ∧ a.disc = b.disc) := by
  unfold token at h ⊢
  rw [ha] at h ⊢
  rw [hb] at h
  simp only at h ⊢
  rw [← hk] at h
  cases hkind : a.kind <;> simp only [hkind] at h ⊢
  all_goals (repeat' split at h) <;> simp_all

/-! ## non-vacuity -/

example : canonString (.obj [("required".toList, .arr [.str "b".toList, .str "a".toList]), ("a".toList, .num 1)])
    = "{\"a\":1,\"required\":[\"a\",\"b\"]}".toList := by decide +kernel

example : enumKey [.str "b".toList, .int 3, .str "a".toList, .null] = ["a".toList, "b".toList] := by decide +kernel

example : refsOf { vars := [rB, rA, .prim "string".toList, rA] } = ["A".toList, "B".toList] := by decide +kernel

example : token [] { named := none, kind := .enum, canon := "c".toList, ekey := [] } = .enumK [] := by decide +kernel

/-! ### title capture (finding F-C13-8) -/

/-- a type-less inline schema titled like a component gets the component's type: its token is the component's -/
theorem C13_cex_title_capture :
    token [{ named := some "Data".toList, kind := .object, canon := "c1".toList }]
      { named := none, kind := .other, canon := "c2".toList, title := some "Data".toList } = .named "Data".toList ∧
    token [] { named := none, kind := .other, canon := "c2".toList, title := some "Data".toList } ≠ .named "Data".toList := by
  decide +kernel

/-- the title plays no part when no component has that name: the token is the one of the same occurrence without a title -/
theorem C13_title_free (named : List Occ) (o : Occ) (t : Name) (h : ∀ c ∈ named, c.named ≠ some t) :
    token named { o with named := none, title := some t } = token named { o with named := none, title := none } := by
  have hf : (named.find? fun c => c.named == some t) = none := by
    rw [List.find?_eq_none]
    intro c hc
    simpa using h c hc
  simp [token, hf]

end Oas3.C13
