import Oas3Model.Gen.PanicSites
import Oas3Model.Model.Depth
import Oas3Model.Proofs.Depth
namespace Oas3.Props.C12
open Oas3.Gen.PanicSites Oas3.Depth

/-- reviewed list of every potentially panicking / token-parsing construct in non-test code, with the
reason it cannot fire on parser-accepted input — or the known finding it belongs to. -/
def justified : List ((List Char × List Char × List Char × Nat) × String) := [
  (("generator/ast/derives.rs".toList, "to_tokens".toList, "parse-tokens".toList, 0), "fixed-input: derive names are string constants of the generator"),
  (("generator/ast/derives.rs".toList, "to_tokens".toList, "expect".toList, 0), "fixed-input: derive names are string constants of the generator"),
  (("generator/ast/documentation.rs".toList, "format_with_mdformat".toList, "unwrap".toList, 0), "only with --doc-format (external mdformat process); Mutex/IO result"),
  (("generator/ast/tokens.rs".toList, "to_tokens".toList, "Ident::new".toList, 0), "ident from the sanitisers (C09 legality theorems); exceptional classes are known findings (KnownRawPassthrough, KnownUnderscoreField, KnownRawSelf, KnownVariantSuffixPanic)"),
  (("generator/ast/tokens.rs".toList, "to_tokens".toList, "Ident::new".toList, 1), "ident from the sanitisers (C09 legality theorems); exceptional classes are known findings (KnownRawPassthrough, KnownUnderscoreField, KnownRawSelf, KnownVariantSuffixPanic)"),
  (("generator/ast/types.rs".toList, "<top>".toList, "expect".toList, 0), "static regex literal"),
  (("generator/ast/types.rs".toList, "to_tokens".toList, "syn::parse_str".toList, 0), "type string built from sanitised names and fixed templates; customisation paths come from the command line (C19 type feeder)"),
  (("generator/ast/types.rs".toList, "to_tokens".toList, "panic!".toList, 0), "type string built from sanitised names and fixed templates; customisation paths come from the command line (C19 type feeder)"),
  (("generator/ast/types.rs".toList, "from".toList, "unwrap".toList, 0), "infallible by construction (checked branch)"),
  (("generator/ast/validation_attrs.rs".toList, "to_tokens".toList, "parse-tokens".toList, 0), "numeric literal rendered by format_number / render_integer (C19 numeric feeder)"),
  (("generator/ast/validation_attrs.rs".toList, "to_tokens".toList, "unwrap".toList, 0), "numeric literal rendered by format_number / render_integer (C19 numeric feeder)"),
  (("generator/ast/validation_attrs.rs".toList, "to_tokens".toList, "parse-tokens".toList, 1), "numeric literal rendered by format_number / render_integer (C19 numeric feeder)"),
  (("generator/ast/validation_attrs.rs".toList, "to_tokens".toList, "unwrap".toList, 1), "numeric literal rendered by format_number / render_integer (C19 numeric feeder)"),
  (("generator/ast/validation_attrs.rs".toList, "to_tokens".toList, "parse-tokens".toList, 2), "numeric literal rendered by format_number / render_integer (C19 numeric feeder)"),
  (("generator/ast/validation_attrs.rs".toList, "to_tokens".toList, "unwrap".toList, 2), "numeric literal rendered by format_number / render_integer (C19 numeric feeder)"),
  (("generator/ast/validation_attrs.rs".toList, "to_tokens".toList, "parse-tokens".toList, 3), "numeric literal rendered by format_number / render_integer (C19 numeric feeder)"),
  (("generator/ast/validation_attrs.rs".toList, "to_tokens".toList, "unwrap".toList, 3), "numeric literal rendered by format_number / render_integer (C19 numeric feeder)"),
  (("generator/ast/validation_attrs.rs".toList, "to_tokens".toList, "parse-tokens".toList, 4), "numeric literal rendered by format_number / render_integer (C19 numeric feeder)"),
  (("generator/ast/validation_attrs.rs".toList, "to_tokens".toList, "unwrap".toList, 4), "numeric literal rendered by format_number / render_integer (C19 numeric feeder)"),
  (("generator/ast/validation_attrs.rs".toList, "to_tokens".toList, "parse-tokens".toList, 5), "numeric literal rendered by format_number / render_integer (C19 numeric feeder)"),
  (("generator/ast/validation_attrs.rs".toList, "to_tokens".toList, "unwrap".toList, 5), "numeric literal rendered by format_number / render_integer (C19 numeric feeder)"),
  (("generator/codegen/attributes.rs".toList, "generate_builder_attrs".toList, "Ident::new".toList, 0), "bon attribute name from a fixed list"),
  (("generator/codegen/client.rs".toList, "to_tokens".toList, "format_ident!".toList, 0), "HTTP method name from http::Method::as_str for OPTIONS / TRACE (the only methods that reach this arm): an identifier, prefixed in the quote"),
  (("generator/codegen/client.rs".toList, "new".toList, "unwrap".toList, 0), "static LitStr / checked Option (request_type is set whenever response_enum is)"),
  (("generator/codegen/client.rs".toList, "new".toList, "syn::parse_str".toList, 0), "static LitStr / checked Option (request_type is set whenever response_enum is)"),
  (("generator/codegen/client.rs".toList, "parse_body".toList, "format_ident!".toList, 0), "request type name from the sanitiser"),
  (("generator/codegen/client.rs".toList, "generate".toList, "format_ident!".toList, 0), "request type / method name from the sanitisers; known finding KnownTrimToNonIdent for trimmed operation ids"),
  (("generator/codegen/client.rs".toList, "generate".toList, "format_ident!".toList, 1), "request type / method name from the sanitisers; known finding KnownTrimToNonIdent for trimmed operation ids"),
  (("generator/codegen/client.rs".toList, "new".toList, "expect".toList, 0), "static LitStr / checked Option (request_type is set whenever response_enum is)"),
  (("generator/codegen/client.rs".toList, "new".toList, "expect".toList, 1), "static LitStr / checked Option (request_type is set whenever response_enum is)"),
  (("generator/codegen/constants.rs".toList, "to_tokens".toList, "expect".toList, 0), "regex validated by Regex::new before it is recorded (extract_all_validation)"),
  (("generator/codegen/mod.rs".toList, "format".toList, "syn::parse2".toList, 0), "error is propagated with `?` (syn::parse2 result), not unwrapped"),
  (("generator/codegen/mod_file.rs".toList, "to_tokens".toList, "Ident::new".toList, 0), "fixed module names"),
  (("generator/codegen/server.rs".toList, "to_tokens".toList, "format_ident!".toList, 0), "fixed identifier ApiServer"),
  (("generator/codegen/types.rs".toList, "to_tokens".toList, "syn::parse_str".toList, 0), "result handled (falls back), not unwrapped"),
  (("generator/codegen/types.rs".toList, "to_tokens".toList, "syn::parse_str".toList, 1), "result handled (falls back), not unwrapped"),
  (("generator/converter/inline_resolver.rs".toList, "resolve_inline_schema_with_fn".toList, "unwrap".toList, 0), "guarded by a preceding is_some / len check in the same function"),
  (("generator/converter/structs.rs".toList, "convert_struct".toList, "unreachable!".toList, 0), "unreachable arm after an exhaustive kind check"),
  (("generator/converter/type_resolver.rs".toList, "inline_union".toList, "unwrap".toList, 0), "guarded by a preceding is_some / len check in the same function"),
  (("generator/converter/type_resolver.rs".toList, "inline_union_array_item".toList, "unwrap".toList, 0), "guarded by a preceding is_some / len check in the same function"),
  (("generator/converter/type_resolver.rs".toList, "try_flatten_nested_union".toList, "unwrap".toList, 0), "guarded by a preceding is_some / len check in the same function"),
  (("generator/converter/type_resolver.rs".toList, "try_flatten_nested_union".toList, "unwrap".toList, 1), "guarded by a preceding is_some / len check in the same function"),
  (("generator/converter/type_resolver.rs".toList, "try_flatten_nested_union".toList, "unwrap".toList, 2), "guarded by a preceding is_some / len check in the same function"),
  (("generator/naming/identifiers.rs".toList, "<top>".toList, "unwrap".toList, 0), "static regex literals"),
  (("generator/naming/identifiers.rs".toList, "<top>".toList, "unwrap".toList, 1), "static regex literals"),
  (("generator/converter/methods.rs".toList, "build_methods_from_eligible".toList, "zip_eq".toList, 0), "`method_names = derive_method_names(enum_name, &variant_names)` and `variant_names` is `eligible` mapped element by element: derive_method_names returns one name per input name (Naming model: deriveMethodNames preserves length), so both sides have the length of `eligible`"),
  (("generator/naming/identifiers.rs".toList, "next".toList, "unwrap".toList, 0), "iterator just stored in self.pending_*"),
  (("generator/naming/identifiers.rs".toList, "next".toList, "unwrap".toList, 1), "iterator just stored in self.pending_*"),
  (("generator/naming/inference.rs".toList, "try_from".toList, "unwrap".toList, 0), "guarded by is_i64()/is_f64() checks"),
  (("generator/naming/inference.rs".toList, "try_from".toList, "unwrap".toList, 1), "guarded by is_i64()/is_f64() checks"),
  (("generator/naming/operations.rs".toList, "trim_common_affixes".toList, "unwrap".toList, 0), "slice has >= 2 elements on this path (match on [] | [_] returned earlier)"),
  (("generator/postprocess/response_enum.rs".toList, "compute_replacements".toList, "unwrap".toList, 0), "group has > 1 element"),
  (("utils/schema_ext.rs".toList, "infer_union_variant_label".toList, "syn::parse_str".toList, 0), "result only inspected with is_ok() (is the inferred label an identifier?), not unwrapped; added by the repair of F09-10")]

/-- every such construct found in the CURRENT sources is in the reviewed list: a new `unwrap`,
`expect`, `panic!`, `format_ident!`, `Ident::new`, token re-parse … breaks this proof. -/
theorem panic_sites_justified : ∀ s ∈ sites, s ∈ justified.map (·.1) := by decide +kernel

/-! ## the allOf-depth recursion (`compute_inheritance_depths`) -/
open Oas3.Graph (TC)

/-- more fuel (stack) never changes a returned result -/
theorem depth_mono (g : List (Name × List Name)) (n : Name) (f d : Nat) :
    depth g f n = some d → depth g (f + 1) n = some d :=
  Oas3.Proofs.Depth.depth_mono g f n d

theorem depth_mono' (g : List (Name × List Name)) (n : Name) {f f' : Nat} (d : Nat) (hle : f ≤ f') :
    depth g f n = some d → depth g f' n = some d :=
  Oas3.Proofs.Depth.depth_mono' g hle n d

/-- a schema on an allOf cycle: `compute_depth` does not return, whatever the stack size
(recorded finding: stack overflow on cyclic allOf). -/
theorem depth_cyclic_none (g : List (Name × List Name)) (n : Name) :
    ∀ fuel, TC (fun a b => b ∈ parents g a) n n → depth g fuel n = none :=
  fun fuel hc => Oas3.Proofs.Depth.depth_cyclic_none g n hc fuel

/-- …and the same for every schema from which such a cycle can be reached through allOf parents. -/
theorem depth_reaches_cycle_none (g : List (Name × List Name)) (n m : Name)
    (hnm : n = m ∨ TC (fun a b => b ∈ parents g a) n m) (hc : TC (fun a b => b ∈ parents g a) m m) :
    ∀ fuel, depth g fuel n = none :=
  fun fuel => Oas3.Proofs.Depth.depth_reachesCycle_none g fuel n ⟨m, hnm, hc⟩

/-- acyclic allOf graph (given by a rank function decreasing along parent edges): the recursion returns,
within `rank n + 1` nested calls. -/
theorem depth_acyclic_some (g : List (Name × List Name)) (rank : Name → Nat)
    (hr : ∀ a b, b ∈ parents g a → rank b < rank a) : ∀ n, (depth g (rank n + 1) n).isSome :=
  fun n => Oas3.Proofs.Depth.depth_acyclic_some g rank hr n

/-- the two hypotheses are exclusive: a ranked graph has no cycle. -/
theorem rank_no_cycle (g : List (Name × List Name)) (rank : Name → Nat)
    (hr : ∀ a b, b ∈ parents g a → rank b < rank a) (n : Name) : ¬ TC (fun a b => b ∈ parents g a) n n :=
  fun h => Nat.lt_irrefl _ (Oas3.Proofs.Depth.rank_no_cycle g rank hr n n h)

/-- what is returned: 0 for a schema without allOf parents, else 1 + the maximum over the parents. -/
theorem depth_value (g : List (Name × List Name)) (f : Nat) (n : Name) (d : Nat) (h : depth g (f + 1) n = some d) :
    (parents g n = [] ∧ d = 0) ∨
    (parents g n ≠ [] ∧ (∀ p ∈ parents g n, ∃ dp, depth g f p = some dp ∧ dp < d) ∧
      ∃ p ∈ parents g n, depth g f p = some (d - 1) ∧ 0 < d) :=
  Oas3.Proofs.Depth.depth_value g f n d h

/-- characterisation of termination on the (finite) allOf graph: `compute_depth` returns for `n` with SOME
stack size iff no allOf cycle is reachable from `n`; and then `|g| + 1` nested calls suffice. -/
theorem depth_terminates_iff (g : List (Name × List Name)) (n : Name) :
    (∃ f, (depth g f n).isSome) ↔
      ¬ ∃ m, (n = m ∨ TC (fun a b => b ∈ parents g a) n m) ∧ TC (fun a b => b ∈ parents g a) m m :=
  Oas3.Proofs.Depth.depth_terminates_iff g n

theorem depth_some_of_no_cycle (g : List (Name × List Name)) (n : Name)
    (h : ¬ ∃ m, (n = m ∨ TC (fun a b => b ∈ parents g a) n m) ∧ TC (fun a b => b ∈ parents g a) m m) :
    (depth g (g.length + 1) n).isSome :=
  Oas3.Proofs.Depth.depth_some_of_no_cycle g n h

/-- the two-schema allOf cycle `A ⇄ B` -/
def gCycle : List (Name × List Name) := [("A".toList, ["B".toList]), ("B".toList, ["A".toList])]

theorem gCycle_cycle : TC (fun a b => b ∈ parents gCycle a) "A".toList "A".toList :=
  .step (b := "B".toList) (by decide) (.base (by decide))

/-- concrete witness by evaluation, for stack depths below 50 … -/
theorem cex_allof_cycle : ∀ f < 50, depth gCycle f "A".toList = none := by decide +kernel

/-- … and for every depth, by the general theorem. -/
theorem cex_allof_cycle_all : ∀ f, depth gCycle f "A".toList = none :=
  fun f => depth_cyclic_none gCycle _ f gCycle_cycle

/-- a terminating instance: `C allOf [B, Root]`, `B allOf [A]`, `A allOf [Root]` -/
def gChain : List (Name × List Name) :=
  [("C".toList, ["B".toList, "Root".toList]), ("B".toList, ["A".toList]), ("A".toList, ["Root".toList])]

example : ["Root", "A", "B", "C"].map (fun n => depth gChain 4 n.toList) = [some 0, some 1, some 2, some 3] := by
  decide +kernel

/-- too little stack: `none` -/
example : depth gChain 3 "C".toList = none := by decide +kernel

/-! ## the three-step module write -/

/-- a fault before the first file leaves the directory contents unchanged -/
theorem write_fault0_unchanged (ex : List Name) : writeModule ex (some 0) = ex := by
  simp [writeModule]

/-- recorded known limitation: a fault after the first file leaves a half-written module
(`types.rs` without `client.rs` / `mod.rs`); the write is not atomic. -/
theorem cex_partial_write : writeModule [] (some 1) = ["types.rs".toList] := by decide +kernel

theorem cex_partial_write2 : writeModule [] (some 2) = ["types.rs".toList, "client.rs".toList] := by decide +kernel

/-- success: all three files, in the order types.rs, client.rs, mod.rs -/
theorem write_success : writeModule [] none = ["types.rs".toList, "client.rs".toList, "mod.rs".toList] := by
  decide +kernel

/-- success, any pre-existing directory contents: the three files are present and nothing is removed -/
theorem write_success_mem (ex : List Name) :
    (∀ f ∈ ["types.rs".toList, "client.rs".toList, "mod.rs".toList], f ∈ writeModule ex none) ∧
    (∀ f ∈ ex, f ∈ writeModule ex none) := by
  refine ⟨?_, ?_⟩
  · intro f hf
    unfold writeModule
    dsimp only
    by_cases hc : f ∈ ex
    · exact List.mem_append_left _ hc
    · apply List.mem_append_right
      rw [List.mem_filter]
      exact ⟨hf, by simpa using hc⟩
  · intro f hf
    exact List.mem_append_left _ hf

/-- a fault at step `k ≥ 3` is a fault after everything was written -/
theorem write_fault_late (ex : List Name) (k : Nat) (hk : 3 ≤ k) : writeModule ex (some k) = writeModule ex none := by
  unfold writeModule
  dsimp only
  rw [List.take_of_length_le (by simpa using hk)]

end Oas3.Props.C12
