import Oas3Model.Gen.PanicSites
import Oas3Model.Model.Depth
namespace Oas3.Props.C12
open Oas3.Gen.PanicSites Oas3.Depth

/-- reviewed list of every potentially panicking / token-parsing construct in non-test code, with the
reason it cannot fire on parser-accepted input — or the known finding it belongs to. -/
def justified : List ((List Char × List Char × List Char × Nat) × String) := [
  (("generator/ast/derives.rs".toList, "to_tokens".toList, "parse-tokens".toList, 0), "fixed-input: derive names are string constants of the generator"),
  (("generator/ast/derives.rs".toList, "to_tokens".toList, "expect".toList, 0), "fixed-input: derive names are string constants of the generator"),
  (("generator/ast/documentation.rs".toList, "format_with_mdformat".toList, "unwrap".toList, 0), "only with --doc-format (external mdformat process); Mutex/IO result"),
  (("generator/ast/tokens.rs".toList, "to_tokens".toList, "Ident::new".toList, 0), "ident from the sanitisers (C09 legality theorems); exceptional classes are known findings (KnownRawCrateSuper, KnownRawPassthrough, KnownUnderscoreField, KnownRawSelf, KnownVariantSuffixPanic)"),
  (("generator/ast/tokens.rs".toList, "to_tokens".toList, "Ident::new".toList, 1), "ident from the sanitisers (C09 legality theorems); exceptional classes are known findings (KnownRawCrateSuper, KnownRawPassthrough, KnownUnderscoreField, KnownRawSelf, KnownVariantSuffixPanic)"),
  (("generator/ast/types.rs".toList, "<top>".toList, "expect".toList, 0), "static regex literal"),
  (("generator/ast/types.rs".toList, "to_tokens".toList, "syn::parse_str".toList, 0), "type string built from sanitised names and fixed templates; customisation paths come from the command line (C19 type feeder)"),
  (("generator/ast/types.rs".toList, "to_tokens".toList, "panic!".toList, 0), "type string built from sanitised names and fixed templates; customisation paths come from the command line (C19 type feeder)"),
  (("generator/ast/types.rs".toList, "from".toList, "unwrap".toList, 0), "infallible by construction (checked branch)"),
  (("generator/ast/validation_attrs.rs".toList, "to_tokens".toList, "parse-tokens".toList, 0), "numeric literal rendered by format_number / render_integer (C19 numeric feeder)"),
  (("generator/ast/validation_attrs.rs".toList, "to_tokens".toList, "unwrap".toList, 0), "numeric literal rendered by format_number / render_integer (C19 numeric feeder)"),
  (("generator/ast/validation_attrs.rs".toList, "to_tokens".toList, "parse-tokens".toList, 1), "numeric literal rendered by format_number / render_integer (C19 numeric feeder)"),
  (("generator/ast/validation_attrs.rs".toList, "to_tokens".toList, "unwrap".toList, 1), "numeric literal rendered by format_number / render_integer (C19 numeric feeder)"),
  (("generator/ast/validation_attrs.rs".toList, "to_tokens".toList, "parse-tokens".toList, 2), "numeric literal rendered by format_number / render_integer (C19 numeric feeder)"),
  (("generator/ast/validation_attrs.rs".toList, "to_tokens".toList, "unwrap".toList, 2), "numeric literal rendered by format_number / render_integer (C19 numeric feeder)"),
  (("generator/ast/validation_attrs.rs".toList, "to_tokens".toList, "parse-tokens".toList, 3), "numeric literal rendered by format_number / render_integer (C19 numeric feeder)"),
  (("generator/ast/validation_attrs.rs".toList, "to_tokens".toList, "unwrap".toList, 3), "numeric literal rendered by format_number / render_integer (C19 numeric feeder)"),
  (("generator/ast/validation_attrs.rs".toList, "to_tokens".toList, "parse-tokens".toList, 4), "numeric literal rendered by format_number / render_integer (C19 numeric feeder)"),
  (("generator/ast/validation_attrs.rs".toList, "to_tokens".toList, "unwrap".toList, 4), "numeric literal rendered by format_number / render_integer (C19 numeric feeder)"),
  (("generator/ast/validation_attrs.rs".toList, "to_tokens".toList, "parse-tokens".toList, 5), "numeric literal rendered by format_number / render_integer (C19 numeric feeder)"),
  (("generator/ast/validation_attrs.rs".toList, "to_tokens".toList, "unwrap".toList, 5), "numeric literal rendered by format_number / render_integer (C19 numeric feeder)"),
  (("generator/codegen/attributes.rs".toList, "generate_builder_attrs".toList, "Ident::new".toList, 0), "bon attribute name from a fixed list"),
  (("generator/codegen/client.rs".toList, "to_tokens".toList, "format_ident!".toList, 0), "known finding KnownOptionsTrace: reqwest::Method::{OPTIONS,TRACE} is not an identifier"),
  (("generator/codegen/client.rs".toList, "new".toList, "unwrap".toList, 0), "static LitStr / checked Option (request_type is set whenever response_enum is)"),
  (("generator/codegen/client.rs".toList, "new".toList, "syn::parse_str".toList, 0), "static LitStr / checked Option (request_type is set whenever response_enum is)"),
  (("generator/codegen/client.rs".toList, "parse_body".toList, "format_ident!".toList, 0), "request type name from the sanitiser"),
  (("generator/codegen/client.rs".toList, "generate".toList, "format_ident!".toList, 0), "request type / method name from the sanitisers; known finding KnownTrimToNonIdent for trimmed operation ids"),
  (("generator/codegen/client.rs".toList, "generate".toList, "format_ident!".toList, 1), "request type / method name from the sanitisers; known finding KnownTrimToNonIdent for trimmed operation ids"),
  (("generator/codegen/client.rs".toList, "new".toList, "expect".toList, 0), "static LitStr / checked Option (request_type is set whenever response_enum is)"),
  (("generator/codegen/client.rs".toList, "new".toList, "expect".toList, 1), "static LitStr / checked Option (request_type is set whenever response_enum is)"),
  (("generator/codegen/constants.rs".toList, "to_tokens".toList, "expect".toList, 0), "regex validated by Regex::new before it is recorded (extract_all_validation)"),
  (("generator/codegen/mod.rs".toList, "format".toList, "syn::parse2".toList, 0), "error is propagated with `?` (syn::parse2 result), not unwrapped"),
  (("generator/codegen/mod_file.rs".toList, "to_tokens".toList, "Ident::new".toList, 0), "fixed module names"),
  (("generator/codegen/server.rs".toList, "to_tokens".toList, "format_ident!".toList, 0), "fixed identifier ApiServer"),
  (("generator/codegen/types.rs".toList, "to_tokens".toList, "syn::parse_str".toList, 0), "result handled (falls back), not unwrapped"),
  (("generator/codegen/types.rs".toList, "to_tokens".toList, "syn::parse_str".toList, 1), "result handled (falls back), not unwrapped"),
  (("generator/converter/inline_resolver.rs".toList, "resolve_inline_schema_with_fn".toList, "unwrap".toList, 0), "guarded by a preceding is_some / len check in the same function"),
  (("generator/converter/structs.rs".toList, "convert_struct".toList, "unreachable!".toList, 0), "unreachable arm after an exhaustive kind check"),
  (("generator/converter/type_resolver.rs".toList, "inline_union".toList, "unwrap".toList, 0), "guarded by a preceding is_some / len check in the same function"),
  (("generator/converter/type_resolver.rs".toList, "inline_union_array_item".toList, "unwrap".toList, 0), "guarded by a preceding is_some / len check in the same function"),
  (("generator/converter/type_resolver.rs".toList, "try_flatten_nested_union".toList, "unwrap".toList, 0), "guarded by a preceding is_some / len check in the same function"),
  (("generator/converter/type_resolver.rs".toList, "try_flatten_nested_union".toList, "unwrap".toList, 1), "guarded by a preceding is_some / len check in the same function"),
  (("generator/converter/type_resolver.rs".toList, "try_flatten_nested_union".toList, "unwrap".toList, 2), "guarded by a preceding is_some / len check in the same function"),
  (("generator/naming/identifiers.rs".toList, "<top>".toList, "unwrap".toList, 0), "static regex literals"),
  (("generator/naming/identifiers.rs".toList, "<top>".toList, "unwrap".toList, 1), "static regex literals"),
  (("generator/naming/identifiers.rs".toList, "next".toList, "unwrap".toList, 0), "iterator just stored in self.pending_*"),
  (("generator/naming/identifiers.rs".toList, "next".toList, "unwrap".toList, 1), "iterator just stored in self.pending_*"),
  (("generator/naming/inference.rs".toList, "try_from".toList, "unwrap".toList, 0), "guarded by is_i64()/is_f64() checks"),
  (("generator/naming/inference.rs".toList, "try_from".toList, "unwrap".toList, 1), "guarded by is_i64()/is_f64() checks"),
  (("generator/naming/operations.rs".toList, "trim_common_affixes".toList, "unwrap".toList, 0), "slice has >= 2 elements on this path (match on [] | [_] returned earlier)"),
  (("generator/postprocess/response_enum.rs".toList, "compute_replacements".toList, "unwrap".toList, 0), "group has > 1 element")]

/-- every such construct found in the CURRENT sources is in the reviewed list: a new `unwrap`,
`expect`, `panic!`, `format_ident!`, `Ident::new`, token re-parse … breaks this proof. -/
theorem panic_sites_justified : ∀ s ∈ sites, s ∈ justified.map (·.1) := by decide +kernel

end Oas3.Props.C12
