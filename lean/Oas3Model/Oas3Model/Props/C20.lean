import Oas3Model.Model.EventStream
namespace Oas3.Props.C20
open Oas3.Sse Oas3.EventStream

/-- a completed line shrinks the buffer (termination of the drain loop). -/
theorem scan_consumes (b l r : List Char) (h : scan b = some (l, r)) : r.length < b.length :=
  scan_lt b l r h

end Oas3.Props.C20
