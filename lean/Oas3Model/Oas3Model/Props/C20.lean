import Oas3Model.Sem.Sse
import Oas3Model.Model.EventStream
import Oas3Model.Proofs.Sse
import Oas3Model.Proofs.SseWake
/-
C20 — the SSE event stream: framing is stable under arriving input, the inner result sequence does
not depend on how the transport cuts the byte stream into chunks / interleaves `Pending`, and the
wrapper's `poll_next` yields exactly one item per non-empty-data event, in order, without ending
the stream on a bad item and without losing a wake-up.

Only statements, spec-level definitions and non-vacuity examples live here; proofs are in
`Oas3Model/Proofs/Sse.lean`.
-/
namespace Oas3.Props.C20
open Oas3.Sse Oas3.EventStream

/-! ## spec-level definitions -/

/-- the whole byte stream delivered by a scripted transport -/
def allBytes : List In → List UInt8
  | [] => []
  | .chunk bs :: r => bs ++ allBytes r
  | .pending :: r => allBytes r

/-- the obviously-right consumer view of the wrapper: one item per non-empty-data event, in order;
errors are items too (they do not end the stream); ends exactly at the inner `done` (or panic). -/
def specTrace {R : Type} (dec : List Char → R) : List InnerOut → List (OuterOut R)
  | [] => [.done]
  | .ev d :: r => if d.isEmpty then specTrace dec r else .item (dec d) :: specTrace dec r
  | .utf8Err :: r => .sseErr :: specTrace dec r
  | .pending :: r => .pending :: specTrace dec r
  | .done :: _ => [.done]
  | .panic :: _ => [.panic]

def isPending {R : Type} : OuterOut R → Bool
  | .pending => true
  | _ => false

/-! ## 1. line framing -/

/-- a completed line is never re-interpreted when more input arrives -/
theorem scan_append (b m l r : List Char) : scan b = some (l, r) → scan (b ++ m) = some (l, r ++ m) :=
  Oas3.Sse.scan_append' b m l r

/-! ## 2. event parser -/

/-- draining `buf ++ m` = draining `buf`, then draining what is left with `m` appended -/
theorem drainAll_append (buf m data : List Char) :
    drainAll (buf ++ m) data =
      (let (b', d', evs) := drainAll buf data
       let (b'', d'', evs') := drainAll (b' ++ m) d'
       (b'', d'', evs ++ evs')) :=
  Oas3.Sse.drainAll_append' buf m data

/-- after draining, nothing more is available -/
theorem drainAll_idem (buf data : List Char) :
    (let (b', d', _) := drainAll buf data
     drainAll b' d' = (b', d', [])) :=
  Oas3.Sse.drainAll_idem' buf data

/-! ## 3. UTF-8 layer -/

/-- a decoded scalar only depends on the (at most 4) bytes it spans -/
theorem decode1_stable (x y : List UInt8) (c : Char) (n : Nat) :
    decode1 x = some (c, n) → n ≤ x.length ∧ 0 < n ∧ n ≤ 4 ∧ decode1 (x ++ y) = some (c, n) := fun h =>
  ⟨(decode1_bound x c n h).2, (decode1_bound x c n h).1, decode1_le4 x c n h, decode1_append x y c n h⟩

theorem decode1_prefix4 (x : List UInt8) : decode1 x = decode1 (x.take 4) := decode1_take4 x

theorem utf8Split_append (a b : List UInt8) :
    utf8Split (a ++ b) =
      (let (cs, rem) := utf8Split a
       let (cs', rem') := utf8Split (rem ++ b)
       (cs ++ cs', rem')) :=
  Oas3.Sse.utf8Split_append' a b

/-! ## 4. chunk invariance of the inner stream -/

/-- however the byte stream is cut into chunks (also inside a UTF-8 sequence or inside CRLF) and
wherever `Pending` polls are interleaved, the inner result sequence is that of the stream delivered
whole. -/
theorem chunk_invariance (script : List In) :
    (innerRun {} script).filter (fun o => o != .pending) = innerRun {} [.chunk (allBytes script)] :=
  innerRun_whole allBytes rfl (fun _ _ => rfl) (fun _ => rfl) script {} bytesInv_init

/-- the same from any state whose byte buffer holds no decodable prefix (all reachable states) -/
theorem chunk_invariance_from (st : St) (h : utf8Split st.bytes = ([], st.bytes)) (script : List In) :
    (innerRun st script).filter (fun o => o != .pending) = innerRun st [.chunk (allBytes script)] :=
  innerRun_whole allBytes rfl (fun _ _ => rfl) (fun _ => rfl) script st h

/-! ## 5./6. the wrapper's poll loop -/

theorem poll_spec {R : Type} (dec : List Char → R) (is : List InnerOut) :
    outerTrace dec is = specTrace dec is := by
  induction is with
  | nil => exact outerTrace_nil dec
  | cons i t ih =>
    cases i <;>
      simp [specTrace, outerTrace_pending, outerTrace_ev, outerTrace_utf8Err, outerTrace_done,
        outerTrace_panic, ih]

/-- the wrapper answers `Pending` only when the inner stream just answered `Pending` (so the waker is
registered), having consumed only skipped empty events before -/
theorem no_lost_wakeup {R : Type} (dec : List Char → R) (is : List InnerOut) :
    (pollNext dec is).1 = .pending →
      ∃ pre rest, is = pre ++ .pending :: rest ∧ (∀ i ∈ pre, i = .ev []) ∧ (pollNext dec is).2 = rest :=
  pollNext_pending dec is

/-! ## 7. end to end -/

/-- what the consumer sees (ignoring `Pending`) does not depend on chunking / scheduling -/
theorem exactly_once {R : Type} (dec : List Char → R) (script : List In) :
    (outerTrace dec (innerRun {} script)).filter (fun o => !isPending o) =
      outerTrace dec (innerRun {} [.chunk (allBytes script)]) := by
  rw [outerTrace_filter dec (fun o => !isPending o) rfl (fun _ => rfl) rfl rfl rfl, chunk_invariance]

/-- ... and, when the crate does not panic, it is: one item per non-empty-data event of the whole
stream, in order, then one `SseParse` error iff the stream ends inside a UTF-8 sequence, then the end -/
theorem exactly_once_items {R : Type} (dec : List Char → R) (script : List In) (st' : St)
    (evs : List (List Char)) (h : feedBytes {} (allBytes script) = some (st', evs)) :
    outerTrace dec (innerRun {} [.chunk (allBytes script)]) =
      (evs.filter (fun d => !d.isEmpty)).map (fun d => .item (dec d))
        ++ (if st'.bytes.isEmpty then [] else [.sseErr]) ++ [.done] := by
  rw [innerRun_single, h]
  simp only
  rw [outerTrace_evs]
  split <;> simp [outerTrace_utf8Err, outerTrace_done]

theorem exactly_once_panic {R : Type} (dec : List Char → R) (script : List In)
    (h : feedBytes {} (allBytes script) = none) :
    outerTrace dec (innerRun {} [.chunk (allBytes script)]) = [.panic] := by
  rw [innerRun_single, h]
  exact outerTrace_panic dec []

/-! ## 8. concrete witnesses -/

/-- DEFECT of the inner crate reproduced by the model: `data: 1\r\r` then end of stream. The second
CR is a complete blank line per the SSE grammar, but nom's streaming `line` keeps a trailing bare CR
`Incomplete` (it could be the start of CRLF), so the event `1` is never delivered ... -/
theorem trailingCR_cex :
    innerRun {} [.chunk [100,97,116,97,58,32,49,13,13]] = [.done] := by decide +kernel

/-- ... whereas it is delivered as soon as one more byte arrives -/
theorem trailingCR_ok :
    innerRun {} [.chunk [100,97,116,97,58,32,49,13,13,10]] = [.ev ['1'], .done] := by decide +kernel

/-- DEFECT of the inner crate reproduced by the model: a stream starting with a UTF-8 BOM
(`EF BB BF`) makes the crate panic (`&string[1..]` is not on a char boundary). -/
theorem bom_panic_cex :
    innerRun {} [.chunk [0xEF,0xBB,0xBF,100,97,116,97,58,32,49,10,10]] = [.panic] := by decide +kernel

/-- the consumer of the wrapper sees that panic, and nothing else -/
theorem bom_panic_outer :
    outerTrace (R := Nat) List.length (innerRun {} [.chunk [0xEF,0xBB,0xBF,100,97,116,97,58,32,49,10,10]])
      = [.panic] := by decide +kernel

/-! ### non-vacuity -/

/-- `data: é\r\n\r\ndata: 2\n\n` cut inside the 2-byte `é` (C3|A9), inside both CRLFs, with `Pending`s -/
def cutScript : List In :=
  [.chunk [100,97,116,97,58,32,0xC3], .pending, .chunk [0xA9,13], .chunk [10,13], .pending,
   .chunk [10,100,97,116,97,58,32,50,10,10]]

example : allBytes cutScript =
    [100,97,116,97,58,32,0xC3,0xA9,13,10,13,10,100,97,116,97,58,32,50,10,10] := by decide

example : innerRun {} cutScript =
    [.pending, .pending, .ev [Char.ofNat 0xE9], .ev ['2'], .done] := by decide +kernel

example : innerRun {} [.chunk (allBytes cutScript)] = [.ev [Char.ofNat 0xE9], .ev ['2'], .done] := by
  decide +kernel

example : outerTrace (R := Nat) List.length (innerRun {} cutScript) =
    [.pending, .pending, .item 1, .item 1, .done] := by decide +kernel

/-- hypothesis of `exactly_once_items` is satisfiable (here with two events and nothing left over) -/
example : (feedBytes {} (allBytes cutScript)).map (fun p => (p.1.bytes, p.2)) =
    some ([], [[Char.ofNat 0xE9], ['2']]) := by decide +kernel

/-- a stream ending inside a UTF-8 sequence: the event, then one `SseParse` error, then the end -/
example : outerTrace (R := Nat) List.length (innerRun {} [.chunk [100,97,116,97,58,32,49,10,10,0xC3]]) =
    [.item 1, .sseErr, .done] := by decide +kernel

/-- `scan_append` hypothesis is satisfiable, and a trailing bare CR is *not* a completed line -/
example : scan ['a', '\r', '\n', 'b'] = some (['a'], ['b']) := by decide
example : scan ['a', '\r'] = none := by decide
example : scan (['a', '\r'] ++ ['\n', 'b']) = some (['a'], ['b']) := by decide

/-- `drainAll` : two events available, `x` left in the buffer, builder holds `data:3` -/
example : drainAll "data:1\n\ndata:2\n\ndata:3\nx".toList [] =
    (['x'], ['3', '\n'], [['1'], ['2']]) := by decide +kernel

/-- `utf8Split` keeps an incomplete sequence, and rejects nothing that later completes -/
example : utf8Split [0x61, 0xE2, 0x82] = (['a'], [0xE2, 0x82]) := by decide +kernel
example : utf8Split ([0xE2, 0x82] ++ [0xAC]) = ([Char.ofNat 0x20AC], []) := by decide +kernel

/-- the wrapper: errors are items and do not end the stream; empty-data events are skipped; nothing
after `done` is looked at -/
example : outerTrace (R := Nat) List.length
    [.utf8Err, .ev ['a'], .ev [], .pending, .ev ['b', 'c'], .done, .ev ['z']] =
    [.sseErr, .item 1, .pending, .item 2, .done] := by decide +kernel

/-- `no_lost_wakeup` hypothesis is satisfiable -/
example : (pollNext (R := Nat) List.length [.ev [], .ev [], .pending, .ev ['a']]) =
    (.pending, [.ev ['a']]) := by decide

/-! ## 9. wake-ups: the consumer is a task of an executor, re-polled only after a wake-up

`Step` scripts say for every transport step `Ready(chunk)` / `Pending`, waker kept and woken later /
`Pending`, waker woken before returning.  `execTrace` is the consumer under executor semantics: it
stops for good (`Seen.stalled`) at a `Pending` for which no wake-up is due. -/

/-- the bytes a `Step` script delivers -/
def stepBytes (script : List Step) : List UInt8 := allBytes (script.map Step.toIn)

def seenPending {R : Type} (s : Seen R) : Bool :=
  match s.toOuter with
  | some o => isPending o
  | none => false

/-- ONE call of `poll_next`, from any state: `Pending` is only ever answered with a wake-up due -/
theorem no_lost_wakeup_poll {R : Type} (dec : List Char → R) (is : List InnerW) :
    (pollStep dec is).out = .pending →
      (pollStep dec is).innerPending = true ∨ (pollStep dec is).wokeSelf = true := fun h =>
  Or.inl (pollStep_pending dec is h).1

/-- where that `Pending` comes from: the inner stream's own `Pending`, reached over skipped
empty-data events only (executor counterpart of `no_lost_wakeup`) -/
theorem no_lost_wakeup_shape {R : Type} (dec : List Char → R) (is : List InnerW) :
    (pollStep dec is).out = .pending →
      ∃ pre w rest, is = pre ++ .pending w :: rest ∧ (∀ i ∈ pre, i = .ev []) ∧
        (pollStep dec is).rest = rest ∧ (pollStep dec is).transportWoke = w := fun h =>
  (pollStep_pending dec is h).2

/-- every schedule, of any length: the executor-driven consumer never stalls (and the fuel of the
definition never runs out), and every `Pending` it receives was answered with the inner stream
holding the waker -/
theorem no_lost_wakeup_run {R : Type} (dec : List Char → R) (script : List Step) :
    Seen.stalled ∉ execTrace dec (innerRunW {} script) ∧ Seen.fuel ∉ execTrace dec (innerRunW {} script) ∧
      ∀ ip w, Seen.out .pending ip w ∈ execTrace dec (innerRunW {} script) → ip = true :=
  ⟨(execTrace_no_stall dec _).1, (execTrace_no_stall dec _).2,
    fun ip w h => execWith_pending_inner dec _ _ ip w h⟩

/-- `poll_spec` under executor semantics: poll by poll the task sees the spec trace -/
theorem poll_spec_exec {R : Type} (dec : List Char → R) (is : List InnerW) :
    (execTrace dec is).map Seen.toOuter = (specTrace dec (is.map InnerW.erase)).map some := by
  rw [execTrace_outer, poll_spec]

/-- `exactly_once` under executor semantics: for every chunking and every schedule of `Pending`s
(woken later or at once) the items obtained by a task that is re-polled only after a wake-up are
those of the byte stream delivered whole, followed by the end of the stream -/
theorem exactly_once_exec {R : Type} (dec : List Char → R) (script : List Step) :
    ((execTrace dec (innerRunW {} script)).filter (fun s => !seenPending s)).map Seen.toOuter =
      (outerTrace dec (innerRun {} [.chunk (stepBytes script)])).map some := by
  have h1 := execTrace_outer dec (innerRunW {} script)
  rw [innerRunW_erase] at h1
  have h2 := exactly_once dec (script.map Step.toIn)
  let q : Option (OuterOut R) → Bool := fun o => match o with | some o => !isPending o | none => true
  have e1 : (fun s : Seen R => !seenPending s) = q ∘ Seen.toOuter := by
    funext s; cases s <;> simp [seenPending, Seen.toOuter, q]
  have e2 : (q ∘ some) = (fun o : OuterOut R => !isPending o) := by funext o; rfl
  rw [e1, ← List.filter_map, h1, List.filter_map, e2, h2]
  rfl

theorem exactly_once_exec_items {R : Type} (dec : List Char → R) (script : List Step) (st' : St)
    (evs : List (List Char)) (h : feedBytes {} (stepBytes script) = some (st', evs)) :
    ((execTrace dec (innerRunW {} script)).filter (fun s => !seenPending s)).map Seen.toOuter =
      (((evs.filter (fun d => !d.isEmpty)).map (fun d => OuterOut.item (dec d))
        ++ (if st'.bytes.isEmpty then [] else [OuterOut.sseErr]) ++ [OuterOut.done] : List (OuterOut R))).map some := by
  rw [exactly_once_exec, ← exactly_once_items dec (script.map Step.toIn) st' evs h]
  rfl

/-! ### why the wake obligation is part of the property: a skip budget

`pollBudget n selfWake` is the loop with "give the executor a chance after `n` skipped heartbeats".
Returning `Pending` there is only sound together with `wake_by_ref`: the inner stream's last answer
was `Ready`, nobody holds the waker. -/

/-- `data: 1`, then the three spellings of an empty-data event, then `data: 2`; ONE chunk -/
def heartbeats : List Step :=
  [.chunk ([100,97,116,97,58,32,49,10,10] ++ [100,97,116,97,58,10,10] ++ [100,97,116,97,10,10]
    ++ [100,97,116,97,58,32,10,10] ++ [100,97,116,97,58,32,50,10,10])]

example : innerRunW {} heartbeats = [.ev ['1'], .ev [], .ev [], .ev [], .ev ['2'], .done] := by decide +kernel

/-- today's loop: both events, then the end -/
theorem budget_reference :
    execTrace (R := Nat) List.length (innerRunW {} heartbeats) =
      [.out (.item 1) false false, .out (.item 1) false false, .out .done false false] := by decide +kernel

/-- budget 2 WITHOUT self-wake: the task stalls after the first event; `2` is never delivered and
the stream never ends although the byte stream has ended -/
theorem budget_no_selfwake_stalls :
    execWith (R := Nat) (pollBudget 2 false List.length 0) 7 (innerRunW {} heartbeats) =
      [.out (.item 1) false false, .stalled] := by decide +kernel

/-- the same budget WITH self-wake is fine: an extra `Pending` (woken), nothing lost -/
theorem budget_selfwake_ok :
    execWith (R := Nat) (pollBudget 2 true List.length 0) 7 (innerRunW {} heartbeats) =
      [.out (.item 1) false false, .out .pending false true, .out (.item 1) false false, .out .done false false] := by
  decide +kernel

/-- a budget of 32 against 32 heartbeats in one chunk -/
theorem budget32_no_selfwake_stalls :
    execWith (R := Nat) (pollBudget 32 false List.length 0) 40
      (innerRunW {} [.chunk ([100,97,116,97,58,32,49,10,10] ++ (List.replicate 32 [100,97,116,97,58,10,10]).flatten
        ++ [100,97,116,97,58,32,50,10,10])]) =
      [.out (.item 1) false false, .stalled] := by decide +kernel

/-- ... while 31 of them, or a transport `Pending` inside the run, hide it -/
theorem budget32_short_run_hidden :
    execWith (R := Nat) (pollBudget 32 false List.length 0) 40
      (innerRunW {} [.chunk ([100,97,116,97,58,32,49,10,10] ++ (List.replicate 31 [100,97,116,97,58,10,10]).flatten
        ++ [100,97,116,97,58,32,50,10,10])]) =
      [.out (.item 1) false false, .out (.item 1) false false, .out .done false false] := by decide +kernel

/-- for EVERY budget `n ≥ 1` and every schedule: with self-wake the executor-driven consumer never
stalls and obtains exactly the items of the byte stream delivered whole, then the end (so the
property does not forbid yielding to the executor; it forbids doing so silently) -/
theorem budget_selfwake_exactly_once {R : Type} (dec : List Char → R) (n : Nat) (hn : 0 < n) (script : List Step) :
    ((execWith (pollBudget n true dec 0) ((innerRunW {} script).length + 2) (innerRunW {} script)).map
        Seen.toOuter).filter keptOuter =
      (outerTrace dec (innerRun {} [.chunk (stepBytes script)])).map some := by
  rw [show (innerRunW {} script).length + 2 = ((innerRunW {} script).length + 1) + 1 from rfl, execWith_succ, execBudget_kept n dec _ 0 _ hn (Nat.lt_succ_self _), innerRunW_erase]
  have e : (keptOuter ∘ some) = (fun o : OuterOut R => !isPending o) := by
    funext o; cases o <;> rfl
  rw [List.filter_map, e, exactly_once dec (script.map Step.toIn)]
  rfl

/-- non-vacuity of the executor statements: a schedule with both kinds of `Pending` -/
def wakeScript : List Step :=
  [.chunk [100,97,116,97,58,32,0xC3], .pendLater, .chunk [0xA9,13], .chunk [10,13], .pendWake,
   .chunk [10,100,97,116,97,58,10,10], .pendLater, .chunk [100,97,116,97,58,32,50,10,10]]

example : execTrace (R := Nat) List.length (innerRunW {} wakeScript) =
    [.out .pending true false, .out .pending true true, .out (.item 1) false false, .out .pending true false,
     .out (.item 1) false false, .out .done false false] := by decide +kernel

end Oas3.Props.C20
