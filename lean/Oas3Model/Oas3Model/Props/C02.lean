import Oas3Model.Proofs.Codec
import Oas3Model.Proofs.Union
import Oas3Model.Proofs.EnumCtor
/-!
# C02 — generated schema types are faithful JSON codecs for their schemas

`J` = `judge s t doc` (Sem/Codec.lean): a document valid against `s` round-trips through the emitted type
`t` (decode, encode) to a document that is again valid and carries the same members (absent ≈ null for
optional members); a document with a type-level shape violation is rejected.  `F` = `typeOf` (Model/Codec.lean).
`classes` names the positions where today's generator provably breaks the property.

What is proved for ALL inputs (all naming functions `fname`, `vname`):
* the characterisation `J ∨ Known` on the array fragment (scalars, every integer width, arrays to any
  depth, one nullable wrapper) — `C02_roundtrip_char_partial`;
* two LIFTING theorems that hold for an arbitrary inner schema (objects, enums, maps included): the
  property passes through `type: array` (`C02_arr_lift`) and through a nullable wrapper (`C02_nullable_lift`);
* the width class is exact at an integer leaf (`C02_width_exact`): it contains precisely the failing documents.
What is NOT proved in general: the object / map / enum constructors themselves.  For those the model and
`Sem` are tied to the code by E and A, the judge is evaluated on every generated case, and each known class
is exhibited below by `decide` on the model.
-/
namespace Oas3.Codec.C02
open Oas3.Codec

/-- characterisation on the array fragment: the property holds, or the document is in a listed class
(on this fragment the only class is `KnownNumericWidth`) -/
theorem C02_roundtrip_char_partial (fname : Str → Str) (vname : J → Str) (s : S) (h : frag s = true) (doc : J) :
    judge s (typeOf fname vname s) doc = true ∨ classes fname vname s doc ≠ [] := by
  by_cases hc : classes fname vname s doc = []
  · exact Or.inl (good_frag fname vname s h doc hc)
  · exact Or.inr hc

/-- the property lifts through arrays, whatever the item schema is -/
theorem C02_arr_lift (fname : Str → Str) (vname : J → Str) (s : S)
    (hs : ∀ doc, classes fname vname s doc = [] → judge s (typeOf fname vname s) doc = true) :
    ∀ doc, classes fname vname (.arr s) doc = [] → judge (.arr s) (typeOf fname vname (.arr s)) doc = true :=
  good_arr fname vname s hs

/-- the property lifts through a nullable wrapper, whatever the inner schema is (it must not itself admit
`null`, and its type must not already be an `Option`) -/
theorem C02_nullable_lift (fname : Str → Str) (vname : J → Str) (s : S)
    (hs : ∀ doc, classes fname vname s doc = [] → judge s (typeOf fname vname s) doc = true)
    (hn : valid false s .null = false) (ht : (typeOf fname vname s).isOption = false) :
    ∀ doc, classes fname vname (.nullable s) doc = [] → judge (.nullable s) (typeOf fname vname (.nullable s)) doc = true :=
  good_nullable fname vname s hs hn ht

/-- the width class is exact: at an integer leaf the judge fails iff the document is in `KnownNumericWidth` -/
theorem C02_width_exact (fname : Str → Str) (vname : J → Str) (f : Option IntFmt) (doc : J) :
    classes fname vname (.int f) doc ≠ [] ↔ judge (.int f) (typeOf fname vname (.int f)) doc = false :=
  int_class_exact fname vname f doc

/-- the four scalar leaves reject every document of another JSON type (rejection half, leaves) -/
theorem C02_leaf_rejects (fname : Str → Str) (vname : J → Str) (s : S) (hs : s = .str ∨ s = .bool ∨ (∃ f, s = .num f) ∨ (∃ f, s = .int f))
    (doc : J) (hv : valid true s doc = false) : rt (typeOf fname vname s) doc = none := by
  rcases hs with rfl | rfl | ⟨f, rfl⟩ | ⟨f, rfl⟩
  · cases doc <;> simp_all [valid, rt, typeOf]
  · cases doc <;> simp_all [valid, rt, typeOf]
  · cases doc <;> simp_all [valid, rt, typeOf]
  · cases doc with
    | num m e => cases e <;> simp_all [valid, rt, typeOf]
    | _ => simp_all [valid, rt, typeOf]

/-! ## concrete naming functions for the `decide`d witnesses (the theorems above hold for all) -/

/-- `foo-bar`, `fooBar` ↦ `foo_bar`; everything else unchanged -/
def fn (s : Str) : Str := if s == "foo-bar".toList || s == "fooBar".toList then "foo_bar".toList else s
def up (c : Char) : Char := if 'a'.toNat ≤ c.toNat ∧ c.toNat ≤ 'z'.toNat then Char.ofNat (c.toNat - 32) else c
/-- variant identifiers: strings without `-`/`_`, upper-cased; numbers `Value<n>`; booleans -/
def vn : J → Str
  | .str s => (s.filter (fun c => c != '-' && c != '_')).map up
  | .num m _ => "Value".toList ++ showInt m
  | .bool b => if b then "True".toList else "False".toList
  | _ => []

def st (s : String) : J := .str s.toList
def o1 (n : String) (s : S) (req : Bool) (d : Option String := none) (addl : Addl := .absent) : S :=
  .obj (.cons n.toList s req (d.map String.toList) .nil) addl

/-! ## non-vacuity: the judge is satisfiable on objects, maps, enums (round trip and rejection) -/

def pet : S := .obj (.cons "id".toList (.int (some .i32)) true none
  (.cons "name".toList .str false none (.cons "tags".toList (.arr (.enum [st "a", st "b"])) false none .nil))) .closed

example : judge pet (typeOf fn vn pet) (.obj [("id".toList, .num 7 0), ("tags".toList, .arr [st "b", st "a"])]) = true := by decide
example : judge pet (typeOf fn vn pet) (.obj [("id".toList, .num 7 0), ("name".toList, .null)]) = true := by decide
-- the four near-miss kinds are rejected
example : rt (typeOf fn vn pet) (.obj [("name".toList, st "x")]) = none := by decide                                         -- missing required
example : rt (typeOf fn vn pet) (.obj [("id".toList, st "7")]) = none := by decide                                           -- wrong type
example : rt (typeOf fn vn pet) (.obj [("id".toList, .num 7 0), ("tags".toList, .arr [st "c"])]) = none := by decide         -- undeclared enum value
example : rt (typeOf fn vn pet) (.obj [("id".toList, .num 7 0), ("zz".toList, .num 1 0)]) = none := by decide                -- unknown member
example : judge (o1 "m" (.map (.nullable .bool)) true (addl := .typed (.int none)))
    (typeOf fn vn (o1 "m" (.map (.nullable .bool)) true (addl := .typed (.int none))))
    (.obj [("m".toList, .obj [("k".toList, .null), ("l".toList, .bool true)]), ("zz1".toList, .num 5 0)]) = true := by decide
example : judge (o1 "foo-bar" .str false) (typeOf fn vn (o1 "foo-bar" .str false)) (.obj [("foo-bar".toList, st "x")]) = true := by decide
example : judge (o1 "m" .str false (d := some "dd")) (typeOf fn vn (o1 "m" .str false (d := some "dd"))) (.obj []) = true := by decide

/-! ## counter-examples: each known class on a concrete input (model = today's code, see ties E/A) -/

def cexOk (s : S) (doc : J) (k : Known) : Bool :=
  !(judge s (typeOf fn vn s) doc) && (classes fn vn s doc).contains k

/-- `enum: [1, 2]`: variants are renamed to the STRINGS "1", "2"; the valid document `1` is rejected -/
theorem C02_cex_int_enum : cexOk (.enum [.num 1 0, .num 2 0]) (.num 1 0) .nonStringEnum = true := by decide
/-- … and the undeclared value `"1"` is accepted -/
theorem C02_cex_int_enum_accepts : cexOk (.enum [.num 1 0, st "x"]) (st "1") .nonStringEnum = true := by decide

/-- `enum: [foo-bar, foo_bar]`: the second value is merged as an alias and re-encodes as the first -/
theorem C02_cex_enum_alias : cexOk (.enum [st "foo-bar", st "foo_bar", st "z"]) (st "foo_bar") .enumAliasMerged = true := by decide

def dup : S := .obj (.cons "foo-bar".toList .str false none (.cons "foo_bar".toList .str false none .nil)) .absent
/-- `deduplicate_names` renames the second member to `foo_bar_2` without a serde rename: its wire name changes -/
theorem C02_cex_renamed_dup : cexOk dup (.obj [("foo_bar".toList, st "x")]) .renamedDup = true := by decide
example : (match typeOf fn vn dup with | .struct fs _ _ _ _ => fs.wires | _ => []) = ["foo-bar".toList, "foo_bar_2".toList] := by decide

/-- `format: int32` / no format: a valid integer outside the Rust width is rejected -/
theorem C02_cex_width : cexOk (.int (some .i32)) (.num 2147483648 0) .numericWidth = true := by decide
theorem C02_cex_width_i64 : cexOk (.int none) (.num 9223372036854775808 0) .numericWidth = true := by decide

/-- a REQUIRED nullable member is `Option<T>` under `skip_serializing_none`: `{"m": null}` re-encodes as `{}`,
which violates `required` -/
theorem C02_cex_required_null_dropped :
    cexOk (o1 "m" (.nullable .str) true) (.obj [("m".toList, .null)]) .requiredNullDropped = true := by decide
/-- … and a document that omits it is accepted -/
theorem C02_cex_required_nullable_missing :
    cexOk (o1 "m" (.nullable .str) true) (.obj []) .requiredNullableMissing = true := by decide

def withDefault : S := .obj (.cons "m".toList .str false (some "dd".toList) (.cons "z".toList (.int (some .i32)) true none .nil)) .absent
/-- one member with a `default` puts `#[serde(default)]` on the whole struct: the REQUIRED sibling `z` may be missing -/
theorem C02_cex_container_default : cexOk withDefault (.obj []) .containerDefault = true := by decide

/-- a struct without a flattened map also deserializes from a JSON ARRAY (positional `visit_seq`) -/
theorem C02_cex_struct_from_seq : cexOk (o1 "q" .str true) (.arr [st "x"]) .structFromSeq = true := by decide

/-- finding F02-9: `{type: string, format: int64}` (and the other integer / float formats) is typed as a Rust NUMBER. EVERY
string — each of them valid against the schema — is refused, for every naming function and every format: the property fails
on the whole of the schema's own value space -/
theorem C02_string_numeric_format_refuses_all (fname : Str → Str) (vname : J → Str) (f : IntFmt) (t : Str) :
    judge (.strNum f) (typeOf fname vname (.strNum f)) (.str t) = false := by
  simp [judge, judgeRun, valid, rt, typeOf]

theorem C02_string_float_format_refuses_all (fname : Str → Str) (vname : J → Str) (b : Bool) (t : Str) :
    judge (.strFloat b) (typeOf fname vname (.strFloat b)) (.str t) = false := by
  simp [judge, judgeRun, valid, rt, typeOf]

/-- finding F02-10: `{type: string, format: byte}` (base64 text) is typed `Vec<u8>` without an adapter: EVERY string is refused -/
theorem C02_string_byte_format_refuses_all (fname : Str → Str) (vname : J → Str) (t : Str) :
    judge .strBytes (typeOf fname vname .strBytes) (.str t) = false := by
  simp [judge, judgeRun, valid, rt, typeOf]

/-- … while a JSON number, which is NOT valid against `type: string`, is read -/
theorem C02_cex_string_int64_reads_number :
    (rt (typeOf id (fun _ => []) (.strNum .i64)) (.num 5 0)).isSome = true ∧ valid true (.strNum .i64) (.num 5 0) = false := by
  simp [rt, typeOf, valid, IntFmt.range]

/-! ### string-keyed maps, and the container fragment to any depth -/

/-- the property lifts through `additionalProperties: S` (typed `HashMap<String, T>`), whatever the value schema is, on
documents whose objects have distinct keys (`J.wf`: what a JSON parser delivers) -/
theorem C02_map_lift (fname : Str → Str) (vname : J → Str) (s : S) (hs : GoodWf fname vname s) :
    GoodWf fname vname (.map s) := goodWf_map fname vname s hs

/-- characterisation on the CONTAINER fragment — scalars of every width, arrays, string-keyed maps and nullable wrappers nested
to any depth —: for every naming function and every well-formed document the property holds, or the document is in a listed
class (on this fragment only `KnownNumericWidth` occurs) -/
theorem C02_roundtrip_char_containers (fname : Str → Str) (vname : J → Str) (s : S) (h : frag2 s = true) (doc : J) (hw : doc.wf = true) :
    judge s (typeOf fname vname s) doc = true ∨ classes fname vname s doc ≠ [] := by
  by_cases hc : classes fname vname s doc = []
  · exact Or.inl (goodWf_frag2 fname vname s h doc hw hc)
  · exact Or.inr hc

/-- the distinct-keys premise is needed: on a document with one key twice (no JSON parser delivers such an object) the
member-wise comparison of the model fails although no class applies -/
theorem C02_cex_duplicate_key :
    judge (.map .str) (typeOf id (fun _ => []) (.map .str)) (.obj [("k".toList, .str "a".toList), ("k".toList, .str "b".toList)]) = false ∧
    classes id (fun _ => []) (.map .str) (.obj [("k".toList, .str "a".toList), ("k".toList, .str "b".toList)]) = [] ∧
    (J.obj [("k".toList, .str "a".toList), ("k".toList, .str "b".toList)]).wf = false := by decide

/-- non-vacuity: a map of nullable arrays of int32 with a three-level document -/
example : frag2 (.map (.nullable (.arr (.int (some .i32))))) = true ∧
    (J.obj [("a".toList, .arr [.num 1 0, .num (-5) 0]), ("b".toList, .null), ("".toList, .arr [])]).wf = true ∧
    classes id (fun _ => []) (.map (.nullable (.arr (.int (some .i32))))) (.obj [("a".toList, .arr [.num 1 0, .num (-5) 0]), ("b".toList, .null), ("".toList, .arr [])]) = [] ∧
    judge (.map (.nullable (.arr (.int (some .i32))))) (typeOf id (fun _ => []) (.map (.nullable (.arr (.int (some .i32))))))
      (.obj [("a".toList, .arr [.num 1 0, .num (-5) 0]), ("b".toList, .null), ("".toList, .arr [])]) = true := by decide

/-! ### single-value enums -/

/-- finding F02-15: `enum: [v]` / `const: v` with one string value is typed `String` (the value becomes the member's default):
EVERY other string — an undeclared enum value — is read, for every value and every naming function -/
theorem C02_single_value_enum_reads_every_string (fname : Str → Str) (vname : J → Str) (v t : Str) (h : t ≠ v) :
    judge (.single v) (typeOf fname vname (.single v)) (.str t) = false ∧
    classes fname vname (.single v) (.str t) = [.singleValueEnum] := by
  have hb : (t == v) = false := by simpa using h
  simp [judge, judgeRun, valid, rt, typeOf, J.scalarEq, classes, hb]

/-- … while the declared value itself round-trips -/
theorem C02_single_value_enum_accepts_declared (fname : Str → Str) (vname : J → Str) (v : Str) :
    judge (.single v) (typeOf fname vname (.single v)) (.str v) = true := by
  simp [judge, judgeRun, valid, rt, typeOf, J.scalarEq, same]

/-! ### untagged unions (`oneOf` / `anyOf` without discriminator): Model/Union.lean, Sem/Union.lean -/

/-- decoding a union picks the FIRST variant whose type accepts the document (declaration order = order of the alternatives) -/
theorem C02_union_first_match (vs : List UVar) (d o : J) (h : rtU vs d = some o) :
    ∃ pre v post, vs = pre ++ v :: post ∧ (∀ u ∈ pre, rtVar u d = none) ∧ rtVar v d = some o := rtU_first vs d o h

/-- a union refuses a document iff every variant refuses it -/
theorem C02_union_refuses_iff (vs : List UVar) (d : J) : rtU vs d = none ↔ ∀ v ∈ vs, rtVar v d = none := rtU_none_iff vs d

/-- the variant of a `const` alternative accepts `null` and nothing else: the constant itself plays no part -/
theorem C02_union_unit_variant_only_null (w : Str) (d o : J) (h : rtVar (.unit w) d = some o) : d.isNull = true ∧ o = .null :=
  unit_accepts_only_null w d o h

/-- finding F02-11 (repaired): under the UNTAGGED layout a union whose alternatives are all `const` (the JSON-Schema idiom
for a documented enum, `oneOf: [{const: red, description: …}, {const: green}]`) refuses EVERY declared value — for every list
of constants, every naming function, `oneOf` and `anyOf` alike.  This is what the generator emitted before the repair
(`unionTy`, then used for every union); `unionRoot` now emits a plain enum for such unions (theorems below) -/
theorem C02_untagged_const_union_refuses_every_declared (fname : Str → Str) (vname : J → Str) (oneOf : Bool) (alts : List Alt)
    (hc : ∀ a ∈ alts, a.isConst = true ∨ a.isNullAlt = true) (v : Str) (hv : validU oneOf false alts (.str v) = true) :
    judgeU oneOf alts (unionTy fname vname alts) (.str v) = false := by
  simp [judgeU, judgeRunU, hv, const_union_refuses_strings fname vname alts hc v]

/-- non-vacuity: `oneOf: [{const: red}, {const: green}]`, document `"red"` -/
example : validU true false [.const "red".toList, .const "green".toList] (.str "red".toList) = true ∧
    (∀ a ∈ [Alt.const "red".toList, .const "green".toList], a.isConst = true ∨ a.isNullAlt = true) := by decide

/-- a union of constants (with or without a `null` alternative) is a plain value enum: every declared constant is
accepted and re-encodes as itself, for every list of alternatives -/
theorem C02_const_union_accepts_declared (fname : Str → Str) (vname : J → Str) (alts : List Alt) (hu : allUnit alts = true)
    (s : Str) (hs : Alt.const s ∈ alts) : rtRoot (unionRoot fname vname alts) (.str s) = some (.str s) :=
  const_root_accepts fname vname alts hu s ((mem_constsOf alts s).mpr hs)

/-- … and everything that is not a declared constant — other strings, `null`, every other JSON type — is refused -/
theorem C02_const_union_rejects_undeclared (fname : Str → Str) (vname : J → Str) (alts : List Alt) (hu : allUnit alts = true)
    (d : J) (hd : ∀ s, d = .str s → Alt.const s ∉ alts) : rtRoot (unionRoot fname vname alts) d = none :=
  const_root_rejects fname vname alts hu d (fun s e h => hd s e ((mem_constsOf alts s).mp h))

/-- so the property holds for a union of constants on every declared value (`oneOf` and `anyOf`) -/
theorem C02_const_union_roundtrip (fname : Str → Str) (vname : J → Str) (oneOf : Bool) (alts : List Alt) (hu : allUnit alts = true)
    (s : Str) (hs : Alt.const s ∈ alts) (hv : validU oneOf false alts (.str s) = true) :
    judgeRoot oneOf alts (unionRoot fname vname alts) (.str s) = true := by
  have hany : alts.any (fun a => validAlt true a (.str s)) = true :=
    List.any_eq_true.mpr ⟨.const s, hs, by simp [validAlt, J.scalarEq]⟩
  have hall : alts.all (fun a => !validAlt false a (.str s) || sameAlt a (.str s) (.str s)) = true := by
    rw [List.all_eq_true]
    intro a ha
    have := (List.all_eq_true.mp (Bool.and_eq_true _ _ ▸ hu).1) a ha
    cases a with
    | const v => simp [sameAlt, J.scalarEq]
    | null => simp [validAlt, J.isNull]
    | sch t => simp [Alt.isConst, Alt.isNullAlt] at this
    | free k => simp [Alt.isConst, Alt.isNullAlt] at this
  simp [judgeRoot, judgeRunU, hv, C02_const_union_accepts_declared fname vname alts hu s hs, hany, hall]

/-- non-vacuity: `oneOf: [{const: red}, {const: green}, {type: null}]` -/
example : allUnit [.const "red".toList, .const "green".toList, .null] = true ∧
    validU true false [.const "red".toList, .const "green".toList, .null] (.str "green".toList) = true := by decide

/-- in a MIXED union (constants next to other alternatives: still untagged, finding F02-11 stays open for it) `null`, valid
against no alternative, is accepted as the first unit variant and the constant itself is refused -/
theorem C02_cex_const_union_reads_null :
    (rtRoot (unionRoot id (fun _ => []) [.const "auto".toList, .sch .bool]) .null).isSome = true ∧
    [Alt.const "auto".toList, .sch .bool].any (fun a => validAlt true a .null) = false ∧
    rtRoot (unionRoot id (fun _ => []) [.const "auto".toList, .sch .bool]) (.str "auto".toList) = none ∧
    classesU id (fun _ => []) true [.const "auto".toList, .sch .bool] (.str "auto".toList) = [.constVariantIsUnit] := by decide

/-- LIFTING through `anyOf`: if the round-trip holds for the alternative `s` on `doc` (`judge`), no earlier variant accepts
`doc`, and `doc` is valid against no other alternative, then the round-trip holds for the union — whatever the other
alternatives are -/
theorem C02_union_lift (fname : Str → Str) (vname : J → Str) (pre post : List Alt) (s : S) (doc : J)
    (hv : valid false s doc = true) (hj : judge s (typeOf fname vname s) doc = true)
    (hpre : ∀ u ∈ unionTy fname vname pre, rtVar u doc = none)
    (hothers : ∀ a ∈ pre ++ post, validAlt false a doc = false) :
    judgeU false (pre ++ .sch s :: post) (unionTy fname vname (pre ++ .sch s :: post)) doc = true := by
  have hl := union_lift fname vname pre post s doc hpre
  simp only [judge, judgeRun, hv, if_true] at hj
  cases hr : rt (typeOf fname vname s) doc with
  | none => simp [hr] at hj
  | some out =>
    simp only [hr, Bool.and_eq_true] at hj hl
    have hmem : Alt.sch s ∈ pre ++ .sch s :: post := by simp
    have hcount : ∀ d, valid false s d = true → validU false false (pre ++ .sch s :: post) d = true := by
      intro d hd
      simp only [validU, matchCount, Bool.false_eq_true, if_false]
      apply decide_eq_true
      exact List.length_pos_of_mem ((List.mem_filter (p := fun a => validAlt false a d)).mpr ⟨hmem, by simp [validAlt, hd]⟩)
    have hany : (pre ++ Alt.sch s :: post).any (fun a => validAlt true a doc) = true :=
      List.any_eq_true.mpr ⟨.sch s, hmem, by simpa [validAlt] using valid_mono s doc hv⟩
    simp only [judgeU, judgeRunU, hl, hcount doc hv, hcount out hj.1.1, if_true, hany, Bool.and_true, Bool.true_and,
      List.all_eq_true]
    intro a ha
    rcases List.mem_append.mp ha with ha | ha
    · simp [hothers a (by simp [ha])]
    · rcases List.mem_cons.mp ha with rfl | ha
      · simp [sameAlt, hj.1.2]
      · simp [hothers a (by simp [ha])]

/-- non-vacuity of the lifting: `anyOf: [integer(int32), string, {type: null}]`, document `"x"` (the integer variant refuses it) -/
example : judgeU false ([.sch (.int (some .i32))] ++ .sch .str :: [.null])
    (unionTy id (fun _ => []) ([.sch (.int (some .i32))] ++ .sch .str :: [.null])) (.str "x".toList) = true := by decide

/-- finding F02-12: a `{type: null}` alternative has no variant; `null`, valid against the union, is refused -/
theorem C02_cex_union_null_dropped :
    validU false false [.sch .str, .sch .bool, .null] .null = true ∧
    judgeU false [.sch .str, .sch .bool, .null] (unionTy id (fun _ => []) [.sch .str, .sch .bool, .null]) .null = false ∧
    classesU id (fun _ => []) false [.sch .str, .sch .bool, .null] .null = [.unionNullDropped] := by decide

def objA : S := .obj (.cons "a".toList .str true none .nil) .absent
def objAB : S := .obj (.cons "a".toList .str true none (.cons "b".toList (.int none) true none .nil)) .absent
/-- finding F02-13: `anyOf: [A, AB]` where `A` is an open object: the document `{a, b}` is valid against both, the FIRST variant
reads it and drops `b`, a member that `AB` declares -/
theorem C02_cex_union_shadowed :
    validU false false [.sch objA, .sch objAB] (.obj [("a".toList, st "x"), ("b".toList, .num 1 0)]) = true ∧
    ((rtU (unionTy id (fun _ => []) [.sch objA, .sch objAB]) (.obj [("a".toList, st "x"), ("b".toList, .num 1 0)])).map
      (fun o => match o with | .obj kvs => kvs.map (·.1) | _ => [])) = some ["a".toList] ∧
    judgeU false [.sch objA, .sch objAB] (unionTy id (fun _ => []) [.sch objA, .sch objAB]) (.obj [("a".toList, st "x"), ("b".toList, .num 1 0)]) = false ∧
    classesU id (fun _ => []) false [.sch objA, .sch objAB] (.obj [("a".toList, st "x"), ("b".toList, .num 1 0)]) = [.unionShadowed] := by decide
def objAc : S := .obj (.cons "a".toList .str true none .nil) .closed
/-- finding F02-14: `oneOf: [A (open), A (closed)]`: `{a, b}` is valid (only the open alternative admits `b`), the open struct
drops `b`, and the re-encoded `{a}` is valid against BOTH alternatives — no longer valid against the `oneOf` -/
theorem C02_cex_oneof_out_ambiguous :
    validU true false [.sch objA, .sch objAc] (.obj [("a".toList, st "x"), ("b".toList, .num 1 0)]) = true ∧
    judgeRoot true [.sch objA, .sch objAc] (unionRoot id (fun _ => []) [.sch objA, .sch objAc]) (.obj [("a".toList, st "x"), ("b".toList, .num 1 0)]) = false ∧
    classesU id (fun _ => []) true [.sch objA, .sch objAc] (.obj [("a".toList, st "x"), ("b".toList, .num 1 0)]) = [.oneOfOutAmbiguous] := by decide

/-- … in the other order nothing is lost -/
example : judgeU false [.sch objAB, .sch objA] (unionTy id (fun _ => []) [.sch objAB, .sch objA]) (.obj [("a".toList, st "x"), ("b".toList, .num 1 0)]) = true := by decide

/-! ### `anyOf` with a free-form string next to string constants (the Known/Other pair) -/

/-- finding F02-16: when an `anyOf` has a free-form string alternative and carries string constants, the generator emits the
Known/Other pair and looks at nothing else: EVERY document that is not a string is refused — also those that are valid against
an array / object / number alternative of the same `anyOf` — for every list of alternatives and every naming function -/
theorem C02_relaxed_anyof_refuses_non_strings (fname : Str → Str) (vname : J → Str) (alts : List Alt) (hp : relaxedPattern alts = true)
    (d : J) (hd : ∀ s, d ≠ .str s) : rtRoot (rootOf fname vname false alts) d = none := by
  simp only [rootOf, anyOfRoot, hp, if_true, Bool.false_eq_true, if_false, rtRoot, rtU, rtVar, typeOf]
  cases d with
  | str s => exact absurd rfl (hd s)
  | _ => simp [rt]

/-- witness: `anyOf: [{const: red}, {type: array, items: string}, {type: string}]` refuses the valid document `["a"]` -/
theorem C02_cex_relaxed_drops_array :
    validU false false [.const "red".toList, .sch (.arr .str), .sch .str] (.arr [st "a"]) = true ∧
    judgeRoot false [.const "red".toList, .sch (.arr .str), .sch .str] (rootOf id (fun _ => []) false [.const "red".toList, .sch (.arr .str), .sch .str]) (.arr [st "a"]) = false ∧
    classesU id (fun _ => []) false [.const "red".toList, .sch (.arr .str), .sch .str] (.arr [st "a"]) = [.relaxedDropsAlternatives] := by decide

/-- … while strings, known or not, round-trip -/
example : judgeRoot false [.const "red".toList, .sch (.arr .str), .sch .str] (rootOf id (fun _ => "V".toList) false [.const "red".toList, .sch (.arr .str), .sch .str]) (st "red") = true ∧
    judgeRoot false [.const "red".toList, .sch (.arr .str), .sch .str] (rootOf id (fun _ => "V".toList) false [.const "red".toList, .sch (.arr .str), .sch .str]) (st "zzz") = true := by decide

/-! ### free-form alternatives (`serde_json::Value` variants) -/

/-- a `Value` variant reads every document and writes it back unchanged: a union with a free-form alternative never refuses -/
theorem C02_value_variant_accepts_everything (fname : Str → Str) (vname : J → Str) (pre post : List Alt) (k : FreeKind) (d : J) :
    (rtU (unionTy fname vname (pre ++ .free k :: post)) d).isSome = true := by
  rw [unionTy_append]
  cases h : rtU (unionTy fname vname pre ++ unionTy fname vname (.free k :: post)) d with
  | some o => rfl
  | none =>
    have := (rtU_none_iff _ d).mp h .value (by simp [unionTy])
    simp [rtVar] at this

/-- finding F02-17: so a document that is valid against NO alternative is accepted (here: the string `"x"` by
`oneOf: [boolean, {type: object, additionalProperties: false}]`) -/
theorem C02_cex_value_variant_accepts_invalid :
    [Alt.sch .bool, .free .objClosed].any (fun a => validAlt true a (st "x")) = false ∧
    judgeRoot true [.sch .bool, .free .objClosed] (rootOf id (fun _ => []) true [.sch .bool, .free .objClosed]) (st "x") = false ∧
    classesU id (fun _ => []) true [.sch .bool, .free .objClosed] (st "x") = [.valueVariantAcceptsAnything] := by decide

/-- … while every object round-trips through a free-form object alternative -/
example : judgeRoot true [.sch .bool, .free .objNull] (rootOf id (fun _ => []) true [.sch .bool, .free .objNull])
    (.obj [("k".toList, .arr [.num 1 0, .null])]) = true := by decide

/-! ### lifting theorems for unions, both halves, `oneOf` and `anyOf` -/

/-- REJECTION half: if the property holds for every schema alternative on `doc` and `doc` is valid against no alternative (not
even leniently), a union of schema and `null` alternatives refuses `doc` — `oneOf` and `anyOf`, whatever the alternatives are -/
theorem C02_union_rejects_lift (fname : Str → Str) (vname : J → Str) (oneOf : Bool) (alts : List Alt) (doc : J)
    (hshape : ∀ a ∈ alts, a.isConst = false ∧ ∀ k, a ≠ .free k)
    (hgood : ∀ s, Alt.sch s ∈ alts → judge s (typeOf fname vname s) doc = true)
    (hinv : ∀ a ∈ alts, validAlt true a doc = false) :
    rtU (unionTy fname vname alts) doc = none ∧ judgeU oneOf alts (unionTy fname vname alts) doc = true :=
  union_rejects_lift fname vname oneOf alts doc hshape hgood hinv

/-- ACCEPTANCE half through `oneOf`: as `C02_union_lift`, and the re-encoded document must not have become valid against another
alternative (finding F02-14 is a violation of exactly this premise) -/
theorem C02_union_lift_oneOf (fname : Str → Str) (vname : J → Str) (pre post : List Alt) (s : S) (doc : J)
    (hv : valid false s doc = true) (hj : judge s (typeOf fname vname s) doc = true)
    (hpre : ∀ u ∈ unionTy fname vname pre, rtVar u doc = none)
    (hothers : ∀ a ∈ pre ++ post, validAlt false a doc = false)
    (hout : ∀ out, rt (typeOf fname vname s) doc = some out → ∀ a ∈ pre ++ post, validAlt false a out = false) :
    judgeU true (pre ++ .sch s :: post) (unionTy fname vname (pre ++ .sch s :: post)) doc = true :=
  union_lift_oneOf fname vname pre post s doc hv hj hpre hothers hout

/-- on the array fragment (scalars of every width, arrays to any depth, one nullable wrapper) the rejection half of a union
needs no hypothesis about the alternatives beyond the absence of a width class: every document that is valid against none of
them is refused, for every list of such alternatives -/
theorem C02_frag_union_rejects (fname : Str → Str) (vname : J → Str) (oneOf : Bool) (ss : List S) (doc : J)
    (hfrag : ∀ s ∈ ss, frag s = true) (hcls : ∀ s ∈ ss, classes fname vname s doc = [])
    (hinv : ∀ s ∈ ss, valid true s doc = false) :
    judgeU oneOf (ss.map Alt.sch) (unionTy fname vname (ss.map Alt.sch)) doc = true := by
  refine (union_rejects_lift fname vname oneOf (ss.map Alt.sch) doc ?_ ?_ ?_).2
  · intro a ha
    obtain ⟨s, _, rfl⟩ := List.mem_map.mp ha
    exact ⟨rfl, fun k h => by cases h⟩
  · intro s hs
    obtain ⟨s', hs', e⟩ := List.mem_map.mp hs
    cases e
    exact good_frag fname vname s (hfrag s hs') doc (hcls s hs')
  · intro a ha
    obtain ⟨s, hs, rfl⟩ := List.mem_map.mp ha
    simpa [validAlt] using hinv s hs

/-- non-vacuity: `oneOf: [int32, array of string, boolean]` refuses `"x"` and `{}` -/
example : (∀ s ∈ [S.int (some .i32), .arr .str, .bool], frag s = true) ∧
    (∀ s ∈ [S.int (some .i32), .arr .str, .bool], valid true s (st "x") = false) ∧
    (∀ s ∈ [S.int (some .i32), .arr .str, .bool], classes id (fun _ => []) s (st "x") = []) := by decide

/-! ### the enum constructor -/

/-- a string `enum` whose values get pairwise different variant names (no merge happens): the property holds on EVERY document —
each declared value round-trips to itself, undeclared strings and every other JSON type are refused — for every list of values
and every naming function.  (Where names collide the second value becomes an alias: class `KnownEnumAliasMerged`,
`C02_cex_enum_alias`; non-string values: `KnownNonStringEnum`.) -/
theorem C02_string_enum_good (fname : Str → Str) (vname : J → Str) (vals : List Str)
    (hn : (vals.map (fun s => vname (.str s))).Nodup) (doc : J) :
    judge (.enum (vals.map J.str)) (typeOf fname vname (.enum (vals.map J.str))) doc = true :=
  good_string_enum fname vname vals hn doc

/-- so arrays (to any depth) of such enums satisfy the property too, by the array lifting -/
theorem C02_string_enum_array_good (fname : Str → Str) (vname : J → Str) (vals : List Str)
    (hn : (vals.map (fun s => vname (.str s))).Nodup) (doc : J)
    (hc : classes fname vname (.arr (.enum (vals.map J.str))) doc = []) :
    judge (.arr (.enum (vals.map J.str))) (typeOf fname vname (.arr (.enum (vals.map J.str)))) doc = true :=
  C02_arr_lift fname vname (.enum (vals.map J.str)) (fun d _ => good_string_enum fname vname vals hn d) doc hc

/-- non-vacuity: `enum: [a, b, foo-bar]` under a naming function that keeps the values apart -/
example : (["a".toList, "b".toList, "foo-bar".toList].map (fun s => (fun (j : J) => match j with | .str x => x | _ => []) (.str s))).Nodup := by decide

end Oas3.Codec.C02
