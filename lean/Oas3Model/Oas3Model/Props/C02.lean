import Oas3Model.Proofs.Codec
/-!
# C02 — generated schema types are faithful JSON codecs for their schemas

`J` = `judge s t doc` (Sem/Codec.lean): a document valid against `s` round-trips through the emitted type
`t` (decode, encode) to a document that is again valid and carries the same members (absent ≈ null for
optional members); a document with a type-level shape violation is rejected.  `F` = `typeOf` (Model/Codec.lean).
`classes` names the positions where today's generator provably breaks the property.

What is proved for ALL inputs (all naming functions `fname`, `vname`):
* the characterisation `J ∨ Known` on the array fragment (scalars, every integer width, arrays to any
  depth, one nullable wrapper) — `C02_roundtrip_char_partial`;
* two LIFTING theorems that hold for an arbitrary inner schema (objects, enums, maps included): the
  property passes through `type: array` (`C02_arr_lift`) and through a nullable wrapper (`C02_nullable_lift`);
* the width class is exact at an integer leaf (`C02_width_exact`): it contains precisely the failing documents.
What is NOT proved in general: the object / map / enum constructors themselves.  For those the model and
`Sem` are tied to the code by E and A, the judge is evaluated on every generated case, and each known class
is exhibited below by `decide` on the model.
-/
namespace Oas3.Codec.C02
open Oas3.Codec

/-- characterisation on the array fragment: the property holds, or the document is in a listed class
(on this fragment the only class is `KnownNumericWidth`) -/
theorem C02_roundtrip_char_partial (fname : Str → Str) (vname : J → Str) (s : S) (h : frag s = true) (doc : J) :
    judge s (typeOf fname vname s) doc = true ∨ classes fname vname s doc ≠ [] := by
  by_cases hc : classes fname vname s doc = []
  · exact Or.inl (good_frag fname vname s h doc hc)
  · exact Or.inr hc

/-- the property lifts through arrays, whatever the item schema is -/
theorem C02_arr_lift (fname : Str → Str) (vname : J → Str) (s : S)
    (hs : ∀ doc, classes fname vname s doc = [] → judge s (typeOf fname vname s) doc = true) :
    ∀ doc, classes fname vname (.arr s) doc = [] → judge (.arr s) (typeOf fname vname (.arr s)) doc = true :=
  good_arr fname vname s hs

/-- the property lifts through a nullable wrapper, whatever the inner schema is (it must not itself admit
`null`, and its type must not already be an `Option`) -/
theorem C02_nullable_lift (fname : Str → Str) (vname : J → Str) (s : S)
    (hs : ∀ doc, classes fname vname s doc = [] → judge s (typeOf fname vname s) doc = true)
    (hn : valid false s .null = false) (ht : (typeOf fname vname s).isOption = false) :
    ∀ doc, classes fname vname (.nullable s) doc = [] → judge (.nullable s) (typeOf fname vname (.nullable s)) doc = true :=
  good_nullable fname vname s hs hn ht

/-- the width class is exact: at an integer leaf the judge fails iff the document is in `KnownNumericWidth` -/
theorem C02_width_exact (fname : Str → Str) (vname : J → Str) (f : Option IntFmt) (doc : J) :
    classes fname vname (.int f) doc ≠ [] ↔ judge (.int f) (typeOf fname vname (.int f)) doc = false :=
  int_class_exact fname vname f doc

/-- the four scalar leaves reject every document of another JSON type (rejection half, leaves) -/
theorem C02_leaf_rejects (fname : Str → Str) (vname : J → Str) (s : S) (hs : s = .str ∨ s = .bool ∨ (∃ f, s = .num f) ∨ (∃ f, s = .int f))
    (doc : J) (hv : valid true s doc = false) : rt (typeOf fname vname s) doc = none := by
  rcases hs with rfl | rfl | ⟨f, rfl⟩ | ⟨f, rfl⟩
  · cases doc <;> simp_all [valid, rt, typeOf]
  · cases doc <;> simp_all [valid, rt, typeOf]
  · cases doc <;> simp_all [valid, rt, typeOf]
  · cases doc with
    | num m e => cases e <;> simp_all [valid, rt, typeOf]
    | _ => simp_all [valid, rt, typeOf]

/-! ## concrete naming functions for the `decide`d witnesses (the theorems above hold for all) -/

/-- `foo-bar`, `fooBar` ↦ `foo_bar`; everything else unchanged -/
def fn (s : Str) : Str := if s == "foo-bar".toList || s == "fooBar".toList then "foo_bar".toList else s
def up (c : Char) : Char := if 'a'.toNat ≤ c.toNat ∧ c.toNat ≤ 'z'.toNat then Char.ofNat (c.toNat - 32) else c
/-- variant identifiers: strings without `-`/`_`, upper-cased; numbers `Value<n>`; booleans -/
def vn : J → Str
  | .str s => (s.filter (fun c => c != '-' && c != '_')).map up
  | .num m _ => "Value".toList ++ showInt m
  | .bool b => if b then "True".toList else "False".toList
  | _ => []

def st (s : String) : J := .str s.toList
def o1 (n : String) (s : S) (req : Bool) (d : Option String := none) (addl : Addl := .absent) : S :=
  .obj (.cons n.toList s req (d.map String.toList) .nil) addl

/-! ## non-vacuity: the judge is satisfiable on objects, maps, enums (round trip and rejection) -/

def pet : S := .obj (.cons "id".toList (.int (some .i32)) true none
  (.cons "name".toList .str false none (.cons "tags".toList (.arr (.enum [st "a", st "b"])) false none .nil))) .closed

example : judge pet (typeOf fn vn pet) (.obj [("id".toList, .num 7 0), ("tags".toList, .arr [st "b", st "a"])]) = true := by decide
example : judge pet (typeOf fn vn pet) (.obj [("id".toList, .num 7 0), ("name".toList, .null)]) = true := by decide
-- the four near-miss kinds are rejected
example : rt (typeOf fn vn pet) (.obj [("name".toList, st "x")]) = none := by decide                                         -- missing required
example : rt (typeOf fn vn pet) (.obj [("id".toList, st "7")]) = none := by decide                                           -- wrong type
example : rt (typeOf fn vn pet) (.obj [("id".toList, .num 7 0), ("tags".toList, .arr [st "c"])]) = none := by decide         -- undeclared enum value
example : rt (typeOf fn vn pet) (.obj [("id".toList, .num 7 0), ("zz".toList, .num 1 0)]) = none := by decide                -- unknown member
example : judge (o1 "m" (.map (.nullable .bool)) true (addl := .typed (.int none)))
    (typeOf fn vn (o1 "m" (.map (.nullable .bool)) true (addl := .typed (.int none))))
    (.obj [("m".toList, .obj [("k".toList, .null), ("l".toList, .bool true)]), ("zz1".toList, .num 5 0)]) = true := by decide
example : judge (o1 "foo-bar" .str false) (typeOf fn vn (o1 "foo-bar" .str false)) (.obj [("foo-bar".toList, st "x")]) = true := by decide
example : judge (o1 "m" .str false (d := some "dd")) (typeOf fn vn (o1 "m" .str false (d := some "dd"))) (.obj []) = true := by decide

/-! ## counter-examples: each known class on a concrete input (model = today's code, see ties E/A) -/

def cexOk (s : S) (doc : J) (k : Known) : Bool :=
  !(judge s (typeOf fn vn s) doc) && (classes fn vn s doc).contains k

/-- `enum: [1, 2]`: variants are renamed to the STRINGS "1", "2"; the valid document `1` is rejected -/
theorem C02_cex_int_enum : cexOk (.enum [.num 1 0, .num 2 0]) (.num 1 0) .nonStringEnum = true := by decide
/-- … and the undeclared value `"1"` is accepted -/
theorem C02_cex_int_enum_accepts : cexOk (.enum [.num 1 0, st "x"]) (st "1") .nonStringEnum = true := by decide

/-- `enum: [foo-bar, foo_bar]`: the second value is merged as an alias and re-encodes as the first -/
theorem C02_cex_enum_alias : cexOk (.enum [st "foo-bar", st "foo_bar", st "z"]) (st "foo_bar") .enumAliasMerged = true := by decide

def dup : S := .obj (.cons "foo-bar".toList .str false none (.cons "foo_bar".toList .str false none .nil)) .absent
/-- `deduplicate_names` renames the second member to `foo_bar_2` without a serde rename: its wire name changes -/
theorem C02_cex_renamed_dup : cexOk dup (.obj [("foo_bar".toList, st "x")]) .renamedDup = true := by decide
example : (match typeOf fn vn dup with | .struct fs _ _ _ _ => fs.wires | _ => []) = ["foo-bar".toList, "foo_bar_2".toList] := by decide

/-- `format: int32` / no format: a valid integer outside the Rust width is rejected -/
theorem C02_cex_width : cexOk (.int (some .i32)) (.num 2147483648 0) .numericWidth = true := by decide
theorem C02_cex_width_i64 : cexOk (.int none) (.num 9223372036854775808 0) .numericWidth = true := by decide

/-- a REQUIRED nullable member is `Option<T>` under `skip_serializing_none`: `{"m": null}` re-encodes as `{}`,
which violates `required` -/
theorem C02_cex_required_null_dropped :
    cexOk (o1 "m" (.nullable .str) true) (.obj [("m".toList, .null)]) .requiredNullDropped = true := by decide
/-- … and a document that omits it is accepted -/
theorem C02_cex_required_nullable_missing :
    cexOk (o1 "m" (.nullable .str) true) (.obj []) .requiredNullableMissing = true := by decide

def withDefault : S := .obj (.cons "m".toList .str false (some "dd".toList) (.cons "z".toList (.int (some .i32)) true none .nil)) .absent
/-- one member with a `default` puts `#[serde(default)]` on the whole struct: the REQUIRED sibling `z` may be missing -/
theorem C02_cex_container_default : cexOk withDefault (.obj []) .containerDefault = true := by decide

/-- a struct without a flattened map also deserializes from a JSON ARRAY (positional `visit_seq`) -/
theorem C02_cex_struct_from_seq : cexOk (o1 "q" .str true) (.arr [st "x"]) .structFromSeq = true := by decide

/-- finding F02-9: `{type: string, format: int64}` (and the other integer / float formats) is typed as a Rust NUMBER. EVERY
string — each of them valid against the schema — is refused, for every naming function and every format: the property fails
on the whole of the schema's own value space -/
theorem C02_string_numeric_format_refuses_all (fname : Str → Str) (vname : J → Str) (f : IntFmt) (t : Str) :
    judge (.strNum f) (typeOf fname vname (.strNum f)) (.str t) = false := by
  simp [judge, judgeRun, valid, rt, typeOf]

theorem C02_string_float_format_refuses_all (fname : Str → Str) (vname : J → Str) (b : Bool) (t : Str) :
    judge (.strFloat b) (typeOf fname vname (.strFloat b)) (.str t) = false := by
  simp [judge, judgeRun, valid, rt, typeOf]

/-- finding F02-10: `{type: string, format: byte}` (base64 text) is typed `Vec<u8>` without an adapter: EVERY string is refused -/
theorem C02_string_byte_format_refuses_all (fname : Str → Str) (vname : J → Str) (t : Str) :
    judge .strBytes (typeOf fname vname .strBytes) (.str t) = false := by
  simp [judge, judgeRun, valid, rt, typeOf]

/-- … while a JSON number, which is NOT valid against `type: string`, is read -/
theorem C02_cex_string_int64_reads_number :
    (rt (typeOf id (fun _ => []) (.strNum .i64)) (.num 5 0)).isSome = true ∧ valid true (.strNum .i64) (.num 5 0) = false := by
  simp [rt, typeOf, valid, IntFmt.range]

/-! ### string-keyed maps, and the container fragment to any depth -/

/-- the property lifts through `additionalProperties: S` (typed `HashMap<String, T>`), whatever the value schema is, on
documents whose objects have distinct keys (`J.wf`: what a JSON parser delivers) -/
theorem C02_map_lift (fname : Str → Str) (vname : J → Str) (s : S) (hs : GoodWf fname vname s) :
    GoodWf fname vname (.map s) := goodWf_map fname vname s hs

/-- characterisation on the CONTAINER fragment — scalars of every width, arrays, string-keyed maps and nullable wrappers nested
to any depth —: for every naming function and every well-formed document the property holds, or the document is in a listed
class (on this fragment only `KnownNumericWidth` occurs) -/
theorem C02_roundtrip_char_containers (fname : Str → Str) (vname : J → Str) (s : S) (h : frag2 s = true) (doc : J) (hw : doc.wf = true) :
    judge s (typeOf fname vname s) doc = true ∨ classes fname vname s doc ≠ [] := by
  by_cases hc : classes fname vname s doc = []
  · exact Or.inl (goodWf_frag2 fname vname s h doc hw hc)
  · exact Or.inr hc

/-- the distinct-keys premise is needed: on a document with one key twice (no JSON parser delivers such an object) the
member-wise comparison of the model fails although no class applies -/
theorem C02_cex_duplicate_key :
    judge (.map .str) (typeOf id (fun _ => []) (.map .str)) (.obj [("k".toList, .str "a".toList), ("k".toList, .str "b".toList)]) = false ∧
    classes id (fun _ => []) (.map .str) (.obj [("k".toList, .str "a".toList), ("k".toList, .str "b".toList)]) = [] ∧
    (J.obj [("k".toList, .str "a".toList), ("k".toList, .str "b".toList)]).wf = false := by decide

/-- non-vacuity: a map of nullable arrays of int32 with a three-level document -/
example : frag2 (.map (.nullable (.arr (.int (some .i32))))) = true ∧
    (J.obj [("a".toList, .arr [.num 1 0, .num (-5) 0]), ("b".toList, .null), ("".toList, .arr [])]).wf = true ∧
    classes id (fun _ => []) (.map (.nullable (.arr (.int (some .i32))))) (.obj [("a".toList, .arr [.num 1 0, .num (-5) 0]), ("b".toList, .null), ("".toList, .arr [])]) = [] ∧
    judge (.map (.nullable (.arr (.int (some .i32))))) (typeOf id (fun _ => []) (.map (.nullable (.arr (.int (some .i32))))))
      (.obj [("a".toList, .arr [.num 1 0, .num (-5) 0]), ("b".toList, .null), ("".toList, .arr [])]) = true := by decide

end Oas3.Codec.C02
