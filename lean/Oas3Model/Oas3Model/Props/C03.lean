import Oas3Model.Model.Path
import Oas3Model.Sem.Url
namespace Oas3.Props.C03
open Oas3.Path Oas3.Url

/-- the empty template segment is a literal -/
theorem tokenize_nil : tokenize [] = .ok [] := by rfl

end Oas3.Props.C03
