import Oas3Model.Model.Path
import Oas3Model.Sem.Url
import Oas3Model.Model.Client
import Oas3Model.Proofs.Path
import Oas3Model.Proofs.ClientWire
/-
Property C03 — URL path construction.

* the path-template tokenizer accepts exactly the well-formed templates and loses no character;
* the `format!` template of a mixed segment has one `{}` per argument and no other brace;
* the axum route pattern is the template with each parameter renamed to its Rust field;
* `PathSegmentsMut::push` appends exactly one percent-encoded segment that decodes to the value
  (outside the recorded `.`/`..`/TAB-LF-CR defects, reproduced as `cex_*`);
* `collect_parameters`: operation-level parameters override path-level ones with the same key.
-/
namespace Oas3.Props.C03
open Oas3.Path Oas3.Url Oas3.Client

/-! ### Definitions used in the statements -/

/-- the text of a part list: literals verbatim, parameters as `{name}` -/
def render (ps : List Part) : List Char :=
  (ps.map fun p => match p with
    | .lit l => l
    | .param n => '{' :: n ++ ['}']).flatten

/-- a well-formed part: non-empty, brace-free literal or parameter name -/
def PartWf (p : Part) : Prop :=
  match p with
  | .lit l => l ≠ [] ∧ '{' ∉ l ∧ '}' ∉ l
  | .param n => n ≠ [] ∧ '{' ∉ n ∧ '}' ∉ n

/-- no two consecutive literal parts -/
def NoAdjacentLits (ps : List Part) : Prop :=
  ∀ pre l1 l2 post, ps ≠ pre ++ .lit l1 :: .lit l2 :: post

/-- the axum route pattern of a part list: each parameter renamed to its Rust field -/
def axumRender (decl : List (List Char × List Char)) (ps : List Part) : List Char :=
  (ps.map fun p => match p with
    | .lit l => l
    | .param n => '{' :: fieldOf decl n ++ ['}']).flatten

private theorem render_eq (ps : List Part) : render ps = renderR ps := by
  induction ps with
  | nil => rfl
  | cons p r ih =>
    cases p <;> simp_all [render, renderR]

private theorem axumRender_eq (decl : List (List Char × List Char)) (ps : List Part) :
    axumRender decl ps = axumR decl ps := by
  induction ps with
  | nil => rfl
  | cons p r ih =>
    cases p <;> simp_all [axumRender, axumR]

private theorem partWf_iff (p : Part) : PartWf p ↔ WfPart p := by
  cases p <;> exact Iff.rfl

/-! ### 1–3 tokenizer -/

/-- the empty template segment is a literal -/
theorem tokenize_nil : tokenize [] = .ok [] := by rfl

/-- an accepted template segment is exactly the concatenation of its parts -/
theorem tokenize_roundtrip (s : List Char) (ps : List Part) :
    tokenize s = .ok ps → render ps = s := by
  intro h; rw [render_eq]; exact tokenize_renderR h

/-- literals hold no brace and are non-empty; parameter names are non-empty and brace-free -/
theorem tokenize_parts_wf (s : List Char) (ps : List Part) :
    tokenize s = .ok ps → ∀ p ∈ ps,
      (match p with
       | .lit l => l ≠ [] ∧ '{' ∉ l ∧ '}' ∉ l
       | .param n => n ≠ [] ∧ '{' ∉ n ∧ '}' ∉ n) := by
  intro h p hp
  exact (partWf_iff p).2 ((tokenize_wf h).1 p hp)

/-- literal text is never split in two parts -/
theorem tokenize_no_adjacent_lits (s : List Char) (ps : List Part) :
    tokenize s = .ok ps → NoAdjacentLits ps := by
  intro h; exact (noAdj_iff ps).1 (tokenize_wf h).2

/-- a segment of two or more parts has a parameter (it is genuinely "mixed") -/
theorem tokenize_two_parts_has_param (s : List Char) (ps : List Part) :
    tokenize s = .ok ps → 2 ≤ ps.length → ∃ n, Part.param n ∈ ps := by
  intro h hl
  have na := tokenize_no_adjacent_lits s ps h
  match ps, hl, na with
  | .param n :: _, _, _ => exact ⟨n, List.mem_cons_self⟩
  | .lit _ :: .param n :: _, _, _ => exact ⟨n, List.mem_cons_of_mem _ List.mem_cons_self⟩
  | .lit l1 :: .lit l2 :: r, _, na => exact absurd rfl (na [] l1 l2 r)

/-- the tokenizer rejects only genuinely malformed templates: every well-formed part list is
accepted and recovered -/
theorem tokenize_complete (ps : List Part) (wf : ∀ p ∈ ps, PartWf p) (na : NoAdjacentLits ps) :
    tokenize (render ps) = .ok ps := by
  rw [render_eq]
  exact tokenize_renderR_complete (fun p hp => (partWf_iff p).1 (wf p hp)) ((noAdj_iff ps).2 na)

/-- characterisation of acceptance -/
theorem tokenize_ok_iff (s : List Char) (ps : List Part) :
    tokenize s = .ok ps ↔ (render ps = s ∧ (∀ p ∈ ps, PartWf p) ∧ NoAdjacentLits ps) := by
  constructor
  · intro h
    exact ⟨tokenize_roundtrip s ps h, tokenize_parts_wf s ps h, tokenize_no_adjacent_lits s ps h⟩
  · rintro ⟨h1, h2, h3⟩
    rw [← h1]; exact tokenize_complete ps h2 h3

/-- hence the parse of a segment is unique -/
theorem render_injective_on_wf (ps qs : List Part)
    (wp : ∀ p ∈ ps, PartWf p) (np : NoAdjacentLits ps)
    (wq : ∀ p ∈ qs, PartWf p) (nq : NoAdjacentLits qs) (h : render ps = render qs) : ps = qs := by
  have a := tokenize_complete ps wp np
  have b := tokenize_complete qs wq nq
  rw [h, b] at a
  cases a; rfl

/-! ### 4–5 format template and axum pattern -/

/-- the `format!` template of a mixed segment has exactly one `{}` per argument and no other
brace: spec text can never inject a format directive -/
theorem format_safe (decl : List (List Char × List Char)) (s : List Char) (ps : List Part) :
    tokenize s = .ok ps →
      formatSafe (formatOf ps) = true ∧
      countPlaceholders (formatOf ps) = (paramsOf decl ps).length := by
  intro h; exact formatOf_safe decl ps (tokenize_wf h).1

/-- filling the format template with the field names gives the template with each parameter
renamed to its Rust field. No side condition on the field names is needed: `fillFormat` never
rescans an inserted name. -/
theorem fill_format_render (decl : List (List Char × List Char)) (s : List Char) (ps : List Part) :
    tokenize s = .ok ps →
      fillFormat (formatOf ps) (paramsOf decl ps) =
        (ps.map (fun p => match p with
          | .lit l => l
          | .param n => '{' :: fieldOf decl n ++ ['}'])).flatten := by
  intro h
  rw [fillFormat_formatOf decl ps (tokenize_wf h).1]
  exact (axumRender_eq decl ps).symm

/-- a segment of two or more parts is always `Mixed`; the `Literal(seg)` fallback of
`build_mixed` is dead code -/
theorem segment_mixed_of_two_parts (decl : List (List Char × List Char)) (s : List Char)
    (ps : List Part) : tokenize s = .ok ps → 2 ≤ ps.length →
      segmentOfParts decl s ps = .mixed (formatOf ps) (paramsOf decl ps) := by
  intro h hl
  have na := (tokenize_wf h).2
  match ps, hl, na with
  | a :: b :: r, _, na => exact segmentOfParts_two decl s na

/-- the axum pattern of ANY accepted segment (literal, single parameter or mixed) -/
theorem axum_segment_render (decl : List (List Char × List Char)) (s : List Char) (seg : Segment) :
    parseSegment decl s = .ok seg →
      ∃ ps, tokenize s = .ok ps ∧ axumSegment seg = axumRender decl ps := by
  intro h
  unfold parseSegment at h
  split at h
  · rename_i ps hp
    cases h
    refine ⟨ps, hp, ?_⟩
    rw [axumRender_eq]
    exact axumSegment_segmentOfParts decl s ps (tokenize_wf hp).1 (tokenize_wf hp).2
  · cases h

/-! ### 6–8 URL layer -/

theorem hexVal_hexDigit (n : Nat) (h : n < 16) : hexVal (hexDigit n) = some n :=
  Oas3.Url.hexVal_hexDigit n h

/-- decoding consumes exactly the encoding of one byte -/
theorem pct_decode_encodeByte (b : UInt8) (r : List Char) :
    pctDecode (encodeByte b ++ r) = b :: pctDecode r :=
  pctDecode_encodeByte b r

/-- percent-decoding the encoded segment returns the original bytes, for ALL byte strings -/
theorem pct_roundtrip (bs : List UInt8) : pctDecode (encodeBytes bs) = bs :=
  pctDecode_encodeBytes bs

/-- the encoding is injective: two values never collide in the URL -/
theorem encode_injective (a b : List UInt8) : encodeBytes a = encodeBytes b → a = b :=
  encodeBytes_injective

/-- the pushed segment can never add a path separator, a query or a fragment, and is ASCII -/
theorem encode_no_separators (bs : List UInt8) :
    ∀ c ∈ encodeBytes bs, (c ≠ '/' ∧ c ≠ '?' ∧ c ≠ '#' ∧ c ≠ '\\') ∧ c.toNat < 128 := by
  intro c hc
  obtain ⟨a, b, c', d, e⟩ := encodeBytes_chars bs c hc
  exact ⟨⟨a, b, c', d⟩, e⟩

/-- `.` is never escaped, so only the values `.` / `..` encode to `.` / `..` -/
theorem encode_dot (seg : List UInt8) :
    (encodeBytes seg = ['.'] → seg = [0x2E]) ∧ (encodeBytes seg = ['.', '.'] → seg = [0x2E, 0x2E]) :=
  ⟨encodeBytes_eq_dot, encodeBytes_eq_dotdot⟩

/-- outside the recorded defects, `push` appends exactly one encoded segment -/
theorem push_appends (path : List Char) (seg : List UInt8)
    (h1 : seg ≠ [0x2E]) (h2 : seg ≠ [0x2E, 0x2E]) (h3 : ∀ b ∈ seg, isTabNl b = false)
    (_h4 : encodeBytes seg ≠ ['.'] ∧ encodeBytes seg ≠ ['.', '.']) :
    push path seg = (if path.length > 1 then path ++ ['/'] else path) ++ encodeBytes seg :=
  Oas3.Url.push_appends path seg h1 h2 h3

/-- `h4` follows from `h1`, `h2` -/
theorem push_appends' (path : List Char) (seg : List UInt8)
    (h1 : seg ≠ [0x2E]) (h2 : seg ≠ [0x2E, 0x2E]) (h3 : ∀ b ∈ seg, isTabNl b = false) :
    push path seg = (if path.length > 1 then path ++ ['/'] else path) ++ encodeBytes seg :=
  Oas3.Url.push_appends path seg h1 h2 h3

/-- … and what is appended decodes to the value -/
theorem push_decode (path : List Char) (seg : List UInt8)
    (h1 : seg ≠ [0x2E]) (h2 : seg ≠ [0x2E, 0x2E]) (h3 : ∀ b ∈ seg, isTabNl b = false) :
    ∃ enc, push path seg = (if path.length > 1 then path ++ ['/'] else path) ++ enc ∧
      pctDecode enc = seg ∧ (∀ c ∈ enc, c ≠ '/' ∧ c ≠ '?' ∧ c ≠ '#') :=
  ⟨encodeBytes seg, push_appends' path seg h1 h2 h3, pct_roundtrip seg,
    fun c hc => by
      obtain ⟨⟨a, b, c', _⟩, _⟩ := encode_no_separators seg c hc
      exact ⟨a, b, c'⟩⟩

/-- the whole path: pushing values that are non-empty, not `.`/`..` and TAB/LF/CR-free onto the
root gives exactly `/enc(v₁)/enc(v₂)/…`; every `enc(vᵢ)` is separator-free (`encode_no_separators`)
and decodes to `vᵢ` (`pct_roundtrip`) -/
theorem push_all (segs : List (List UInt8))
    (hg : ∀ s ∈ segs, s ≠ [] ∧ s ≠ [0x2E] ∧ s ≠ [0x2E, 0x2E] ∧ ∀ b ∈ s, isTabNl b = false) :
    segs.foldl push ['/'] =
      if segs = [] then ['/'] else segs.flatMap (fun s => '/' :: encodeBytes s) :=
  foldl_push_root segs hg

/-! ### 9 parameter merge -/

/-- an operation-level parameter that is not overridden later is kept -/
theorem collectParams_op_wins (pre post : List Param) (p : Param) (hp : p.pathLevel = false)
    (hlast : ∀ q ∈ post, q.pathLevel = false → (q.loc, q.name) ≠ (p.loc, p.name)) :
    p ∈ collectParams (pre ++ p :: post) := by
  rw [collectParams_eq, mem_foldl_step]
  right
  refine ⟨pre.filter (!·.pathLevel), post.filter (!·.pathLevel), ?_, ?_⟩
  · simp [List.filter_append, hp]
  · intro q hq
    have := List.mem_filter.1 hq
    exact hlast q this.1 (by simpa using this.2)

/-- a path-level parameter survives iff no operation-level parameter has its (location, name) -/
theorem collectParams_path_iff (ps : List Param) (q : Param) (hq : q.pathLevel = true) :
    q ∈ collectParams ps ↔
      q ∈ ps ∧ ∀ p ∈ ps, p.pathLevel = false → (p.loc, p.name) ≠ (q.loc, q.name) := by
  rw [collectParams_eq, mem_foldl_step]
  constructor
  · rintro (⟨h1, h2⟩ | ⟨pre, post, h1, _⟩)
    · refine ⟨(List.mem_filter.1 h1).1, ?_⟩
      intro p hp hpl
      exact h2 p (List.mem_filter.2 ⟨hp, by simp [hpl]⟩)
    · have : q ∈ ps.filter (!·.pathLevel) := by rw [h1]; simp
      have := (List.mem_filter.1 this).2
      simp [hq] at this
  · rintro ⟨h1, h2⟩
    left
    refine ⟨List.mem_filter.2 ⟨h1, hq⟩, ?_⟩
    intro p hp
    have := List.mem_filter.1 hp
    exact h2 p this.1 (by simpa using this.2)

/-- the merge invents nothing -/
theorem collectParams_subset (ps : List Param) (q : Param) : q ∈ collectParams ps → q ∈ ps := by
  rw [collectParams_eq, mem_foldl_step]
  rintro (⟨h1, _⟩ | ⟨pre, post, h1, _⟩)
  · exact (List.mem_filter.1 h1).1
  · have : q ∈ ps.filter (!·.pathLevel) := by rw [h1]; simp
    exact (List.mem_filter.1 this).1

/-- keys of the merged list are pairwise distinct as soon as the path-level ones are
(duplicates among operation-level parameters are resolved: the last one wins) -/
theorem collectParams_keys_nodup_of_path (ps : List Param)
    (h : ((ps.filter (·.pathLevel)).map (fun p => (p.loc, p.name))).Nodup) :
    ((collectParams ps).map (fun p => (p.loc, p.name))).Nodup :=
  nodup_keys_foldl _ _ h

theorem collectParams_keys_nodup (ps : List Param)
    (h : ((ps.filter (·.pathLevel)).map (fun p => (p.loc, p.name))).Nodup)
    (_h' : ((ps.filter (!·.pathLevel)).map (fun p => (p.loc, p.name))).Nodup) :
    ((collectParams ps).map (fun p => (p.loc, p.name))).Nodup :=
  collectParams_keys_nodup_of_path ps h

/-! ### 10 recorded defects of the real code, reproduced by the model -/

/-- the value `..` is silently dropped -/
theorem cex_dot : push "/pre".toList [0x2E, 0x2E] = "/pre".toList := by decide +kernel
/-- the value `.` is silently dropped -/
theorem cex_dot1 : push "/pre".toList [0x2E] = "/pre".toList := by decide +kernel
/-- TAB is stripped from the value -/
theorem cex_tab : push ['/'] [97, 9, 98] = "/ab".toList := by decide +kernel
/-- an empty first value leaves no trace: `/` + "" + "a" gives `/a`, not `//a` -/
theorem cex_empty_first : push (push ['/'] []) [97] = "/a".toList := by decide +kernel
/-- `.` TAB `.` removes the PREVIOUS segment -/
theorem cex_tab_dotdot : push "/pre/x".toList [0x2E, 9, 0x2E] = "/pre/".toList := by decide +kernel

/-! ### 11 non-vacuity -/

example : tokenize "x-{y}.{z}".toList
    = .ok [.lit "x-".toList, .param "y".toList, .lit ".".toList, .param "z".toList] := by rfl
example : formatOf [.lit "x-".toList, .param "y".toList, .lit ".".toList, .param "z".toList]
    = "x-{}.{}".toList := by decide +kernel
example : parseSegment [("y".toList, "y_".toList)] "x-{y}.{z}".toList
    = .ok (.mixed "x-{}.{}".toList ["y_".toList, "z".toList]) := by rfl
example : axumSegment (.mixed "x-{}.{}".toList ["y_".toList, "z".toList]) = "x-{y_}.{z}".toList := by
  decide +kernel
example : tokenize "a{b".toList = .error .unclosed := by rfl
example : tokenize "a}b".toList = .error .unmatchedClose := by rfl
example : tokenize "{}".toList = .error .emptyParam := by rfl
example : tokenize "{a{b}}".toList = .error .nested := by rfl
/-- "é /" = C3 A9 20 2F -/
example : push "/v1".toList [0xC3, 0xA9, 0x20, 0x2F] = "/v1/%C3%A9%20%2F".toList := by
  decide +kernel
example : pctDecode "%C3%A9%20%2F".toList = [0xC3, 0xA9, 0x20, 0x2F] := by decide +kernel
example : collectParams [⟨"id".toList, .path, true⟩, ⟨"q".toList, .query, true⟩,
      ⟨"id".toList, .path, false⟩]
    = [⟨"q".toList, .query, true⟩, ⟨"id".toList, .path, false⟩] := by decide +kernel

/-! ### 12 query and header parameters: names on the wire, array layout, conditional insertion

`queryMember` / `headerInsert` (Model/ClientWire.lean) are what today's generator emits per parameter (tied to
the emitted code by the driver's `match`); `queryOk` / `headerOk` are the property's clauses, evaluated by the
driver on the facts EXTRACTED from the emitted code; `memberPairs` / `headerValue` are the serializers
(`serde_urlencoded`, `HeaderValue::try_from`). -/

/-- `style: simple`: the header value of an array is its items joined with `,`; splitting the value at `,`
returns exactly the items (empty items at ANY position included) when no item contains a comma.
`items = []` is excluded: an empty array and `[""]` both give the empty value (`join_empty_ambiguous`). -/
theorem joinHeader_split (items : List (List Char)) (hne : items ≠ []) (h : ∀ i ∈ items, ',' ∉ i) :
    splitOn ',' (joinHeader items) = items :=
  splitOn_joinWith ',' items hne h

/-- the same for the three query delimiters -/
theorem joinWith_split (s : Sep) (items : List (List Char)) (hne : items ≠ []) (h : ∀ i ∈ items, s.char ∉ i) :
    splitOn s.char (joinWith s.char items) = items :=
  splitOn_joinWith s.char items hne h

theorem join_leading_empty : joinHeader ["".toList, "write".toList] = ",write".toList ∧
    splitOn ',' (joinHeader ["".toList, "write".toList]) = ["".toList, "write".toList] ∧
    joinHeader ["".toList, "".toList] = ",".toList ∧
    joinHeader ["a".toList, "".toList, "".toList] = "a,,".toList := by decide

theorem join_empty_ambiguous : joinHeader [] = joinHeader ["".toList] := by decide

/-- a join that skips the separator while its accumulator is empty loses leading empty items: the value no
longer splits into the supplied items -/
theorem cex_join_skipping :
    joinSkipping ["".toList, "write".toList] = "write".toList ∧
    splitOn ',' (joinSkipping ["".toList, "write".toList]) ≠ ["".toList, "write".toList] ∧
    joinSkipping ["".toList, "".toList, "c".toList] = "c".toList ∧
    joinSkipping ["a".toList, "".toList, "c".toList] = joinHeader ["a".toList, "".toList, "c".toList] := by decide

/-- the parameter merge of the wire model is `collect_parameters` -/
theorem collectW_is_collectParams (ps : List WParam) :
    (collectW ps).map WParam.toParam = collectParams (ps.map WParam.toParam) := collectW_toParam ps

/-- query clause: a member accepted by the judge serializes every value the parameter's schema allows to
exactly the pairs OpenAPI prescribes (original name, one pair, declared delimiter), and never fails -/
theorem C03_query_clause_sound (p : WParam) (m : QMember) (h : queryOk p m = true) (v : PVal)
    (hv : v.fits p = true) : memberPairs m v = some (wantPairs p v) := queryOk_sound p m h v hv

/-- header clause: an insertion accepted by the judge yields exactly the `style: simple` value, and no header
for an absent parameter -/
theorem C03_header_clause_sound (p : WParam) (hi : HInsert) (s : Bool) (h : headerOk p hi s = true) (v : PVal)
    (hv : v.fits p = true) : headerValue hi v = wantHeader v := headerOk_sound p hi s h v hv

/-- today's query layout satisfies the clause exactly for parameters that are not exploded arrays -/
theorem C03_query_layout_char (p : WParam) :
    queryOk p (queryMember p) = !(p.isArray && explodeOf p) := by
  cases hA : p.isArray <;> cases hE : explodeOf p <;> simp [queryOk, queryMember, hA, hE]

theorem C03_query_layout_partial (p : WParam) (h : (p.isArray && explodeOf p) = false) :
    queryOk p (queryMember p) = true := by rw [C03_query_layout_char, h]; rfl

/-- today's header insertion satisfies the clause exactly for parameters that are not required-with-default -/
theorem C03_header_layout_char (p : WParam) :
    headerOk p (headerInsert p) (!p.isArray && p.item == .string) = !(p.required && p.hasDefault) := by
  cases hA : p.isArray <;> cases hR : p.required <;> cases hD : p.hasDefault <;>
    cases hI : p.item <;> simp [headerOk, headerInsert, hA, hR, hD, hI]

theorem C03_header_layout_partial (p : WParam) (h : (p.required && p.hasDefault) = false) :
    headerOk p (headerInsert p) (!p.isArray && p.item == .string) = true := by
  rw [C03_header_layout_char, h]; rfl

/-- KnownExplodedQueryArray: `ids: array` (style form, explode by default) is a plain `Vec`; every call that
supplies it fails in `serde_urlencoded` -/
theorem cex_exploded_array :
    memberPairs (queryMember { name := "ids".toList, loc := .query, isArray := true }) (.list ["1".toList]) = none ∧
    wantPairs { name := "ids".toList, loc := .query, isArray := true } (.list ["1".toList, "2".toList])
      = [("ids".toList, "1".toList), ("ids".toList, "2".toList)] := by decide +kernel

/-- KnownRequiredDefaultHeader: required + default gives a conditional insertion on a non-Option member -/
theorem cex_required_default_header :
    (headerInsert { name := "X-N".toList, loc := .header, item := .integer, required := true, hasDefault := true }).conditional = true ∧
    (headerInsert { name := "X-N".toList, loc := .header, item := .integer, required := true, hasDefault := true }).optional = false := by
  decide +kernel

/-- a delimited array member that lost its rename goes out under the Rust field name -/
theorem cex_rename_lost :
    memberPairs { (queryMember { name := "tagIds".toList, loc := .query, isArray := true, explode := some false }) with key := "tag_ids".toList }
        (.list ["t1".toList, "t2".toList]) = some [("tag_ids".toList, "t1,t2".toList)] ∧
    wantPairs { name := "tagIds".toList, loc := .query, isArray := true, explode := some false } (.list ["t1".toList, "t2".toList])
        = [("tagIds".toList, "t1,t2".toList)] ∧
    queryOk { name := "tagIds".toList, loc := .query, isArray := true, explode := some false }
        { (queryMember { name := "tagIds".toList, loc := .query, isArray := true, explode := some false }) with key := "tag_ids".toList } = false := by
  decide +kernel

example : queryMember { name := "filter-labels".toList, loc := .query, isArray := true, style := some .pipeDelimited }
    = { field := "filter_labels".toList, key := "filter-labels".toList, isArray := true, optional := true, adapter := some .pipe } := by
  decide +kernel
example : adapterText .pipe true = "Option<oas3_gen_support::StringWithPipeSeparator>".toList := by decide +kernel
example : (headerInsert { name := "X-Trace".toList, loc := .header, required := true }).wire = "x-trace".toList ∧
    (headerInsert { name := "X-Trace".toList, loc := .header, required := true }).const = "X_TRACE".toList := by decide +kernel

/-! ## empty template segments (finding F03-9 / F05-5)

`ParsedPath::parse` splits the template at `/` and FILTERS the empty pieces out, so a trailing slash and `//` are lost on both
sides: the client requests, and the server registers, another path than the document names. -/
open Oas3.Path in
theorem mapM'_length {α β ε} (f : α → Except ε β) : ∀ (l : List α) (out : List β), mapM' f l = .ok out → out.length = l.length
  | [], out, h => by simp [mapM'] at h; subst h; rfl
  | a :: r, out, h => by
    unfold mapM' at h
    split at h
    · simp at h
    · split at h
      · simp at h
      · rename_i b hb bs hbs
        simp at h; subst h
        simp [mapM'_length f r bs hbs]

open Oas3.Path in
/-- the parsed path has one segment per NON-EMPTY segment of the template — for every template that parses -/
theorem parse_keeps_nonempty_segments (decl : List (List Char × List Char)) (r : List Char) (p : Parsed)
    (hq : (splitOnce '?' ('/' :: r)).1 = '/' :: r) (hne : r ≠ [])
    (h : parsePath decl ('/' :: r) = .ok p) :
    p.segments.length = ((templateSegments ('/' :: r)).filter (fun s => !s.isEmpty)).length := by
  unfold parsePath at h
  simp only [hq] at h
  have ht : templateSegments ('/' :: r) = splitOn '/' r := by
    unfold templateSegments
    simp only [hq]
    all_goals (cases r with
      | nil => exact absurd rfl hne
      | cons c t => rfl)
  have hs : (splitOn '/' ('/' :: r)).filter (fun s => !s.isEmpty) = (splitOn '/' r).filter (fun s => !s.isEmpty) := by
    simp [splitOn]
  rw [hs] at h
  split at h
  · rename_i ss hss
    simp at h; subst h
    rw [ht]
    exact mapM'_length _ _ _ hss
  · simp at h

open Oas3.Path in
/-- `/items/` and `/a//b`: what HTTP sees, what is parsed, what the server registers -/
theorem cex_empty_segment_dropped :
    templateSegments "/items/".toList = ["items".toList, []] ∧
    ((parsePath [] "/items/".toList).toOption.map fun p => (p.segments.length, axumPath p)) = some (1, "/items".toList) ∧
    templateSegments "/a//b".toList = ["a".toList, [], "b".toList] ∧
    ((parsePath [] "/a//b".toList).toOption.map fun p => (p.segments.length, axumPath p)) = some (2, "/a/b".toList) := by
  decide +kernel

end Oas3.Props.C03
