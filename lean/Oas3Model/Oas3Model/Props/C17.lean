import Oas3Model.Proofs.Defaults
import Oas3Model.Sem.DefaultsDoc
/-!
# C17 — schema defaults are honoured wherever a value is filled in

`F` = `convert` (model of `convert_field` + `extract_default_value` + `json_to_rust_literal` +
`with_builder_attrs` + `struct_serde_attrs`, Model/Defaults.lean);
`Sem` = `observe` (trusted meaning of `#[default(..)]`/better_default, struct-level `#[serde(default)]`,
`#[builder(default = ..)]`/bon, `skip_serializing_none`, Sem/Defaults.lean);
`J` = decode-with-member-omitted = `T::default().m` = builder-unset = the declared default, and the
encoding writes it.

Today's code violates the property on five exactly characterised classes; `C17_char_iff` says the
property holds for a well-formed member IF AND ONLY IF it is in none of them.
-/
namespace Oas3.Props.C17
open Oas3.Defaults

/-! ## the default is taken from `default` > `const` > single `enum` value -/

theorem C17_extract_precedence {α : Type} (d c e : Option α) :
    extractDefault d c e = (match d, c, e with
      | some x, _, _ => some x
      | none, some y, _ => some y
      | none, none, z => z) := by
  cases d <;> cases c <;> cases e <;> rfl

/-! ## the coercion is right on every primitive target -/

/-- For every primitive target type and every default that denotes a value `w` of that type — of the
matching JSON type, or string-encoded for the integer / float / boolean targets — the emitted
literal evaluates to `w`. -/
theorem C17_coerce_sound (nat : JVal) (p : Prim) (v w : Scalar) (h : expectScalar p v = some w) :
    evalBase nat p false (coerce (.sc v) p) = some (.sc w) :=
  coerce_scalar nat p v w h

/-- matching type, integers: every in-range JSON integer (what serde_json holds as i64) -/
theorem C17_coerce_matching_int (nat : JVal) (p : Prim) (i : Int) (hp : p.isSInt = true)
    (hr : p.inRange i = true) (h1 : i64Min ≤ i) (h2 : i ≤ i64Max) :
    evalBase nat p false (coerce (.sc (.int i)) p) = some (.sc (.int i)) := by
  apply coerce_scalar
  cases p <;> simp_all [expectScalar, Prim.isSInt]

theorem C17_coerce_matching_uint (nat : JVal) (p : Prim) (i : Int) (hp : p.isUInt = true)
    (hr : p.inRange i = true) (h1 : 0 ≤ i) (h2 : i ≤ u64Max) :
    evalBase nat p false (coerce (.sc (.int i)) p) = some (.sc (.int i)) := by
  apply coerce_scalar
  cases p <;> simp_all [expectScalar, Prim.isSInt, Prim.isUInt]

/-- matching type, strings: every string (the empty one becomes `String::new()`) -/
theorem C17_coerce_matching_string (nat : JVal) (s : List Char) :
    evalBase nat .string false (coerce (.sc (.str s)) .string) = some (.sc (.str s)) :=
  coerce_scalar nat .string (.str s) (.str s) (by simp [expectScalar])

theorem C17_coerce_matching_bool (nat : JVal) (b : Bool) :
    evalBase nat .bool false (coerce (.sc (.bool b)) .bool) = some (.sc (.bool b)) :=
  coerce_scalar nat .bool (.bool b) (.bool b) (by simp [expectScalar])

/-- matching type, numbers: every non-integral decimal and every integer of at most 15 significant
digits (beyond that an f64 cannot hold the written value), at f32 and f64 -/
theorem C17_coerce_matching_float (nat : JVal) (p : Prim) (hp : p.isFloat = true) (mm : Int) (e : Nat) (he : e ≠ 0) (i : Int)
    (hm : exact15 mm = true) (hi : exact15 i = true) :
    evalBase nat p false (coerce (.sc (.dec mm e)) p) = some (.sc (.dec mm e)) ∧
    evalBase nat p false (coerce (.sc (.int i)) p) = some (.sc (.int i)) := by
  constructor <;> apply coerce_scalar <;> cases p <;> simp_all [expectScalar, Prim.isSInt, Prim.isUInt, Prim.isFloat]

/-- string-encoded integers: whatever `str::parse::<i64>` reads, if in the type's range -/
theorem C17_coerce_string_encoded_int (nat : JVal) (p : Prim) (s : List Char) (i : Int) (hp : p.isSInt = true)
    (hs : parseI64 s = some i) (hr : p.inRange i = true) :
    evalBase nat p false (coerce (.sc (.str s)) p) = some (.sc (.int i)) := by
  apply coerce_scalar
  cases p <;> simp_all [expectScalar, Prim.isSInt]

theorem C17_coerce_string_encoded_uint (nat : JVal) (p : Prim) (s : List Char) (i : Int) (hp : p.isUInt = true)
    (hs : parseU64 s = some i) (hr : p.inRange i = true) :
    evalBase nat p false (coerce (.sc (.str s)) p) = some (.sc (.int i)) := by
  apply coerce_scalar
  cases p <;> simp_all [expectScalar, Prim.isSInt, Prim.isUInt]

theorem C17_coerce_string_encoded_bool (nat : JVal) :
    evalBase nat .bool false (coerce (.sc (.str "true".toList)) .bool) = some (.sc (.bool true)) ∧
    evalBase nat .bool false (coerce (.sc (.str "false".toList)) .bool) = some (.sc (.bool false)) := by
  constructor <;> apply coerce_scalar <;> decide

/-- the K-level judge holds of the model for every type and value: whenever the JSON default
denotes a value at a primitive, non-array `TypeRef`, `json_to_rust_literal` evaluates to it
(`None` for null at an optional type, `Some(..)`-wrapped at an optional type). -/
theorem C17_literal_sound (t : FTy) (v : JVal) : JLit t v (jsonToRustLiteral v t) = true := by
  unfold JLit
  cases hx : expectLit t v with
  | none => rfl
  | some x =>
    simp only
    unfold expectLit at hx
    cases hta : t.isArray
    · simp only [hta] at hx ⊢
      cases v with
      | sc s =>
        cases s with
        | null =>
          cases htn : t.nullable <;> simp [htn] at hx
          subst hx
          simp [jsonToRustLiteral, eval, htn]
        | bool _ | int _ | dec _ _ | str _ =>
          rw [eval_literal _ _ _ (by simp)]
          cases hb : t.base <;> simp [hb] at hx <;>
            (obtain ⟨w, hw, rfl⟩ := hx
             simp [hta, coerce_scalar _ _ _ w hw])
      | arr xs => simp at hx
      | obj kvs => simp at hx
    · simp [hta] at hx

/-! ## the three "filled in" sites agree -/

/-- serde's struct-level default, `Default` and the builder default all come from the one
`json_to_rust_literal` call: whenever a default is declared, decode-omitted equals `T::default().m`,
and a `#[builder(default = e)]`, when emitted, gives the same value. -/
theorem C17_three_agree (m : Member) (v : JVal) (hd : m.default? = some v) :
    (observe m (convert m)).dec = (observe m (convert m)).dflt ∧
    (∀ e, (convert m).builderAttr = some (.default e) →
      (observe m (convert m)).bld = some ((observe m (convert m)).dflt)) := by
  obtain ⟨f1, f2, f3, f4⟩ := convert_flags m v hd
  have hb := convert_builderAttr m v hd
  have hdv := defaultVal_convert m v hd
  constructor
  · simp [observe, observeN, decodeOmitted, f1]
  · intro e he
    rw [hb] at he
    cases hbd : m.builders <;> cases hfn : finalNullable m <;> simp [hbd, hfn] at he
    subst he
    have hty := convert_ty m
    simp [observe, observeN, builderUnset, f3, hbd, hb, hfn, hdv, litVal, hty]

/-! ## the property, characterised -/

/-- **C17, exact.**  For every well-formed member with a declared (well-typed) default — any member
kind of the grammar, any source (`default` / `const` / single `enum`), required or not, builders on
or off — the property holds of the generator's output iff the member is in none of the five known
classes. -/
theorem C17_char_iff (m : Member) (hwf : WF m = true) :
    J m (observe m (convert m)) = true ↔
      (KnownEnumDefaultIsFirst m = false ∧ KnownArrayDefaultLost m = false ∧ KnownObjectDefaultLost m = false ∧
       KnownFormatDefaultLost m = false ∧ KnownBuilderUnsetNone m = false) := by
  rw [J_iff m hwf]
  unfold valueLost
  cases KnownEnumDefaultIsFirst m <;> cases KnownArrayDefaultLost m <;> cases KnownObjectDefaultLost m <;>
    cases KnownFormatDefaultLost m <;> simp

/-- characterisation form used by the verdict logic -/
theorem C17_char (m : Member) (hwf : WF m = true) :
    J m (observe m (convert m)) = true ∨ KnownEnumDefaultIsFirst m = true ∨ KnownArrayDefaultLost m = true ∨
    KnownObjectDefaultLost m = true ∨ KnownFormatDefaultLost m = true ∨ KnownBuilderUnsetNone m = true := by
  have h := C17_char_iff m hwf
  cases h1 : KnownEnumDefaultIsFirst m <;> cases h2 : KnownArrayDefaultLost m <;> cases h3 : KnownObjectDefaultLost m <;>
    cases h4 : KnownFormatDefaultLost m <;> cases h5 : KnownBuilderUnsetNone m <;> simp_all

/-- every known class is a genuine violation (no class is broader than the defect) -/
theorem C17_known_sound (m : Member) (hwf : WF m = true)
    (hk : KnownEnumDefaultIsFirst m = true ∨ KnownArrayDefaultLost m = true ∨ KnownObjectDefaultLost m = true ∨
          KnownFormatDefaultLost m = true ∨ KnownBuilderUnsetNone m = true) :
    J m (observe m (convert m)) = false := by
  have h := C17_char_iff m hwf
  cases hj : J m (observe m (convert m))
  · rfl
  · have := h.mp hj
    simp_all

/-- full strength where it is true: primitive (string / integer / number / boolean, any primitive
format), non-array members without builders satisfy the property outright; `nullable`, `required`
and the source of the default do not matter. -/
theorem C17_full_primitive (m : Member) (hwf : WF m = true) (ty : STy) (f : Option (List Char))
    (hk : m.kind = .scalar ty f) (hprim : ∀ n, scalarPrim ty f ≠ .other n) (ha : m.isArray = false) (hb : m.builders = false) :
    J m (observe m (convert m)) = true := by
  rw [C17_char_iff m hwf]
  refine ⟨?_, ?_, ?_, ?_, ?_⟩
  · simp [KnownEnumDefaultIsFirst, hk]
  · simp [KnownArrayDefaultLost, ha]
  · simp [KnownObjectDefaultLost, hk]
  · exact knownFormat_false_of_prim m ty f hk hprim
  · simp [KnownBuilderUnsetNone, hb]

/-- with builders on, a primitive member keeps the property exactly when it stays non-optional
(required, no `default` keyword, not nullable: i.e. its default comes from `const` / a single `enum`) -/
theorem C17_builders_primitive (m : Member) (hwf : WF m = true) (ty : STy) (f : Option (List Char))
    (hk : m.kind = .scalar ty f) (hprim : ∀ n, scalarPrim ty f ≠ .other n) (ha : m.isArray = false)
    (hreq : m.required = true) (hnd : m.dflt = none) (hnn : m.nullable = false) :
    J m (observe m (convert m)) = true := by
  rw [C17_char_iff m hwf]
  refine ⟨?_, ?_, ?_, ?_, ?_⟩
  · simp [KnownEnumDefaultIsFirst, hk]
  · simp [KnownArrayDefaultLost, ha]
  · simp [KnownObjectDefaultLost, hk]
  · exact knownFormat_false_of_prim m ty f hk hprim
  · simp [KnownBuilderUnsetNone, convert_ty, finalNullable, hreq, hnd, hnn]

/-! ## counter-examples: each known class on a concrete input (decided by the kernel) -/

def mk (kind : Kind) (isArray nullable required : Bool) (dflt const enumOne : Option JVal) (builders : Bool) : Member :=
  { kind, isArray, nullable, required, dflt, const, enumOne, builders, customName := "TMem".toList }

/-- `mem: {type: string, enum: [x, y], default: y}` → `Some(Default::default())` = `x` -/
def wEnum : Member := mk (.enumStr ["x".toList, "y".toList]) false false false (some (.sc (.str "y".toList))) none none false
theorem cex_enum_default_is_first :
    WF wEnum = true ∧ J wEnum (observe wEnum (convert wEnum)) = false ∧ KnownEnumDefaultIsFirst wEnum = true ∧
    (observe wEnum (convert wEnum)).dec = some (.sc (.str "x".toList)) := by decide +kernel

/-- `mem: {type: array, items: {type: string}, default: ["a"]}` → empty vector -/
def wArr : Member := mk (.scalar .string none) true false false (some (.arr [.str "a".toList])) none none false
theorem cex_array_default_lost :
    WF wArr = true ∧ J wArr (observe wArr (convert wArr)) = false ∧ KnownArrayDefaultLost wArr = true ∧
    (observe wArr (convert wArr)).dec = some (.arr []) := by decide +kernel

/-- `mem: {type: object, properties: {k: string}, default: {k: v}}` → `{}` -/
def wObj : Member := mk (.object ["k".toList]) false false false (some (.obj [("k".toList, .str "v".toList)])) none none false
theorem cex_object_default_lost :
    WF wObj = true ∧ J wObj (observe wObj (convert wObj)) = false ∧ KnownObjectDefaultLost wObj = true ∧
    (observe wObj (convert wObj)).dec = some (.obj []) := by decide +kernel

/-- `mem: {type: string, format: date, default: "2020-02-29"}` → 1970-01-01 -/
def wFmt : Member := mk (.scalar .string (some "date".toList)) false false false (some (.sc (.str "2020-02-29".toList))) none none false
theorem cex_format_default_lost :
    WF wFmt = true ∧ J wFmt (observe wFmt (convert wFmt)) = false ∧ KnownFormatDefaultLost wFmt = true ∧
    (observe wFmt (convert wFmt)).dec = some (.sc (.str "1970-01-01".toList)) := by decide +kernel

/-- `mem: {type: integer, default: 5}` with builders: decode/Default give `Some(5)`, the builder `None` -/
def wBld : Member := mk (.scalar .integer none) false false false (some (.sc (.int 5))) none none true
theorem cex_builder_unset_none :
    WF wBld = true ∧ J wBld (observe wBld (convert wBld)) = false ∧ KnownBuilderUnsetNone wBld = true ∧
    (observe wBld (convert wBld)).dflt = some (.sc (.int 5)) ∧ (observe wBld (convert wBld)).bld = some (some (.sc .null)) := by decide +kernel

/-! ## non-vacuity: well-formed members on which the property holds -/

example : let m := mk (.scalar .integer (some "int32".toList)) false false true (some (.sc (.int (-7)))) none none false
    WF m = true ∧ J m (observe m (convert m)) = true ∧ (observe m (convert m)).enc = some (.sc (.int (-7))) := by
  decide +kernel

example : let m := mk (.scalar .string none) false false true none (some (.sc (.str "cc".toList))) none true
    WF m = true ∧ J m (observe m (convert m)) = true ∧ (convert m).builderAttr = some (.default (.strToString "cc".toList)) := by
  decide +kernel

example : let m := mk (.scalar .number none) false true false (some (.sc (.str "1.50".toList))) none none false
    WF m = true ∧ J m (observe m (convert m)) = true ∧ (observe m (convert m)).dec = some (.sc (.dec 15 1)) := by
  decide +kernel

example : let m := mk (.enumStr ["x".toList, "y".toList]) false false false (some (.sc (.str "x".toList))) none none false
    WF m = true ∧ J m (observe m (convert m)) = true := by
  decide +kernel

/-! ## documents: several sites, a usage and a generation target (`dflt.doc`) -/

/-- **site independence.**  What the model expects for site `i` of a document is `convertSite` of THAT site's
own schema under the target and the usage of its generated type — no other site's schema enters. -/
theorem site_independent {κ : Type} [BEq κ] (t : Target) (sites : List (DocSite κ)) (i : Nat) :
    (convertDoc t sites)[i]? = (sites[i]?).map (fun d => convertSite t (effUsage sites d) d.site) := by
  simp [convertDoc]

/-- … and the member attributes (field type, `#[default(..)]`, `#[builder(..)]`) and the container
`#[serde(default)]` of a site do not even depend on target and usage: they are a function of the site's schema. -/
theorem site_members_schema_only (t t' : Target) (u u' : Usage) (s : Site) :
    (convertSite t u s).members = (convertSite t' u' s).members ∧
    (convertSite t u s).serdeDefault = (convertSite t' u' s).serdeDefault := ⟨rfl, rfl⟩

/-- only the derived serde traits depend on target and usage, and for a schema struct they are: both traits
unless the type is used in one direction only; `Deserialize` is derived exactly when the generated side RECEIVES
the type (client: responses, server: requests). -/
theorem schema_derives_deserialize_iff (t : Target) (u : Usage) :
    (serdeMode t .schema u).de = true ↔
      (match t with
       | .client => u.inResp = true ∨ u.inReq = false
       | .server => u.inReq = true ∨ u.inResp = false) := by
  cases t <;> cases u with | mk a b => cases a <;> cases b <;> simp [serdeMode]

/-- **decode needs the container attribute.**  Under the serde semantics model, for a member whose
`Default::default()` value is a non-null `x`, decoding a document that omits the member gives `x` if and only
if the struct carries `#[serde(default)]`. -/
theorem decode_needs_default_iff (nat : JVal) (f : Facts) (x : JVal) (hx : x ≠ .sc .null)
    (hd : defaultVal nat f = some x) :
    decodeOmitted nat f = some x ↔ f.structSerdeDefault = true := by
  unfold decodeOmitted
  cases hs : f.structSerdeDefault
  · cases hn : f.ty.nullable
    · simp
    · simp only [Bool.false_eq_true, if_false, if_true, iff_false]
      intro h
      exact hx (by injection h with h; exact h.symm)
  · simp [hd]

/-- every schema site with a defaulted member gets the container attribute, whatever the target and the usage:
so wherever `Deserialize` is derived, decode-omitted equals `Default` for all of its members. -/
theorem schema_site_decodes_default (t : Target) (u : Usage) (s : Site) (hk : s.kind = .schema)
    (hm : ∃ nm ∈ s.members, nm.2.default?.isSome = true) (nat : JVal) (n : List Char) (f : Facts)
    (hf : (n, f) ∈ (convertSite t u s).members) :
    decodeOmitted nat f = defaultVal nat f := by
  obtain ⟨nm, hmem, hd⟩ := hm
  have hsd : siteSerdeDefault s = true := by
    unfold siteSerdeDefault
    rw [hk]
    exact List.any_eq_true.mpr ⟨nm, hmem, hd⟩
  simp only [convertSite, List.mem_map] at hf
  obtain ⟨a, _, ha⟩ := hf
  have : f.structSerdeDefault = true := by
    have := congrArg Prod.snd ha
    simp at this
    rw [← this]
    exact hsd
  simp [decodeOmitted, this]

/-- the usage-relative property is implied by the full one: where every trait is derived `JU` is `J`, and
deriving fewer traits only removes obligations. -/
theorem JU_of_J (m : Member) (nat : JVal) (b : Bool) (sd : Serde) (f : Facts)
    (h : J m (observeN nat b f) = true) : JU m sd (observeU nat b sd f) = true := by
  unfold J at h
  unfold JU
  cases hx : expected m with
  | none => rfl
  | some x =>
    simp only [hx, observeN, Bool.and_eq_true, beq_iff_eq] at h
    obtain ⟨⟨⟨h1, h2⟩, h3⟩, h4⟩ := h
    simp only [observeU, Bool.and_eq_true, Bool.or_eq_true, beq_iff_eq, Bool.not_eq_true']
    refine ⟨⟨⟨Or.inr h1, h2⟩, h3⟩, ?_⟩
    cases hde : sd.de
    · -- encodes `T::default()`, which equals the decoded value under `J`
      rw [h1] at h4
      rw [h2]
      simp only [Bool.false_eq_true, if_false]
      rcases (by simpa using h4 : x = .sc .null ∨ encodeOf f (some x) = some x) with h | h
      · exact Or.inl (Or.inl h)
      · exact Or.inr h
    · simp only [if_true]
      rcases (by simpa using h4 : x = .sc .null ∨ encodeOf f (decodeOmitted nat f) = some x) with h | h
      · exact Or.inl (Or.inl h)
      · exact Or.inr h

def msite (kind : SiteKind) (ms : List (String × Member)) : Site :=
  { kind, members := ms.map fun nm => (nm.1.toList, nm.2) }

def intDefault (d : Int) : Member := mk (.scalar .integer none) false false false (some (.sc (.int d))) none none false

/-- two same-shaped inline objects `{max: integer default 1}` / `{max: integer default 2}` -/
def siteOne : Site := msite .schema [("max", intDefault 1)]
def siteTwo : Site := msite .schema [("max", intDefault 2)]
def twoSites : List (DocSite Nat) := [⟨siteOne, Usage.both, some 1⟩, ⟨siteTwo, Usage.both, some 2⟩]

/-- **sharing one struct between two sites with different defaults breaks the per-site judge**: the model's
facts pass at both sites; the facts of site 0 used at both sites (what a cache key that ignores `default`
produces) fail at site 1. -/
theorem cex_shared_struct :
    JDoc twoSites (convertDoc .client twoSites) = [true, true] ∧
    JDoc twoSites [convertSite .client Usage.both siteOne, convertSite .client Usage.both siteOne] = [true, false] ∧
    JDoc twoSites [convertSite .client Usage.both siteTwo, convertSite .client Usage.both siteTwo] = [false, true] := by
  decide +kernel

/-- a request-only schema struct in a SERVER run derives `Deserialize`; without the container attribute
(what removing it "because request-only payloads are never decoded" produces) the judge fails, while the same
facts in a CLIENT run (Serialize only) pass: the obligation is tied to the derived trait. -/
theorem cex_request_only_server :
    let f := convertSite .server Usage.req siteOne
    let g : SiteFacts := { f with members := f.members.map fun nf => (nf.1, { nf.2 with structSerdeDefault := false }) }
    f.serde = ⟨false, true⟩ ∧ JSite siteOne f.serde f.members = true ∧ JSite siteOne f.serde g.members = false ∧
    JSite siteOne (serdeMode .client .schema Usage.req) g.members = true := by
  decide +kernel

/-- `KnownQueryParamDefaultNotDecoded` on a concrete input: `?mem` (integer, default 5) in a server run -/
def querySite : Site := msite .query [("mem", intDefault 5)]
theorem cex_query_param_default_not_decoded :
    let f := convertSite .server Usage.both querySite
    f.serde = ⟨false, true⟩ ∧ f.serdeDefault = false ∧ JSite querySite f.serde f.members = false ∧
    KnownQueryParamDefaultNotDecoded .server querySite (intDefault 5) = true ∧
    -- the client side of the same parameter (Serialize only) satisfies the property
    JSite querySite (serdeMode .client .query Usage.both) (convertSite .client Usage.both querySite).members = true := by
  decide +kernel

/-- the class is exact for parameter structs: a server-side query parameter struct never carries the container
attribute, so a member whose `Default` value is a non-null `x` never decodes to it. -/
theorem query_param_never_decodes (u : Usage) (s : Site) (hk : s.kind = .query) (nat : JVal) (n : List Char) (f : Facts) (x : JVal)
    (hf : (n, f) ∈ (convertSite .server u s).members) (hx : x ≠ .sc .null) (hd : defaultVal nat f = some x) :
    (serdeMode .server s.kind u).de = true ∧ decodeOmitted nat f ≠ some x := by
  constructor
  · rw [hk]; rfl
  · have hsd : siteSerdeDefault s = false := by unfold siteSerdeDefault; rw [hk]
    simp only [convertSite, List.mem_map] at hf
    obtain ⟨a, _, ha⟩ := hf
    have : f.structSerdeDefault = false := by
      have := congrArg Prod.snd ha
      simp at this
      rw [← this]
      exact hsd
    intro h
    have := (decode_needs_default_iff nat f x hx hd).mp h
    simp_all

end Oas3.Props.C17
