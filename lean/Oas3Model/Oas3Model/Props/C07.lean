import Oas3Model.Model.Graph
import Oas3Model.Proofs.Graph
/-
C07: the output is closed under references; emitted = reachable.
-/
namespace Oas3.Props.C07
open Oas3.Graph

/-- a successful closure contains its seeds and is closed under the dependency relation:
every type mentioned by an emitted schema is emitted -/
theorem close_sound (deps : List (Name × List Name)) (f : Nat) (R₀ R : List Name) :
    close deps f R₀ = some R →
      (∀ x ∈ R₀, x ∈ R) ∧ (∀ a ∈ R, ∀ b ∈ succ deps a, b ∈ R) :=
  Oas3.Graph.close_sound deps f R₀ R

/-- nothing unreachable is emitted -/
theorem close_minimal (deps : List (Name × List Name)) (f : Nat) (R₀ R : List Name) :
    close deps f R₀ = some R → ∀ x ∈ R, x ∈ R₀ ∨ ∃ s ∈ R₀, TC (Edge deps) s x :=
  Oas3.Graph.close_minimal deps f R₀ R

/-- `reachable` computes exactly the seeds plus everything reachable from a seed -/
theorem reachable_spec (deps : List (Name × List Name)) (seeds R : List Name) :
    reachable deps seeds = some R →
      ∀ x, x ∈ R ↔ (x ∈ seeds ∨ ∃ s ∈ seeds, TC (Edge deps) s x) := by
  intro h x
  unfold reachable at h
  rw [close_spec deps _ _ R h x]
  simp only [mem_dedup]

/-- the fuel `(nodes deps).length + seeds.length + 1` always suffices -/
theorem reachable_total (deps : List (Name × List Name)) (seeds : List Name) :
    (reachable deps seeds).isSome = true :=
  Oas3.Graph.reachable_total deps seeds

/-- consequently `reachable` always returns a list, and that list is the reachable set -/
theorem reachable_exists (deps : List (Name × List Name)) (seeds : List Name) :
    ∃ R, reachable deps seeds = some R ∧
      ∀ x, x ∈ R ↔ (x ∈ seeds ∨ ∃ s ∈ seeds, TC (Edge deps) s x) := by
  have h := reachable_total deps seeds
  cases hr : reachable deps seeds with
  | none => rw [hr] at h; cases h
  | some R => exact ⟨R, rfl, reachable_spec deps seeds R hr⟩

/-- direct `$ref` members of an object schema (properties, oneOf/anyOf/allOf variants, items) are
collected as dependencies -/
theorem collect_covers_direct (fps : Fps) (props oneOf anyOf allOf : List S) (items addl : Option S)
    (n : Name)
    (h : .ref n ∈ props ∨ .ref n ∈ oneOf ∨ .ref n ∈ anyOf ∨ .ref n ∈ allOf ∨ items = some (.ref n)) :
    n ∈ collect fps (.obj props oneOf anyOf allOf items addl) := by
  rw [collect_obj]
  have hr : n ∈ collectRef fps (.ref n) := by rw [collectRef_ref]; exact List.mem_singleton.2 rfl
  simp only [List.mem_append, mem_collectRefs]
  rcases h with h | h | h | h | h
  · exact .inl (.inl (.inl (.inl (.inl (.inl ⟨_, h, hr⟩)))))
  · exact .inl (.inl (.inl (.inl (.inl (.inr ⟨_, h, hr⟩)))))
  · exact .inl (.inl (.inl (.inl (.inr ⟨_, h, hr⟩))))
  · exact .inl (.inl (.inl (.inr ⟨_, h, hr⟩)))
  · subst h; exact .inr hr

/-- dependencies of nested (inline) member schemas are collected -/
theorem collect_nested (fps : Fps) (props oneOf anyOf allOf : List S) (items addl : Option S) (t : S)
    (h : t ∈ props ∨ t ∈ oneOf ∨ t ∈ anyOf ∨ t ∈ allOf ∨ items = some t) :
    ∀ n ∈ collect fps t, n ∈ collect fps (.obj props oneOf anyOf allOf items addl) := by
  intro n hn
  have hr : n ∈ collectRef fps t := collect_subset_collectRef fps t n hn
  rw [collect_obj]
  simp only [List.mem_append, mem_collectRefs]
  rcases h with h | h | h | h | h
  · exact .inl (.inl (.inl (.inl (.inl (.inl ⟨_, h, hr⟩)))))
  · exact .inl (.inl (.inl (.inl (.inl (.inr ⟨_, h, hr⟩)))))
  · exact .inl (.inl (.inl (.inl (.inr ⟨_, h, hr⟩))))
  · exact .inl (.inl (.inl (.inr ⟨_, h, hr⟩)))
  · subst h; exact .inr hr

/-- known defect reproduced by the model: a `$ref` under additionalProperties is not a dependency -/
theorem cex_addl_not_collected : collect [] (.obj [] [] [] [] none (some (.ref "Tag".toList))) = [] := by
  simp [collect, collectRefs, fingerprint]

/-! ## non-vacuity: a chain with a branch, `A → B → C`, `B → D`, plus an unrelated `E` -/

def nA : Name := ['A']
def nB : Name := ['B']
def nC : Name := ['C']
def nD : Name := ['D']
def nE : Name := ['E']

/-- four schemas forming a chain with a branch, plus an unreachable fifth one -/
def exSchemas : List (Name × S) :=
  [ (nA, .obj [.ref nB] [] [] [] none none),
    (nB, .obj [.ref nC, .obj [] [] [] [] (some (.ref nD)) none] [] [] [] none none),
    (nC, .obj [] [] [] [] none none),
    (nD, .obj [] [] [] [] none none),
    (nE, .obj [.ref nA] [] [] [] none none) ]

def exDeps : List (Name × List Name) :=
  [ (nA, [nB]), (nB, [nC, nD]), (nC, []), (nD, []), (nE, [nA]) ]

theorem ex_depsOf : depsOf exSchemas = exDeps := by
  decide

theorem ex_reachable_A : reachable exDeps [nA] = some [nA, nB, nC, nD] := by decide
theorem ex_reachable_B : reachable exDeps [nB] = some [nB, nC, nD] := by decide
theorem ex_reachable_C : reachable exDeps [nC] = some [nC] := by decide
/-- a seed that is not a graph node stays -/
theorem ex_reachable_unknown : reachable exDeps [['Z']] = some [['Z']] := by decide

/-- the unrelated schema `E` is not emitted although it is a graph node -/
theorem ex_E_not_emitted : ∀ R, reachable exDeps [nA] = some R → nE ∉ R := by
  intro R h
  rw [ex_reachable_A] at h
  cases h
  decide

end Oas3.Props.C07
