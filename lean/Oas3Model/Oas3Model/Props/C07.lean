import Oas3Model.Model.Graph
import Oas3Model.Proofs.Graph
/-
C07: the output is closed under references; emitted = reachable.
-/
namespace Oas3.Props.C07
open Oas3.Graph

/-- a successful closure contains its seeds and is closed under the dependency relation:
every type mentioned by an emitted schema is emitted -/
theorem close_sound (deps : List (Name × List Name)) (f : Nat) (R₀ R : List Name) :
    close deps f R₀ = some R →
      (∀ x ∈ R₀, x ∈ R) ∧ (∀ a ∈ R, ∀ b ∈ succ deps a, b ∈ R) :=
  Oas3.Graph.close_sound deps f R₀ R

/-- nothing unreachable is emitted -/
theorem close_minimal (deps : List (Name × List Name)) (f : Nat) (R₀ R : List Name) :
    close deps f R₀ = some R → ∀ x ∈ R, x ∈ R₀ ∨ ∃ s ∈ R₀, TC (Edge deps) s x :=
  Oas3.Graph.close_minimal deps f R₀ R

/-- `reachable` computes exactly the seeds plus everything reachable from a seed -/
theorem reachable_spec (deps : List (Name × List Name)) (seeds R : List Name) :
    reachable deps seeds = some R →
      ∀ x, x ∈ R ↔ (x ∈ seeds ∨ ∃ s ∈ seeds, TC (Edge deps) s x) := by
  intro h x
  unfold reachable at h
  rw [close_spec deps _ _ R h x]
  simp only [mem_dedup]

/-- the fuel `(nodes deps).length + seeds.length + 1` always suffices -/
theorem reachable_total (deps : List (Name × List Name)) (seeds : List Name) :
    (reachable deps seeds).isSome = true :=
  Oas3.Graph.reachable_total deps seeds

/-- consequently `reachable` always returns a list, and that list is the reachable set -/
theorem reachable_exists (deps : List (Name × List Name)) (seeds : List Name) :
    ∃ R, reachable deps seeds = some R ∧
      ∀ x, x ∈ R ↔ (x ∈ seeds ∨ ∃ s ∈ seeds, TC (Edge deps) s x) := by
  have h := reachable_total deps seeds
  cases hr : reachable deps seeds with
  | none => rw [hr] at h; cases h
  | some R => exact ⟨R, rfl, reachable_spec deps seeds R hr⟩

/-- direct `$ref` members of an object schema (properties, oneOf/anyOf/allOf variants, items) are
collected as dependencies -/
theorem collect_covers_direct (fps : Fps) (props oneOf anyOf allOf : List S) (items addl : Option S)
    (n : Name)
    (h : .ref n ∈ props ∨ .ref n ∈ oneOf ∨ .ref n ∈ anyOf ∨ .ref n ∈ allOf ∨ items = some (.ref n)) :
    n ∈ collect fps (.obj props oneOf anyOf allOf items addl) := by
  rw [collect_obj]
  have hr : n ∈ collectRef fps (.ref n) := by rw [collectRef_ref]; exact List.mem_singleton.2 rfl
  simp only [List.mem_append, mem_collectRefs]
  rcases h with h | h | h | h | h
  · exact .inl (.inl (.inl (.inl (.inl (.inl ⟨_, h, hr⟩)))))
  · exact .inl (.inl (.inl (.inl (.inl (.inr ⟨_, h, hr⟩)))))
  · exact .inl (.inl (.inl (.inl (.inr ⟨_, h, hr⟩))))
  · exact .inl (.inl (.inl (.inr ⟨_, h, hr⟩)))
  · subst h; exact .inr hr

/-- dependencies of nested (inline) member schemas are collected -/
theorem collect_nested (fps : Fps) (props oneOf anyOf allOf : List S) (items addl : Option S) (t : S)
    (h : t ∈ props ∨ t ∈ oneOf ∨ t ∈ anyOf ∨ t ∈ allOf ∨ items = some t) :
    ∀ n ∈ collect fps t, n ∈ collect fps (.obj props oneOf anyOf allOf items addl) := by
  intro n hn
  have hr : n ∈ collectRef fps t := collect_subset_collectRef fps t n hn
  rw [collect_obj]
  simp only [List.mem_append, mem_collectRefs]
  rcases h with h | h | h | h | h
  · exact .inl (.inl (.inl (.inl (.inl (.inl ⟨_, h, hr⟩)))))
  · exact .inl (.inl (.inl (.inl (.inl (.inr ⟨_, h, hr⟩)))))
  · exact .inl (.inl (.inl (.inl (.inr ⟨_, h, hr⟩))))
  · exact .inl (.inl (.inl (.inr ⟨_, h, hr⟩)))
  · subst h; exact .inr hr

/-- known defect reproduced by the model: a `$ref` under additionalProperties is not a dependency -/
theorem cex_addl_not_collected : collect [] (.obj [] [] [] [] none (some (.ref "Tag".toList))) = [] := by
  simp [collect, collectRefs, fingerprint]

/-! ## non-vacuity: a chain with a branch, `A → B → C`, `B → D`, plus an unrelated `E` -/

def nA : Name := ['A']
def nB : Name := ['B']
def nC : Name := ['C']
def nD : Name := ['D']
def nE : Name := ['E']

/-- four schemas forming a chain with a branch, plus an unreachable fifth one -/
def exSchemas : List (Name × S) :=
  [ (nA, .obj [.ref nB] [] [] [] none none),
    (nB, .obj [.ref nC, .obj [] [] [] [] (some (.ref nD)) none] [] [] [] none none),
    (nC, .obj [] [] [] [] none none),
    (nD, .obj [] [] [] [] none none),
    (nE, .obj [.ref nA] [] [] [] none none) ]

def exDeps : List (Name × List Name) :=
  [ (nA, [nB]), (nB, [nC, nD]), (nC, []), (nD, []), (nE, [nA]) ]

theorem ex_depsOf : depsOf exSchemas = exDeps := by
  decide

theorem ex_reachable_A : reachable exDeps [nA] = some [nA, nB, nC, nD] := by decide
theorem ex_reachable_B : reachable exDeps [nB] = some [nB, nC, nD] := by decide
theorem ex_reachable_C : reachable exDeps [nC] = some [nC] := by decide
/-- a seed that is not a graph node stays -/
theorem ex_reachable_unknown : reachable exDeps [['Z']] = some [['Z']] := by decide

/-- the unrelated schema `E` is not emitted although it is a graph node -/
theorem ex_E_not_emitted : ∀ R, reachable exDeps [nA] = some R → nE ∉ R := by
  intro R h
  rw [ex_reachable_A] at h
  cases h
  decide

/-! ## duplicate response enums: one survivor per response signature, removed by index in descending order
(`postprocess/response_enum.rs::compute_replacements`) -/

/-- removing in-range indices in strictly descending order removes exactly one element per index -/
theorem removeIdxs_length {α : Type} (idxs : List Nat) (l : List α)
    (hd : idxs.Pairwise (· > ·)) (hr : ∀ i ∈ idxs, i < l.length) :
    (removeIdxs idxs l).length = l.length - idxs.length := by
  induction idxs generalizing l with
  | nil => simp [removeIdxs]
  | cons i is ih =>
    have hi : i < l.length := hr i (List.mem_cons_self ..)
    rw [List.pairwise_cons] at hd
    have hlen : (l.eraseIdx i).length = l.length - 1 := by rw [List.length_eraseIdx]; simp [hi]
    have := ih (l.eraseIdx i) hd.2 (by
      intro j hj
      have h1 := hd.1 j hj
      rw [hlen]; omega)
    show (removeIdxs is (l.eraseIdx i)).length = _
    rw [this, hlen]; simp; omega

/-- every signature keeps exactly its canonical enum: the survivor of a group is a member of the group -/
theorem canonicalOf_mem : ∀ (l : List Name) (n : Name), canonicalOf l = some n → n ∈ l := by
  intro l
  induction l with
  | nil => intro n h; cases h
  | cons a r ih =>
    intro n h
    unfold canonicalOf at h
    cases hc : canonicalOf r with
    | none => rw [hc] at h; cases h; exact List.mem_cons_self ..
    | some m =>
      rw [hc] at h
      simp only [] at h
      split at h
      · cases h; exact List.mem_cons_self ..
      · cases h; exact List.mem_cons_of_mem _ (ih _ hc)

theorem canonicalOf_some (l : List Name) (h : l ≠ []) : (canonicalOf l).isSome = true := by
  cases l with
  | nil => exact absurd rfl h
  | cons a r => unfold canonicalOf; cases canonicalOf r <;> simp <;> split <;> rfl

def a5 : List Char := "abcde".toList
/-- descending order (what the generator does): the two named elements go -/
theorem ex_remove_desc : removeIdxs [3, 1] a5 = "ace".toList := by decide
/-- group by group (ascending across groups): the element AFTER the second duplicate is deleted instead -/
theorem cex_remove_group_order : removeIdxs [1, 3] a5 = "acd".toList := by decide

def exOps : List (Name × Name) := [("OpaResponse".toList, "Beta".toList), ("OpbResponse".toList, "Alpha".toList), ("OpcResponse".toList, "Beta".toList), ("OpdResponse".toList, "Alpha".toList), ("Op10Response".toList, "Beta".toList)]
theorem ex_survivors : dedupSurvivors exOps = ["OpaResponse".toList, "OpbResponse".toList] := by decide
end Oas3.Props.C07
