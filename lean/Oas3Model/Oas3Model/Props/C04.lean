import Oas3Model.Model.Responses
namespace Oas3.Props.C04
open Oas3.Status Oas3.Resp Oas3.Gen.Status

/-- every named token has a row in each regenerated table -/
theorem tables_total : ∀ t ∈ tokens, (lookup t codeTbl).isSome ∧ (lookup t variantNameTbl).isSome ∧ (lookup t asStrTbl).isSome := by
  decide

end Oas3.Props.C04
