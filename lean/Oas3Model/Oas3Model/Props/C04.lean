import Oas3Model.Model.Responses
import Oas3Model.Proofs.StatusDispatch
/-
C04 — status dispatch of the generated client.

Model (differentially tested against the Rust generator): `Model/Status.lean`, `Model/Responses.lean`
over the tables regenerated from the Rust sources (`Gen/Status.lean`).
Proof modules: `Proofs/StatusTables.lean` (kernel-evaluated table facts), `Proofs/Status.lean`
(token / key lemmas), `Proofs/StatusDispatch.lean` (sorting, variants, chain evaluation).
-/
namespace Oas3.Props.C04
open Oas3.Status Oas3.Resp Oas3.Gen.Status
open Oas3.Proofs.Status (digitC)

set_option maxRecDepth 100000

/-- every named token has a row in each regenerated table -/
theorem tables_total : ∀ t ∈ tokens, (lookup t codeTbl).isSome ∧ (lookup t variantNameTbl).isSome ∧ (lookup t asStrTbl).isSome := by
  decide

/-! ## A. table facts -/

/-- `from_str ∘ as_str` is the identity on the named tokens. -/
theorem fromStr_asStr : ∀ t ∈ tokens, fromStr (asStr (.named t)) = .named t :=
  Oas3.Proofs.Status.fromStr_asStr

/-- the `http::StatusCode` constant emitted for an exact token has the token's numeric value. -/
theorem exact_status : ∀ t ∈ tokens, ∀ c, code (.named t) = some c → httpStatus (.named t) = c :=
  Oas3.Proofs.Status.exact_status

/-- … hence the emitted condition of an exact token is `status == code`. -/
theorem exact_cond : ∀ t ∈ tokens, ∀ c, code (.named t) = some c → ∀ n, Oas3.Status.cond (.named t) n = (n == c) :=
  Oas3.Proofs.Status.exact_cond

/-- the range key `kXX` (`k ∈ 1..5`, either case of each `X`; `digitC k = Char.ofNat (48 + k)`) is a named,
non-default token without numeric code whose emitted condition is `k*100 ≤ status < (k+1)*100`. -/
theorem range_cond (k : Nat) (h1 : 1 ≤ k) (h5 : k ≤ 5) (x y : Char) (hx : x ∈ ['X', 'x']) (hy : y ∈ ['X', 'x']) :
    ∃ t ∈ tokens, fromStr [digitC k, x, y] = .named t ∧ code (.named t) = none ∧ isDefault (.named t) = false ∧
      ∀ n, Oas3.Status.cond (.named t) n = (decide (k * 100 ≤ n) && decide (n < (k + 1) * 100)) := by
  obtain ⟨t, ht, h⟩ := Oas3.Proofs.Status.range_cond k h1 h5 x y hx hy
  exact ⟨t, ht, h.1, h.2.1, h.2.2.1, h.2.2.2.2⟩

/-- the literal instances, for readability -/
example : fromStr "2XX".toList = .named "Success2XX".toList ∧ fromStr "4xx".toList = .named "ClientError4XX".toList := by
  decide +kernel

/-- every exact key `c.to_string()`, `100 ≤ c ≤ 599`, (table row or numeric fallback) yields a non-default
token with code `c` whose emitted condition is `status == c`. -/
theorem fromStr_exact : ∀ c, 100 ≤ c → c ≤ 599 →
    code (fromStr (natChars c)) = some c ∧ isDefault (fromStr (natChars c)) = false ∧
    ∀ n, Oas3.Status.cond (fromStr (natChars c)) n = (n == c) :=
  Oas3.Proofs.Status.fromStr_exact

theorem fromStr_default :
    fromStr "default".toList = .named "Default".toList ∧ isDefault (.named "Default".toList) = true :=
  Oas3.Proofs.Status.fromStr_default

/-- distinct non-default named tokens have distinct variant names; `Status<code>` never collides with them. -/
theorem variant_names_distinct :
    (∀ t₁ ∈ tokens, ∀ t₂ ∈ tokens, t₁ ≠ "Default".toList → t₂ ≠ "Default".toList → t₁ ≠ t₂ →
      variantName (.named t₁) ≠ variantName (.named t₂)) ∧
    (∀ c, ∀ t ∈ tokens, variantName (.unknown c) ≠ variantName (.named t)) :=
  ⟨fun t₁ h₁ t₂ h₂ d₁ d₂ hne => Oas3.Proofs.Status.variant_names_distinct t₁ t₂ h₁ h₂ d₁ d₂ hne,
   fun c t ht => Oas3.Proofs.Status.variantName_unknown_ne_named c t ht⟩

theorem exactKey_natChars {k : List Char} {c : Nat} (h : exactKey k = some c) :
    k = natChars c ∧ 100 ≤ c ∧ c ≤ 599 :=
  Oas3.Proofs.Status.exactKey_natChars h

theorem rangeKey_shape {k : List Char} {j : Nat} (h : rangeKey k = some j) :
    1 ≤ j ∧ j ≤ 5 ∧ ∃ x y, x ∈ ['X', 'x'] ∧ y ∈ ['X', 'x'] ∧ k = [digitC j, x, y] :=
  Oas3.Proofs.Status.rangeKey_shape h

/-! ## B. ordering -/

/-- in the sorted responses map an exact key precedes the range key of the same hundred. -/
theorem exact_before_range (a b : List Char) :
    (exactKey a).isSome → (rangeKey b).isSome → a.head? = b.head? → strLt a b = true :=
  Oas3.Proofs.Status.exact_before_range a b

/-- `sortKeys` yields keys in strictly increasing `strLt` order. -/
theorem sortKeys_sorted {β} (l : List (List Char × β)) :
    (sortKeys l).Pairwise (fun p q => strLt p.1 q.1 = true) :=
  Oas3.Proofs.Status.sortKeys_sorted l

/-! ## C. dispatch -/

/-- for a handler list whose bodies are all `.single`, the chain returns the first handler whose
condition holds on the status. -/
theorem evalChainAux_first (n : Nat) (ct : List Char) (hs : List (CondE × Body))
    (hsingle : ∀ h ∈ hs, ∃ k, h.2 = .single k) :
    evalChainAux n ct hs = (hs.find? (fun h => evalCond n h.1)).map
      (fun h => match h.2 with | .single k => k | .dispatch _ => Oas3.Proofs.Status.noCase) :=
  Oas3.Proofs.Status.evalChainAux_first n ct hs hsingle

/-- the emitted condition of a token evaluates as `cond` -/
theorem evalCond_condOf (tok : Tok) (n : Nat) : evalCond n (condOf tok) = Oas3.Status.cond tok n :=
  Oas3.Proofs.Status.evalCond_condOf tok n

/-- well-formed responses object: canonical keys, pairwise distinct tokens, at most one media type per
status (so every handler body is `.single`). -/
def WF (rs : List (List Char × List MediaDecl)) : Prop :=
  (∀ p ∈ rs, canonicalKey p.1 = true) ∧ (rs.map (fun p => fromStr p.1)).Nodup ∧ (∀ p ∈ rs, p.2.length ≤ 1)

/-- The client picks the right response for EVERY status `n` (no range restriction needed) and every
content type: the chosen variant is the one built from the exact key of `n` if declared, else from its
`NXX` key, else the default (declared `default`, or the synthetic `Unknown`).
(`rs ≠ []` is implied by `chainOf rs = some ch`.) -/
theorem dispatch_spec (rs : List (List Char × List MediaDecl)) (hwf : WF rs)
    (ch : Chain) (hch : chainOf rs = some ch) (n : Nat) (ct : List Char) :
    ∃ v ∈ variantsOf rs, v.name = (evalChain ch n ct).variant ∧
      v.tok = (if (rs.map (·.1)).contains (specKey (rs.map (·.1)) n)
               then fromStr (specKey (rs.map (·.1)) n) else defaultTok) := by
  obtain ⟨v, hv, he, ht⟩ := Oas3.Proofs.Status.dispatch_core rs hwf.1 hwf.2.1 hwf.2.2 ch hch n ct
  exact ⟨v, hv, by rw [he, Oas3.Proofs.Status.extractOf_variant], ht⟩

/-- stronger form: the whole executed case (variant, payload extraction, payload type) is the one
`extractOf` builds for that variant. -/
theorem dispatch_spec_case (rs : List (List Char × List MediaDecl)) (hwf : WF rs)
    (ch : Chain) (hch : chainOf rs = some ch) (n : Nat) (ct : List Char) :
    ∃ v ∈ variantsOf rs, evalChain ch n ct = extractOf (primaryCat v.medias) v ∧
      v.tok = (if (rs.map (·.1)).contains (specKey (rs.map (·.1)) n)
               then fromStr (specKey (rs.map (·.1)) n) else defaultTok) :=
  Oas3.Proofs.Status.dispatch_core rs hwf.1 hwf.2.1 hwf.2.2 ch hch n ct

/-- the variant names of the generated enum are pairwise distinct, so `v.name = …` in `dispatch_spec`
identifies the variant uniquely. -/
theorem variant_names_nodup (rs : List (List Char × List MediaDecl)) (hwf : WF rs) :
    ((variantsOf rs).map (·.name)).Nodup :=
  Oas3.Proofs.Status.variant_names_nodup_core rs hwf.1 hwf.2.1 hwf.2.2

/-- a non-empty well-formed responses object always yields a chain (so `dispatch_spec` is not vacuous). -/
theorem chainOf_isSome (rs : List (List Char × List MediaDecl)) (hwf : WF rs) (hne : rs ≠ []) :
    (chainOf rs).isSome = true :=
  Oas3.Proofs.Status.chainOf_isSome_core rs hwf.2.1 hwf.2.2 hne

/-! ## D. recorded defects of the real generator (the faithful model reproduces them) -/

/-- two media types with different payloads on `200` give a content-type dispatch block; a `200` with an
unmatched content type FALLS THROUGH to the `2XX` handler and is answered by the `Success` variant. -/
theorem cex_fallthrough :
    let rs : List (List Char × List MediaDecl) :=
      [("200".toList, [{ ct := "application/json".toList, schema := some "Pet".toList, custom := true },
                       { ct := "text/plain".toList, schema := some "String".toList, stringLike := true }]),
       ("2XX".toList, [{ ct := "application/json".toList, schema := some "i64".toList }])]
    (chainOf rs).map (fun ch => (evalChain ch 200 "application/xml".toList).variant) = some "Success".toList := by
  decide +kernel

/-- a non-canonical numeric key (`"99"`) becomes `Status99` whose condition is `status == 500`
(`from_u16(99)` fails ⇒ INTERNAL_SERVER_ERROR): a 500 is answered by the `Status99` variant. -/
theorem cex_noncanonical :
    let rs : List (List Char × List MediaDecl) := [("200".toList, []), ("99".toList, [])]
    (chainOf rs).map (fun ch => (evalChain ch 500 "application/json".toList).variant) = some "Status99".toList := by
  decide +kernel

/-- server side: every range token is answered with the first code of its range (the `3XX` arm was missing —
F05-3 / F06-4 — until the `fix:` commit; tables regenerated from `codegen/http.rs`). -/
theorem range_first_code :
    httpStatus (.named "Informational1XX".toList) = 100 ∧ httpStatus (.named "Success2XX".toList) = 200 ∧
    httpStatus (.named "Redirection3XX".toList) = 300 ∧ httpStatus (.named "ClientError4XX".toList) = 400 ∧
    httpStatus (.named "ServerError5XX".toList) = 500 := by
  decide +kernel

/-! ## E. non-vacuity -/

/-- a concrete 4-key responses object -/
def rs4 : List (List Char × List MediaDecl) :=
  [("404".toList, []),
   ("200".toList, [{ ct := "application/json".toList, schema := some "Pet".toList, custom := true }]),
   ("default".toList, []),
   ("4XX".toList, [{ ct := "application/json".toList, schema := some "Error".toList, custom := true }])]

theorem rs4_wf : WF rs4 := by
  refine ⟨?_, ?_, ?_⟩ <;> decide +kernel

example : ∃ ch, chainOf rs4 = some ch ∧ ∀ n ct, ∃ v ∈ variantsOf rs4, v.name = (evalChain ch n ct).variant ∧
    v.tok = (if (rs4.map (·.1)).contains (specKey (rs4.map (·.1)) n)
             then fromStr (specKey (rs4.map (·.1)) n) else defaultTok) := by
  obtain ⟨ch, hch⟩ := Option.isSome_iff_exists.mp (chainOf_isSome rs4 rs4_wf (by decide))
  exact ⟨ch, hch, fun n ct => dispatch_spec rs4 rs4_wf ch hch n ct⟩

/-- what the chain of `rs4` answers, concretely -/
example : (chainOf rs4).map (fun ch => [200, 404, 418, 500, 302].map fun n => (evalChain ch n []).variant) =
    some ["Ok".toList, "NotFound".toList, "ClientError".toList, "Unknown".toList, "Unknown".toList] := by
  decide +kernel

end Oas3.Props.C04
