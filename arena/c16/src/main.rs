fn main() {}
