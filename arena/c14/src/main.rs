//! Arena for property C14 (tie A).  `bin/check C14 --tier thorough` copies this crate to
//! `.cache/arena-c14/`, writes one module `g<i>.rs` per generated spec (the emitted `types.rs`
//! with its `//!`/`#![…]` header stripped), fills the two markers below with `mod g<i>;` lines and one
//! `probe::<g<i>::T>(…)` call per (type, document), builds it offline against /repo's lock file and runs it.
#![allow(warnings)]
use serde::{Serialize, de::DeserializeOwned};
use std::fmt::Debug;

/// decode `doc` as `T`, report the Debug form (variant chain) and the re-encoded JSON
pub fn probe<T: DeserializeOwned + Serialize + Debug>(id: &str, doc: &str) {
  let r = std::panic::catch_unwind(|| match serde_json::from_str::<T>(doc) {
    Ok(v) => {
      let dbg = format!("{v:?}");
      match serde_json::to_value(&v) {
        Ok(out) => serde_json::json!({"id": id, "ok": true, "dbg": dbg, "out": out}),
        Err(e) => serde_json::json!({"id": id, "ok": true, "dbg": dbg, "enc_err": e.to_string()}),
      }
    }
    Err(e) => serde_json::json!({"id": id, "ok": false, "err": e.to_string()}),
  });
  match r {
    Ok(v) => println!("{v}"),
    Err(_) => println!("{}", serde_json::json!({"id": id, "panic": true})),
  }
}

// @@MODS@@   (bin/checks/c14.py: `mod g0; mod g1; …`)

fn main() {
  std::panic::set_hook(Box::new(|_| {}));
  // @@PROBES@@   (bin/checks/c14.py: `probe::<g0::Pet>("0:0", r#"…"#);` …)
}
