//! Response kernel: StatusCodeToken tables, http constants, and the emitted parse_response chain /
//! IntoResponse table of ONE operation of a generated spec.
use std::str::FromStr;

use serde_json::{Value, json};

use crate::{OpResult, facts, generator::ast::StatusCodeToken, k_gen};

macro_rules! consts {
  ($($n:ident),* $(,)?) => { vec![$((stringify!($n), http::StatusCode::$n.as_u16())),*] };
}

fn find_item<'a>(facts: &'a Value, kind: &str, name: &str) -> Option<&'a Value> {
  facts["items"].as_array()?.iter().find(|i| i["kind"] == kind && i["name"] == name)
}

pub fn eval(op: &str, input: &mut Value) -> OpResult {
  match op {
    "resp.tok" => {
      let s = input["s"].as_str().ok_or("no s")?;
      let t = StatusCodeToken::from_str(s).map_err(|_| "infallible")?;
      Ok(json!({
        "code": t.code(), "variant": t.to_variant_token().to_string(), "as_str": t.as_str(),
        "is_success": t.is_success(), "is_default": t.is_default(),
      }))
    }
    "resp.http_consts" => {
      let v = consts!(
        CONTINUE, SWITCHING_PROTOCOLS, PROCESSING, EARLY_HINTS, OK, CREATED, ACCEPTED, NON_AUTHORITATIVE_INFORMATION, NO_CONTENT,
        RESET_CONTENT, PARTIAL_CONTENT, MULTI_STATUS, ALREADY_REPORTED, IM_USED, MULTIPLE_CHOICES, MOVED_PERMANENTLY, FOUND,
        SEE_OTHER, NOT_MODIFIED, USE_PROXY, TEMPORARY_REDIRECT, PERMANENT_REDIRECT, BAD_REQUEST, UNAUTHORIZED, PAYMENT_REQUIRED,
        FORBIDDEN, NOT_FOUND, METHOD_NOT_ALLOWED, NOT_ACCEPTABLE, PROXY_AUTHENTICATION_REQUIRED, REQUEST_TIMEOUT, CONFLICT, GONE,
        LENGTH_REQUIRED, PRECONDITION_FAILED, PAYLOAD_TOO_LARGE, URI_TOO_LONG, UNSUPPORTED_MEDIA_TYPE, RANGE_NOT_SATISFIABLE,
        EXPECTATION_FAILED, IM_A_TEAPOT, MISDIRECTED_REQUEST, UNPROCESSABLE_ENTITY, LOCKED, FAILED_DEPENDENCY, TOO_EARLY,
        UPGRADE_REQUIRED, PRECONDITION_REQUIRED, TOO_MANY_REQUESTS, REQUEST_HEADER_FIELDS_TOO_LARGE, UNAVAILABLE_FOR_LEGAL_REASONS,
        INTERNAL_SERVER_ERROR, NOT_IMPLEMENTED, BAD_GATEWAY, SERVICE_UNAVAILABLE, GATEWAY_TIMEOUT, HTTP_VERSION_NOT_SUPPORTED,
        VARIANT_ALSO_NEGOTIATES, INSUFFICIENT_STORAGE, LOOP_DETECTED, NOT_EXTENDED, NETWORK_AUTHENTICATION_REQUIRED
      );
      Ok(Value::Object(v.into_iter().map(|(k, n)| (k.to_string(), json!(n))).collect()))
    }
    "resp.chain" | "resp.server" => {
      let (files, _stats) = match k_gen::generate(input) {
        Ok(x) => x,
        Err(e) => return Ok(json!({"err": e})),
      };
      let types = files.get("types").ok_or("no types file")?;
      let f = facts::file_facts(types);
      if let Some(e) = f.get("parse_error") {
        return Ok(json!({"err": format!("emitted types file does not parse: {e}")}));
      }
      let opreq = input["opreq"].as_str().unwrap_or("OpRequest");
      let openum = input["openum"].as_str().unwrap_or("OpResponse");
      let variants = find_item(&f, "enum", openum).map(|e| e["variants"].clone()).unwrap_or(Value::Null);
      if op == "resp.chain" {
        Ok(json!({"chain": f["chains"].get(opreq).cloned().unwrap_or(Value::Null), "variants": variants}))
      } else {
        Ok(json!({"table": f["into_response"].get(openum).cloned().unwrap_or(Value::Null), "variants": variants}))
      }
    }
    _ => Err(format!("unknown-op:{op}")),
  }
}

/// client/server facts of the single operation of a generated spec
pub fn eval_op(op: &str, input: &mut Value) -> OpResult {
  let (files, stats) = match k_gen::generate(input) {
    Ok(x) => x,
    Err(e) => return Ok(json!({"err": e})),
  };
  let types = files.get("types").ok_or("no types file")?;
  let tf = facts::file_facts(types);
  if let Some(e) = tf.get("parse_error") {
    return Ok(json!({"err": format!("emitted types file does not parse: {e}")}));
  }
  let structs: serde_json::Map<String, Value> = tf["items"]
    .as_array()
    .map(|a| {
      a.iter()
        .filter(|i| i["kind"] == "struct" || i["kind"] == "const" || i["kind"] == "enum")
        .map(|i| (format!("{}:{}", i["kind"].as_str().unwrap_or(""), i["name"].as_str().unwrap_or("")), i.clone()))
        .collect()
    })
    .unwrap_or_default();
  match op {
    "client.method" => {
      let client = files.get("client").ok_or("no client file")?;
      let cf = facts::file_facts(client);
      // wire layout of query members and header insertions (shared reader of the C06 request side)
      let wire = crate::k_req::client_wire(types, &cf["client_methods"]);
      Ok(json!({"methods": cf["client_methods"], "items": structs, "wire": wire, "warnings": stats["warnings"], "header_impls": tf["items"].as_array().map(|a| a.iter().filter(|i| i["kind"] == "impl" && i["trait"].as_str().is_some_and(|t| t.contains("TryFrom"))).cloned().collect::<Vec<_>>())}))
    }
    "server.op" => {
      let server = files.get("server").ok_or("no server file")?;
      let sf = facts::file_facts(server);
      let fns: Vec<Value> = sf["items"].as_array().map(|a| a.iter().filter(|i| i["kind"] == "fn" || i["kind"] == "trait").cloned().collect()).unwrap_or_default();
      Ok(json!({"routes": sf["routes"], "fns": fns, "items": structs, "into_response": tf["into_response"], "warnings": stats["warnings"]}))
    }
    _ => Err(format!("unknown-op:{op}")),
  }
}

/// C06: the same spec through two separate generator runs (client-mod and server-mod)
pub fn eval_interop(_op: &str, input: &mut Value) -> OpResult {
  let mut ci = input.clone();
  ci["mode"] = json!("client-mod");
  let mut si = input.clone();
  si["mode"] = json!("server-mod");
  let (cf, _) = match k_gen::generate(&ci) {
    Ok(x) => x,
    Err(e) => return Ok(json!({"err": format!("client: {e}")})),
  };
  let (sf, _) = match k_gen::generate(&si) {
    Ok(x) => x,
    Err(e) => return Ok(json!({"err": format!("server: {e}")})),
  };
  let ct = facts::file_facts(cf.get("types").ok_or("no client types")?);
  let st = facts::file_facts(sf.get("types").ok_or("no server types")?);
  let cc = facts::file_facts(cf.get("client").ok_or("no client file")?);
  let ss = facts::file_facts(sf.get("server").ok_or("no server file")?);
  let opreq = input["opreq"].as_str().unwrap_or("OpRequest");
  let openum = input["openum"].as_str().unwrap_or("OpResponse");
  let shape = |f: &Value| -> Value {
    // wire-relevant shape of every struct/enum: name, fields (name, type, serde/serde_as attrs), variants
    let mut out = serde_json::Map::new();
    for i in f["items"].as_array().into_iter().flatten() {
      let kind = i["kind"].as_str().unwrap_or("");
      if kind == "struct" {
        let fields: Vec<Value> = i["fields"].as_array().into_iter().flatten().map(|fd| {
          let attrs: Vec<&Value> = fd["attrs"].as_array().into_iter().flatten().filter(|a| a.as_str().is_some_and(|s| s.starts_with("serde"))).collect();
          json!([fd["name"], fd["ty"], attrs])
        }).collect();
        out.insert(format!("struct:{}", i["name"].as_str().unwrap_or("")), Value::Array(fields));
      } else if kind == "enum" {
        let vs: Vec<Value> = i["variants"].as_array().into_iter().flatten().map(|v| {
          let attrs: Vec<&Value> = v["attrs"].as_array().into_iter().flatten().filter(|a| a.as_str().is_some_and(|s| s.starts_with("serde"))).collect();
          json!([v["name"], v["fields"], attrs])
        }).collect();
        out.insert(format!("enum:{}", i["name"].as_str().unwrap_or("")), Value::Array(vs));
      }
    }
    Value::Object(out)
  };
  Ok(json!({
    "chain": ct["chains"].get(opreq).cloned().unwrap_or(Value::Null),
    "variants": find_item(&ct, "enum", openum).map(|e| e["variants"].clone()).unwrap_or(Value::Null),
    "table": st["into_response"].get(openum).cloned().unwrap_or(Value::Null),
    "client_shape": shape(&ct), "server_shape": shape(&st),
    "client_methods": cc["client_methods"], "routes": ss["routes"],
  }))
}

/// C18: one spec under the default settings (client-mod) and under a variant (mode, cfg): item facts of both
pub fn eval_flags(_op: &str, input: &mut Value) -> OpResult {
  let mut bi = input.clone();
  bi["mode"] = json!("client-mod");
  bi["cfg"] = input.get("base_cfg").cloned().unwrap_or_else(|| json!({}));
  let (bf, _) = match k_gen::generate(&bi) {
    Ok(x) => x,
    Err(e) => return Ok(json!({"err": format!("base: {e}")})),
  };
  let (vf, _) = match k_gen::generate(input) {
    Ok(x) => x,
    Err(e) => return Ok(json!({"err": format!("variant: {e}")})),
  };
  let slim = |code: &String| -> Value {
    let f = facts::file_facts(code);
    let items: Vec<Value> = f["items"].as_array().into_iter().flatten().map(|i| {
      let mut o = i.clone();
      if let Some(ms) = o.get_mut("methods").and_then(Value::as_array_mut) {
        for m in ms { if let Some(obj) = m.as_object_mut() { obj.remove("docs"); } }
      }
      if let Some(obj) = o.as_object_mut() { obj.remove("docs"); if obj.get("kind").and_then(Value::as_str) == Some("fn") { obj.remove("body"); } }
      o
    }).collect();
    json!({"items": items, "parse_error": f.get("parse_error").cloned().unwrap_or(Value::Null), "inner_attrs": f["inner_attrs"]})
  };
  let types_key = if vf.contains_key("types") { "types" } else { "client" };
  Ok(json!({
    "base": slim(bf.get("types").ok_or("no base types")?),
    "var": vf.get(types_key).map(slim).unwrap_or(Value::Null),
    "var_other": vf.iter().filter(|(k, _)| **k != types_key && **k != "mod").map(|(k, v)| ((*k).to_string(), slim(v))).collect::<serde_json::Map<_, _>>(),
  }))
}

// ---------------------------------------------------------------------------------------------
// C19: the same spec with inert text and with a payload at ONE text-bearing position

struct Eraser {
  ids: bool,
  lits: Vec<String>,
  fmt_lits: Vec<String>,
}

fn erase_tokens(ts: proc_macro2::TokenStream, er: &mut Eraser, in_fmt_macro: bool) -> String {
  use proc_macro2::TokenTree;
  let mut out = String::new();
  let mut first_lit_in_macro = in_fmt_macro;
  let mut prev_ident: Option<String> = None;
  let mut prev_bang = false;
  let mut saw_comma = false;
  for tt in ts {
    match tt {
      TokenTree::Group(g) => {
        // `write!(f, "…")` / `format!("…")` / `println!("…")`: the format string is the first string literal
        // (after the first comma for write!/writeln!)
        let macro_name = if prev_bang { prev_ident.clone() } else { None };
        let is_fmt = macro_name.as_deref().is_some_and(|m| matches!(m, "write" | "writeln" | "format" | "println" | "print" | "eprintln" | "panic" | "format_args" | "bail" | "anyhow" | "context"));
        let inner = erase_tokens(g.stream(), er, is_fmt);
        // formatting artefacts of prettyplease (line wrapping): trailing commas before a closing
        // delimiter, and `=> { expr }` instead of `=> expr,`
        let inner = inner.trim_end().trim_end_matches(',').trim_end().to_string();
        let after_fat_arrow = out.trim_end().ends_with("=>");
        let has_top_semi = g.stream().into_iter().any(|t| matches!(&t, TokenTree::Punct(p) if p.as_char() == ';'));
        if after_fat_arrow && g.delimiter() == proc_macro2::Delimiter::Brace && !has_top_semi {
          out.push_str(&inner);
          out.push(',');
        } else {
          let (o, c) = match g.delimiter() {
            proc_macro2::Delimiter::Parenthesis => ("(", ")"),
            proc_macro2::Delimiter::Brace => ("{", "}"),
            proc_macro2::Delimiter::Bracket => ("[", "]"),
            proc_macro2::Delimiter::None => ("", ""),
          };
          out.push_str(o);
          out.push_str(&inner);
          out.push_str(c);
        }
        prev_ident = None;
        prev_bang = false;
      }
      TokenTree::Ident(i) => {
        let s = i.to_string();
        out.push_str(if er.ids { "I" } else { &s });
        out.push(' ');
        prev_ident = Some(s);
        prev_bang = false;
      }
      TokenTree::Punct(p) => {
        if p.as_char() == '!' {
          prev_bang = true;
        } else {
          prev_bang = false;
          prev_ident = None;
        }
        if p.as_char() == ',' {
          saw_comma = true;
        }
        out.push(p.as_char());
      }
      TokenTree::Literal(l) => {
        let s = l.to_string();
        if s.starts_with('"') || s.starts_with("r\"") || s.starts_with("r#") || s.starts_with("b\"") {
          let val = syn::parse_str::<syn::LitStr>(&s).map(|x| x.value()).unwrap_or_else(|_| s.clone());
          if first_lit_in_macro {
            er.fmt_lits.push(val.clone());
            first_lit_in_macro = false;
          }
          er.lits.push(val);
          out.push_str("\"\"");
        } else {
          out.push_str(&s);
        }
        out.push(' ');
        prev_ident = None;
        prev_bang = false;
      }
    }
  }
  let _ = saw_comma;
  while out.contains(",,") {
    out = out.replace(",,", ",");
  }
  out
}

fn file_skeleton(code: &str, ids: bool) -> Result<(String, Vec<String>, Vec<String>, Vec<String>), String> {
  let file = syn::parse_file(code).map_err(|e| e.to_string())?;
  let mut docs = vec![];
  // doc attributes are carriers: collect their text, drop them from the skeleton
  struct DocStrip<'a>(&'a mut Vec<String>);
  impl syn::visit_mut::VisitMut for DocStrip<'_> {
    fn visit_attributes_mut(&mut self, attrs: &mut Vec<syn::Attribute>) {
      attrs.retain(|a| {
        if a.path().is_ident("doc") {
          if let syn::Meta::NameValue(nv) = &a.meta {
            if let syn::Expr::Lit(syn::ExprLit { lit: syn::Lit::Str(s), .. }) = &nv.value {
              self.0.push(s.value());
            }
          }
          false
        } else {
          true
        }
      });
    }
  }
  let mut f2 = file.clone();
  syn::visit_mut::VisitMut::visit_file_mut(&mut DocStrip(&mut docs), &mut f2);
  let mut er = Eraser { ids, lits: vec![], fmt_lits: vec![] };
  let skel = erase_tokens(quote::ToTokens::to_token_stream(&f2), &mut er, false);
  // file-level `//!` header lines are comments in the emitted text, not tokens
  let header: Vec<String> = code.lines().filter(|l| l.starts_with("//!")).map(|l| l.trim_start_matches("//!").to_string()).collect();
  docs.extend(header);
  Ok((skel, er.lits, docs, er.fmt_lits))
}

pub fn eval_inject(_op: &str, input: &mut Value) -> OpResult {
  let mut a = input.clone();
  a["spec"] = input["spec_inert"].clone();
  let mut b = input.clone();
  b["spec"] = input["spec_payload"].clone();
  let ra = k_gen::generate(&a);
  let rb = k_gen::generate(&b);
  let (fa, fb) = match (ra, rb) {
    (Ok((fa, _)), Ok((fb, _))) => (fa, fb),
    (Err(ea), Err(eb)) => return Ok(json!({"both_failed": [ea, eb]})),
    (Ok(_), Err(e)) => return Ok(json!({"payload_failed": e})),
    (Err(e), Ok(_)) => return Ok(json!({"inert_failed": e})),
  };
  let mut out = serde_json::Map::new();
  let mut files = vec![];
  for (name, ca) in &fa {
    let Some(cb) = fb.get(name) else {
      files.push(json!({"file": name, "missing_in_payload": true}));
      continue;
    };
    let sa = file_skeleton(ca, false);
    let sb = file_skeleton(cb, false);
    match (sa, sb) {
      (Ok((ska, _, _, _)), Ok((skb, lits, docs, fmts))) => {
        let (sha, _, _, _) = file_skeleton(ca, true).unwrap();
        let (shb, _, _, _) = file_skeleton(cb, true).unwrap();
        let first_diff = ska.chars().zip(skb.chars()).position(|(x, y)| x != y).map(|i| {
          let lo = i.saturating_sub(60);
          json!([ska.chars().skip(lo).take(140).collect::<String>(), skb.chars().skip(lo).take(140).collect::<String>()])
        });
        let shape_diff = sha.chars().zip(shb.chars()).position(|(x, y)| x != y).map(|i| {
          let lo = i.saturating_sub(80);
          json!([sha.chars().skip(lo).take(160).collect::<String>(), shb.chars().skip(lo).take(160).collect::<String>()])
        });
        files.push(json!({"file": name, "skel_equal": ska == skb, "shape_equal": sha == shb, "first_diff": first_diff, "shape_diff": shape_diff, "lits": lits, "docs": docs, "fmt_lits": fmts}));
      }
      (_, Err(e)) => files.push(json!({"file": name, "payload_parse_error": e})),
      (Err(e), _) => files.push(json!({"file": name, "inert_parse_error": e})),
    }
  }
  out.insert("files".into(), Value::Array(files));
  Ok(Value::Object(out))
}
