//! The real axum 0.8 `Router` (K tie of `Sem/Router.lean`): a table of (pattern, method -> handler id) is built into a
//! router whose handlers answer with their id; requests (method, path) are sent through `tower_service::Service::call`
//! and the outcome is reported: `{"handler": id}` / `{"status": 404 | 405 | …}`; a table axum refuses is `{"panic": …}`.
use axum::{
  Router,
  body::Body,
  routing::{MethodFilter, MethodRouter, on},
};
use serde_json::{Value, json};
use tower_service::Service;

use crate::OpResult;

fn filter_of(m: &str) -> Option<MethodFilter> {
  Some(match m {
    "GET" => MethodFilter::GET,
    "PUT" => MethodFilter::PUT,
    "POST" => MethodFilter::POST,
    "DELETE" => MethodFilter::DELETE,
    "OPTIONS" => MethodFilter::OPTIONS,
    "HEAD" => MethodFilter::HEAD,
    "PATCH" => MethodFilter::PATCH,
    "TRACE" => MethodFilter::TRACE,
    _ => return None,
  })
}

pub fn eval(op: &str, input: &mut Value) -> OpResult {
  match op {
    "route.dispatch" => {
      let table = input["table"].as_array().cloned().ok_or("no table")?;
      let mut app: Router = Router::new();
      for row in &table {
        let pattern = row["pattern"].as_str().ok_or("no pattern")?.to_string();
        let mut mr: Option<MethodRouter> = None;
        for m in row["methods"].as_array().ok_or("no methods")? {
          let name = m[0].as_str().ok_or("method")?;
          let id = m[1].as_u64().ok_or("id")?;
          let f = filter_of(name).ok_or("unknown method")?;
          let h = move || async move { ([("x-handler", id.to_string())], id.to_string()) };
          mr = Some(match mr {
            None => on(f, h),
            Some(r) => r.on(f, h),
          });
        }
        if let Some(r) = mr {
          app = app.route(&pattern, r);
        }
      }
      let mut out = vec![];
      for rq in input["requests"].as_array().cloned().unwrap_or_default() {
        let method = rq["method"].as_str().unwrap_or("GET");
        let path = rq["path"].as_str().unwrap_or("/");
        let req = http::Request::builder()
          .method(method)
          .uri(path)
          .body(Body::empty())
          .map_err(|e| format!("request: {e}"))?;
        let resp = futures::executor::block_on(app.call(req)).map_err(|e| format!("call: {e}"))?;
        let status = resp.status().as_u16();
        match resp.headers().get("x-handler").and_then(|v| v.to_str().ok()).and_then(|s| s.parse::<u64>().ok()) {
          Some(id) => out.push(json!({"handler": id})),
          None => out.push(json!({"status": status})),
        }
      }
      Ok(json!({"outcomes": out}))
    }
    _ => Err(format!("unknown-op:{op}")),
  }
}
