//! Path kernel: ParsedPath::parse / to_axum_path on the real code, and url::PathSegmentsMut::push +
//! percent_decode on the real `url` / `percent-encoding` crates (the ones in /repo/Cargo.lock).
use serde_json::{Value, json};

use crate::{
  OpResult,
  facts,
  generator::ast::{FieldDef, FieldNameToken, ParameterLocation, ParsedPath, RustPrimitive, TypeRef},
};

/// the segment type lives in a private module: observe it through what it EMITS (`.push(ARG)`),
/// which is also what the client property is about.
fn seg_json<T: quote::ToTokens>(s: &T) -> Value {
  let text = facts::norm(s);
  match text.strip_prefix(".push(").and_then(|r| r.strip_suffix(')')) {
    Some(arg) => facts::push_arg_json(arg),
    None => json!({"other": text}),
  }
}

pub fn eval(op: &str, input: &mut Value) -> OpResult {
  match op {
    "path.parse" => {
      let path = input["path"].as_str().ok_or("no path")?;
      let decl: Vec<FieldDef> = input["decl"]
        .as_array()
        .map(|a| {
          a.iter()
            .filter_map(|p| {
              let o = p.get(0)?.as_str()?;
              let f = p.get(1)?.as_str()?;
              Some(
                FieldDef::builder()
                  .name(FieldNameToken::new(f))
                  .rust_type(TypeRef::new(RustPrimitive::String))
                  .parameter_location(ParameterLocation::Path)
                  .original_name(o.to_string())
                  .build(),
              )
            })
            .collect()
        })
        .unwrap_or_default();
      let mut decl = decl;
      let declared: std::collections::HashSet<String> = decl.iter().filter_map(|f| f.original_name.clone()).collect();
      let mut seen = std::collections::HashSet::new();
      for name in ParsedPath::extract_template_params(path) {
        if !declared.contains(name) && seen.insert(name.to_string()) {
          decl.push(FieldDef::builder().synthesized_path_param(name).build());
        }
      }
      match ParsedPath::parse(path, &decl) {
        Ok(p) => Ok(json!({"ok": {
          "segments": p.segments.iter().map(seg_json).collect::<Vec<_>>(),
          "query": p.query_string,
          "axum": p.to_axum_path(),
        }})),
        Err(e) => {
          let msg = e.to_string();
          let kind = if msg.starts_with("unclosed") { "unclosed" } else if msg.starts_with("empty parameter") { "emptyParam" }
            else if msg.starts_with("unmatched") { "unmatchedClose" } else if msg.starts_with("nested") { "nested" } else { "other" };
          Ok(json!({"err": kind}))
        }
      }
    }
    "path.push" => {
      let base_path = input["base_path"].as_str().ok_or("no base_path")?;
      let mut url = url::Url::parse(&format!("https://example.com{base_path}")).map_err(|e| e.to_string())?;
      let segs: Vec<String> = input["segs"]
        .as_array()
        .ok_or("no segs")?
        .iter()
        .map(|b| {
          let bytes: Vec<u8> = b.as_array().map(|a| a.iter().map(|n| n.as_u64().unwrap_or(0) as u8).collect()).unwrap_or_default();
          String::from_utf8(bytes).map_err(|_| "segment is not UTF-8".to_string())
        })
        .collect::<Result<_, _>>()?;
      {
        let mut ps = url.path_segments_mut().map_err(|()| "cannot be a base")?;
        for s in &segs {
          ps.push(s);
        }
      }
      let path = url.path().to_string();
      let decoded: Vec<Vec<u8>> = path
        .split('/')
        .skip(1)
        .map(|s| percent_encoding::percent_decode_str(s).collect::<Vec<u8>>())
        .collect();
      Ok(json!({"path": path, "segs": decoded}))
    }
    _ => Err(format!("unknown-op:{op}")),
  }
}
