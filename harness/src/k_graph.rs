//! Graph kernel. `graph.analyze`: SchemaRegistry::{new, initialize} on the real code -> dependency
//! map, cyclic set, reachable set.  `graph.emit`: the type graph of the EMITTED files (who contains
//! whom by value / through Box / Vec / map / Option; which names are mentioned but not defined;
//! the Default-construction graph).
use std::collections::{BTreeMap, BTreeSet, HashSet};

use quote::ToTokens;
use serde_json::{Value, json};

use crate::{
  OpResult, facts,
  generator::{metrics::GenerationStats, operation_registry::OperationRegistry, schema_registry::SchemaRegistry},
  k_gen,
  utils::build_union_fingerprints,
};

fn set_of(v: &Value) -> Option<HashSet<String>> {
  v.as_array()
    .map(|a| a.iter().filter_map(|x| x.as_str().map(str::to_string)).collect())
}

/// walk a syn type: (name, via) for every path type that could be a locally defined item.
/// via ∈ value | option | box | vec | map | other-generic
fn walk(ty: &syn::Type, via: &str, out: &mut Vec<(String, String)>) {
  match ty {
    syn::Type::Path(tp) => {
      let segs: Vec<String> = tp.path.segments.iter().map(|s| s.ident.to_string()).collect();
      let last = tp.path.segments.last().unwrap();
      let args: Vec<&syn::Type> = match &last.arguments {
        syn::PathArguments::AngleBracketed(a) => a.args.iter().filter_map(|g| if let syn::GenericArgument::Type(t) = g { Some(t) } else { None }).collect(),
        _ => vec![],
      };
      let name = last.ident.to_string();
      let wrapper = match (segs.len(), name.as_str()) {
        (_, "Option") => Some("option"),
        (_, "Box") => Some("box"),
        (_, "Vec") | (_, "HashSet") | (_, "BTreeSet") | (_, "VecDeque") => Some("vec"),
        (_, "HashMap") | (_, "BTreeMap") | (_, "IndexMap") => Some("map"),
        _ => None,
      };
      if let Some(w) = wrapper {
        // keep the whole wrapper chain: "value" | "option" | "option.box" | "vec.box" | …
        let next = if via == "value" { w.to_string() } else { format!("{via}.{w}") };
        for a in args {
          walk(a, &next, out);
        }
      } else {
        if segs.len() == 1 {
          out.push((name, via.to_string()));
        } else {
          out.push((segs.join("::"), format!("path:{via}")));
        }
        for a in args {
          walk(a, "generic", out);
        }
      }
    }
    syn::Type::Reference(r) => walk(&r.elem, "ref", out),
    syn::Type::Tuple(t) => {
      for e in &t.elems {
        walk(e, via, out);
      }
    }
    syn::Type::Array(a) => walk(&a.elem, via, out),
    syn::Type::Slice(a) => walk(&a.elem, "ref", out),
    _ => {}
  }
}


fn type_edges(ty: &str) -> Vec<(String, String)> {
  let mut out = vec![];
  if let Ok(t) = syn::parse_str::<syn::Type>(ty) {
    walk(&t, "value", &mut out);
  }
  out
}

pub fn emit_graph(files: &std::collections::HashMap<&'static str, String>) -> Value {
  let mut defs = vec![];
  let mut defined: BTreeMap<String, usize> = BTreeMap::new();
  let mut mentions: BTreeSet<String> = BTreeSet::new();
  let mut parse_errors = vec![];
  // scope "methods of the client impl": name, request type and return type of every client method
  let mut client_methods: Vec<Value> = vec![];
  for (fname, code) in files {
    let f = facts::file_facts(code);
    if let Some(e) = f.get("parse_error") {
      parse_errors.push(format!("{fname}: {e}"));
      continue;
    }
    for m in f["client_methods"].as_array().into_iter().flatten() {
      client_methods.push(json!({"file": fname, "name": m["name"], "request_ty": m["request_ty"], "output": m["output"], "http": m["http"]}));
    }
    for m in f["mentions"].as_array().into_iter().flatten() {
      if let Some(s) = m.as_str() {
        mentions.insert(format!("{fname}|{s}"));
      }
    }
    for it in f["items"].as_array().into_iter().flatten() {
      let kind = it["kind"].as_str().unwrap_or("");
      let name = it["name"].as_str().unwrap_or("").to_string();
      match kind {
        "struct" => {
          *defined.entry(name.clone()).or_default() += 1;
          let has_default_derive = it["derives"].as_array().is_some_and(|d| d.iter().any(|x| x.as_str().is_some_and(|s| s.ends_with("Default"))));
          let fields: Vec<Value> = it["fields"]
            .as_array()
            .into_iter()
            .flatten()
            .map(|fd| {
              let ty = fd["ty"].as_str().unwrap_or("");
              let has_default_attr = fd["attrs"].as_array().is_some_and(|a| a.iter().any(|x| x.as_str().is_some_and(|s| s.starts_with("default("))));
              // wire name (serde rename, else the identifier) and whether serde may omit it: `Option<_>` or a serde default
              let fattrs: Vec<String> = fd["attrs"].as_array().into_iter().flatten().filter_map(|x| x.as_str().map(|s| s.replace(' ', ""))).collect();
              let fname = fd["name"].as_str().unwrap_or("").trim_start_matches("r#").to_string();
              let wire = fattrs.iter().find_map(|a| a.strip_prefix("serde(rename=\"").and_then(|r| r.strip_suffix("\")")).map(str::to_string)).unwrap_or(fname);
              let optional = ty.replace(' ', "").starts_with("Option<") || fattrs.iter().any(|a| a.starts_with("serde(default"));
              json!({"name": fd["name"], "ty": ty, "edges": type_edges(ty).into_iter().map(|(n, v)| json!([n, v])).collect::<Vec<_>>(), "default_attr": has_default_attr, "wire": wire, "optional": optional})
            })
            .collect();
          // container attributes that change what the derived Deserialize accepts
          let sattrs: Vec<String> = it["attrs"].as_array().into_iter().flatten().filter_map(|x| x.as_str().map(|s| s.replace(' ', ""))).filter(|a| a.starts_with("serde(")).collect();
          defs.push(json!({"file": fname, "kind": "struct", "name": name, "derives_default": has_default_derive, "fields": fields, "serde": sattrs}));
        }
        "enum" => {
          *defined.entry(name.clone()).or_default() += 1;
          let has_default_derive = it["derives"].as_array().is_some_and(|d| d.iter().any(|x| x.as_str().is_some_and(|s| s.ends_with("Default"))));
          let variants: Vec<Value> = it["variants"]
            .as_array()
            .into_iter()
            .flatten()
            .map(|v| {
              let tys: Vec<String> = v["fields"].as_array().into_iter().flatten().filter_map(|t| t.as_str().map(str::to_string)).collect();
              let edges: Vec<Value> = tys.iter().flat_map(|t| type_edges(t)).map(|(n, via)| json!([n, via])).collect();
              let is_default = v["attrs"].as_array().is_some_and(|a| a.iter().any(|x| x == "default" || x.as_str().is_some_and(|s| s.starts_with("default("))));
              json!({"name": v["name"], "tys": tys, "edges": edges, "default": is_default})
            })
            .collect();
          // `#[serde(untagged)]`: variants are tried in declaration order; without it (and with payloads) the enum
          // has a hand-written, tag-dispatching Deserialize
          let untagged = it["attrs"].as_array().is_some_and(|a| a.iter().any(|x| x.as_str().is_some_and(|s| s.replace(' ', "") == "serde(untagged)")));
          defs.push(json!({"file": fname, "kind": "enum", "name": name, "derives_default": has_default_derive, "untagged": untagged, "variants": variants}));
        }
        "type" => {
          *defined.entry(name.clone()).or_default() += 1;
          let ty = it["ty"].as_str().unwrap_or("");
          defs.push(json!({"file": fname, "kind": "type", "name": name, "ty": ty, "edges": type_edges(ty).into_iter().map(|(n, v)| json!([n, v])).collect::<Vec<_>>()}));
        }
        "trait" | "const" | "static" | "fn" => {
          *defined.entry(name.clone()).or_default() += 1;
        }
        _ => {}
      }
    }
  }
  json!({
    "defs": defs,
    "defined": defined,
    "mentions": mentions.into_iter().collect::<Vec<_>>(),
    "parse_errors": parse_errors,
    "client_methods": client_methods,
  })
}

pub fn eval(op: &str, input: &mut Value) -> OpResult {
  match op {
    "graph.analyze" => {
      let spec_text = match &input["spec"] {
        Value::String(s) => s.clone(),
        other => other.to_string(),
      };
      let spec: oas3::Spec = serde_json::from_str::<oas3::OpenApiV3Spec>(&spec_text).map_err(|e| format!("spec-parse: {e}"))?;
      let only = set_of(&input["only"]);
      let exclude = set_of(&input["exclude"]);
      let registry = OperationRegistry::with_filters(&spec, only.as_ref(), exclude.as_ref());
      let mut stats = GenerationStats::default();
      let mut graph = SchemaRegistry::new(&spec, &mut stats);
      let fps = build_union_fingerprints(graph.schemas());
      let (cycles, reachable) = graph.initialize(&registry, false, &fps);
      let mut cyclic: Vec<String> = graph.keys().into_iter().filter(|k| graph.is_cyclic(k)).cloned().collect();
      cyclic.sort();
      let mut deps = serde_json::Map::new();
      for k in graph.keys() {
        let schema = graph.get(k).unwrap();
        let d: Vec<String> = graph.collect(schema, &fps).into_iter().collect();
        deps.insert(k.clone(), json!(d));
      }
      let _ = cycles;
      Ok(json!({"deps": deps, "cyclic": cyclic, "reachable": reachable.map(|r| r.into_iter().collect::<Vec<_>>())}))
    }
    "registry.build" => {
      let spec_text = match &input["spec"] {
        Value::String(s) => s.clone(),
        other => other.to_string(),
      };
      let spec: oas3::Spec = serde_json::from_str::<oas3::OpenApiV3Spec>(&spec_text).map_err(|e| format!("spec-parse: {e}"))?;
      let only = set_of(&input["only"]);
      let exclude = set_of(&input["exclude"]);
      let registry = OperationRegistry::with_filters(&spec, only.as_ref(), exclude.as_ref());
      Ok(Value::Array(registry.operations().map(|e| json!([e.stable_id, e.method.as_str(), e.path])).collect()))
    }
    "graph.emit" => {
      let (files, stats) = match k_gen::generate(input) {
        Ok(x) => x,
        Err(e) => return Ok(json!({"err": e})),
      };
      let mut g = emit_graph(&files);
      g["warnings"] = stats["warnings"].clone();
      if input["want"].as_array().is_some_and(|a| a.iter().any(|x| x == "registry")) {
        // the stable id the generator gave every operation (HTTP paths and webhooks), in registration order
        let spec_text = match &input["spec"] {
          Value::String(s) => s.clone(),
          other => other.to_string(),
        };
        let spec: oas3::Spec = serde_json::from_str::<oas3::OpenApiV3Spec>(&spec_text).map_err(|e| format!("spec-parse: {e}"))?;
        let only = set_of(&input["only"]);
        let exclude = set_of(&input["exclude"]);
        let registry = OperationRegistry::with_filters(&spec, only.as_ref(), exclude.as_ref());
        g["registry"] = Value::Array(registry.operations().map(|e| json!([e.stable_id, e.method.as_str(), e.path])).collect());
        g["stats"] = json!({"operations": stats["operations"], "webhooks": stats["webhooks"], "client_methods": stats["client_methods"]});
      }
      if input["want"].as_array().is_some_and(|a| a.iter().any(|x| x == "code")) {
        g["code"] = json!(files.iter().map(|(k, v)| ((*k).to_string(), v.clone())).collect::<BTreeMap<_, _>>());
      }
      Ok(g)
    }
    _ => Err(format!("unknown-op:{op}")),
  }
}
