//! syn-based fact extraction from EMITTED code (tie E): items, fields, variants, attributes, and
//! the specialised shapes the properties talk about (parse_response chains, IntoResponse tables,
//! client call chains, router tables, server handler extractors).
#![allow(dead_code)]
use quote::ToTokens;
use serde_json::{Map, Value, json};
use syn::{Expr, ImplItem, Item, Stmt};

/// token string with insignificant spaces removed (never inside string literals)
pub fn norm<T: ToTokens>(t: &T) -> String {
  norm_str(&t.to_token_stream().to_string())
}

pub fn norm_str(s: &str) -> String {
  let cs: Vec<char> = s.chars().collect();
  let mut out = String::with_capacity(s.len());
  let mut i = 0;
  let is_w = |c: char| c.is_alphanumeric() || c == '_' || c == '"' || c == '\'';
  while i < cs.len() {
    let c = cs[i];
    if c == '"' {
      out.push(c);
      i += 1;
      while i < cs.len() {
        out.push(cs[i]);
        if cs[i] == '\\' && i + 1 < cs.len() {
          out.push(cs[i + 1]);
          i += 2;
          continue;
        }
        if cs[i] == '"' {
          i += 1;
          break;
        }
        i += 1;
      }
      continue;
    }
    if c == ' ' {
      let prev = out.chars().last().unwrap_or(' ');
      let next = cs.get(i + 1).copied().unwrap_or(' ');
      if is_w(prev) && is_w(next) {
        out.push(' ');
      }
      i += 1;
      continue;
    }
    // prettyplease adds a trailing comma when it wraps a list over several lines
    if matches!(c, '>' | ')' | ']' | '}') && out.ends_with(',') {
      out.pop();
    }
    out.push(c);
    i += 1;
  }
  out
}

fn vis_str(v: &syn::Visibility) -> String {
  match v {
    syn::Visibility::Public(_) => "pub".into(),
    syn::Visibility::Restricted(r) => norm(r),
    syn::Visibility::Inherited => "".into(),
  }
}

fn split_attrs(attrs: &[syn::Attribute]) -> (Vec<String>, Vec<String>, Vec<String>) {
  let mut docs = vec![];
  let mut others = vec![];
  let mut derives = vec![];
  for a in attrs {
    if a.path().is_ident("doc") {
      if let syn::Meta::NameValue(nv) = &a.meta {
        if let Expr::Lit(syn::ExprLit { lit: syn::Lit::Str(s), .. }) = &nv.value {
          docs.push(s.value());
          continue;
        }
      }
      docs.push(norm(&a.meta));
    } else if a.path().is_ident("derive") {
      if let Ok(list) = a.meta.require_list() {
        let parsed = list.parse_args_with(syn::punctuated::Punctuated::<syn::Path, syn::Token![,]>::parse_terminated);
        if let Ok(paths) = parsed {
          for p in paths {
            derives.push(norm(&p));
          }
          continue;
        }
      }
      others.push(norm(&a.meta));
    } else {
      others.push(norm(&a.meta));
    }
  }
  (docs, others, derives)
}

fn fields_json(fields: &syn::Fields) -> Vec<Value> {
  fields
    .iter()
    .enumerate()
    .map(|(i, f)| {
      let (docs, attrs, _) = split_attrs(&f.attrs);
      json!({
        "name": f.ident.as_ref().map_or_else(|| i.to_string(), |id| id.to_string()),
        "ty": norm(&f.ty),
        "vis": vis_str(&f.vis),
        "attrs": attrs,
        "docs": docs,
      })
    })
    .collect()
}

fn sig_json(sig: &syn::Signature) -> Value {
  let inputs: Vec<Value> = sig
    .inputs
    .iter()
    .map(|a| match a {
      syn::FnArg::Receiver(r) => json!({"pat": norm(r), "ty": "Self"}),
      syn::FnArg::Typed(t) => json!({"pat": norm(&t.pat), "ty": norm(&t.ty)}),
    })
    .collect();
  json!({
    "name": sig.ident.to_string(),
    "async": sig.asyncness.is_some(),
    "inputs": inputs,
    "output": match &sig.output { syn::ReturnType::Default => String::new(), syn::ReturnType::Type(_, t) => norm(t) },
    "generics": norm(&sig.generics),
  })
}

fn method_json(m: &syn::ImplItemFn) -> Value {
  let (docs, attrs, _) = split_attrs(&m.attrs);
  let mut v = sig_json(&m.sig);
  v["vis"] = json!(vis_str(&m.vis));
  v["attrs"] = json!(attrs);
  v["docs"] = json!(docs);
  v["body"] = json!(norm(&m.block));
  v
}

// ------------------------------------------------------------------------------------------
// type mentions

struct Mentions(Vec<String>);
impl<'ast> syn::visit::Visit<'ast> for Mentions {
  fn visit_type_path(&mut self, tp: &'ast syn::TypePath) {
    self.0.push(
      tp.path
        .segments
        .iter()
        .map(|s| s.ident.to_string())
        .collect::<Vec<_>>()
        .join("::"),
    );
    syn::visit::visit_type_path(self, tp);
  }
  fn visit_expr_path(&mut self, ep: &'ast syn::ExprPath) {
    // paths in expression position with >= 2 segments name a type or module (`Enum::Variant`, `T::default`)
    if ep.path.segments.len() >= 2 {
      let segs: Vec<String> = ep.path.segments.iter().map(|s| s.ident.to_string()).collect();
      self.0.push(format!("expr:{}", segs.join("::")));
    } else if let Some(id) = ep.path.get_ident() {
      // a bare SCREAMING_SNAKE identifier in expression position names a constant / static
      let t = id.to_string();
      if t.len() > 1 && t.chars().next().is_some_and(|c| c.is_ascii_uppercase()) && t.chars().all(|c| c.is_ascii_uppercase() || c.is_ascii_digit() || c == '_') {
        self.0.push(format!("const:{t}"));
      }
    }
    syn::visit::visit_expr_path(self, ep);
  }
  fn visit_expr_struct(&mut self, es: &'ast syn::ExprStruct) {
    let segs: Vec<String> = es.path.segments.iter().map(|s| s.ident.to_string()).collect();
    self.0.push(format!("ctor:{}", segs.join("::")));
    syn::visit::visit_expr_struct(self, es);
  }
}

// ------------------------------------------------------------------------------------------
// parse_response chains

fn cond_json(e: &Expr) -> Value {
  match e {
    Expr::Lit(l) => match &l.lit {
      syn::Lit::Bool(b) => json!({"k": if b.value { "true" } else { "false" }}),
      _ => json!({"k": "other", "text": norm(e)}),
    },
    Expr::MethodCall(mc) if norm(&mc.receiver) == "status" && mc.args.is_empty() => {
      json!({"k": "range", "p": mc.method.to_string()})
    }
    Expr::Binary(b) if matches!(b.op, syn::BinOp::Eq(_)) && norm(&b.left) == "status" => status_expr_json(&b.right),
    Expr::Paren(p) => cond_json(&p.expr),
    _ => json!({"k": "other", "text": norm(e)}),
  }
}

/// `http::StatusCode::OK` | `http::StatusCode::from_u16(299u16).unwrap_or(..)`
fn status_expr_json(e: &Expr) -> Value {
  let s = norm(e);
  if let Some(name) = s.strip_prefix("http::StatusCode::").or_else(|| s.strip_prefix("axum::http::StatusCode::")) {
    if name.chars().all(|c| c.is_ascii_uppercase() || c == '_' || c.is_ascii_digit()) {
      return json!({"k": "const", "name": name});
    }
    if let Some(rest) = name.strip_prefix("from_u16(") {
      let digits: String = rest.chars().take_while(char::is_ascii_digit).collect();
      if let Ok(n) = digits.parse::<u64>() {
        let tail = &rest[digits.len()..];
        if tail == "u16).unwrap_or(http::StatusCode::INTERNAL_SERVER_ERROR)" || tail == ").unwrap_or(http::StatusCode::INTERNAL_SERVER_ERROR)" {
          return json!({"k": "u16", "n": n});
        }
      }
    }
  }
  json!({"k": "other", "text": s})
}

fn check_json(e: &Expr) -> Value {
  match e {
    Expr::Binary(b) => match b.op {
      syn::BinOp::Or(_) => json!({"or": [check_json(&b.left), check_json(&b.right)]}),
      syn::BinOp::And(_) => json!({"and": [check_json(&b.left), check_json(&b.right)]}),
      _ => json!({"other": norm(e)}),
    },
    Expr::Unary(u) if matches!(u.op, syn::UnOp::Not(_)) => json!({"not": check_json(&u.expr)}),
    Expr::Paren(p) => check_json(&p.expr),
    Expr::MethodCall(mc) if norm(&mc.receiver) == "content_type_str" && mc.args.len() == 1 => {
      if let Expr::Lit(syn::ExprLit { lit: syn::Lit::Str(s), .. }) = &mc.args[0] {
        let m = mc.method.to_string();
        if m == "contains" || m == "starts_with" {
          return json!({m: s.value()});
        }
      }
      json!({"other": norm(e)})
    }
    _ => json!({"other": norm(e)}),
  }
}

fn classify_extract(expr: &str) -> (&'static str, String) {
  let ty = expr
    .find("Diagnostics::<")
    .map(|i| {
      let rest = &expr[i + "Diagnostics::<".len()..];
      let mut depth = 1;
      let mut out = String::new();
      for c in rest.chars() {
        if c == '<' {
          depth += 1;
        }
        if c == '>' {
          depth -= 1;
          if depth == 0 {
            break;
          }
        }
        out.push(c);
      }
      out.trim_end_matches(',').to_string()
    })
    .unwrap_or_default();
  if expr.contains("json_with_diagnostics") {
    ("json", ty)
  } else if expr.contains("xml_with_diagnostics") {
    ("xml", ty)
  } else if expr == "req.text().await?" {
    ("text", "String".into())
  } else if expr.starts_with("req.text().await?.parse::<") {
    ("text-parse", expr.trim_start_matches("req.text().await?.parse::<").trim_end_matches(">()?").to_string())
  } else if expr == "req.bytes().await?.to_vec()" {
    ("bytes", "Vec<u8>".into())
  } else if expr.ends_with("::from_response(req)") {
    ("event-stream", expr.trim_start_matches('<').trim_end_matches(">::from_response(req)").to_string())
  } else {
    ("other", expr.to_string())
  }
}

/// statements `let data = X; return Ok(E::V(data));` | `let _ = req.bytes().await?; return Ok(E::V);` | `Ok(E::V)`
fn case_json(stmts: &[Stmt]) -> Value {
  let mut extract = ("none", String::new());
  let mut variant = Value::Null;
  let mut payload = false;
  let mut enum_name = String::new();
  for s in stmts {
    match s {
      Stmt::Local(l) => {
        let pat = norm(&l.pat);
        if pat == "data" {
          if let Some(init) = &l.init {
            let (k, t) = classify_extract(&norm(&init.expr));
            extract = (k, t);
          }
        }
      }
      Stmt::Expr(e, _) => {
        let inner = match e {
          Expr::Return(r) => r.expr.as_deref(),
          other => Some(other),
        };
        if let Some(Expr::Call(c)) = inner {
          if norm(&c.func) == "Ok" && c.args.len() == 1 {
            match &c.args[0] {
              Expr::Path(p) => {
                let segs: Vec<String> = p.path.segments.iter().map(|s| s.ident.to_string()).collect();
                if segs.len() == 2 {
                  enum_name = segs[0].clone();
                  variant = json!(segs[1]);
                }
              }
              Expr::Call(c2) => {
                if let Expr::Path(p) = &*c2.func {
                  let segs: Vec<String> = p.path.segments.iter().map(|s| s.ident.to_string()).collect();
                  if segs.len() == 2 {
                    enum_name = segs[0].clone();
                    variant = json!(segs[1]);
                    payload = true;
                  }
                }
              }
              _ => {}
            }
          }
        }
      }
      _ => {}
    }
  }
  json!({"variant": variant, "enum": enum_name, "payload": payload, "extract": extract.0, "ty": extract.1})
}

fn chain_json(block: &syn::Block) -> Value {
  let mut handlers = vec![];
  let mut tail: Vec<Stmt> = vec![];
  let mut odd = vec![];
  for s in &block.stmts {
    match s {
      Stmt::Local(l) if norm(&l.pat) == "status" => {}
      Stmt::Expr(Expr::If(ifx), _) if tail.is_empty() && ifx.else_branch.is_none() => {
        let cond = cond_json(&ifx.cond);
        let body = &ifx.then_branch.stmts;
        let is_dispatch = body
          .iter()
          .any(|s| matches!(s, Stmt::Local(l) if norm(&l.pat) == "content_type_str"));
        if is_dispatch {
          let mut cases = vec![];
          for bs in body {
            match bs {
              Stmt::Local(_) => {}
              Stmt::Expr(Expr::If(ci), _) if ci.else_branch.is_none() => {
                let mut c = case_json(&ci.then_branch.stmts);
                c["check"] = check_json(&ci.cond);
                cases.push(c);
              }
              other => odd.push(norm(other)),
            }
          }
          handlers.push(json!({"cond": cond, "dispatch": cases}));
        } else {
          handlers.push(json!({"cond": cond, "single": case_json(body)}));
        }
      }
      other => tail.push(other.clone()),
    }
  }
  json!({"handlers": handlers, "fallback": case_json(&tail), "odd": odd})
}

// ------------------------------------------------------------------------------------------
// IntoResponse tables (server)

fn into_response_json(block: &syn::Block) -> Value {
  let mut arms = vec![];
  for s in &block.stmts {
    if let Stmt::Expr(Expr::Match(m), _) = s {
      for arm in &m.arms {
        let pat = norm(&arm.pat);
        let (variant, payload) = match pat.strip_prefix("Self::") {
          Some(rest) => match rest.split_once('(') {
            Some((v, _)) => (v.to_string(), true),
            None => (rest.to_string(), false),
          },
          None => (pat.clone(), false),
        };
        // body: `(STATUS, axum::Json(data)).into_response()` | `STATUS.into_response()`
        let body = match &*arm.body {
          Expr::Block(b) if b.block.stmts.len() == 1 => match &b.block.stmts[0] {
            Stmt::Expr(e, _) => e.clone(),
            _ => (*arm.body).clone(),
          },
          e => e.clone(),
        };
        let mut status = json!({"k": "other", "text": norm(&body)});
        let mut enc = "other".to_string();
        if let Expr::MethodCall(mc) = &body {
          if mc.method == "into_response" {
            match &*mc.receiver {
              Expr::Tuple(t) if t.elems.len() == 2 => {
                status = status_expr_json(&t.elems[0]);
                let b = norm(&t.elems[1]);
                enc = if b == "axum::Json(data)" { "json".into() } else { b };
              }
              Expr::Paren(p) => {
                status = status_expr_json(&p.expr);
                enc = "none".into();
              }
              other => {
                status = status_expr_json(other);
                enc = "none".into();
              }
            }
          }
        }
        arms.push(json!({"variant": variant, "payload": payload, "status": status, "body": enc}));
      }
    }
  }
  Value::Array(arms)
}

// ------------------------------------------------------------------------------------------
// client methods

struct Calls(Vec<(String, Vec<String>)>);
impl<'ast> syn::visit::Visit<'ast> for Calls {
  fn visit_expr_method_call(&mut self, mc: &'ast syn::ExprMethodCall) {
    syn::visit::visit_expr_method_call(self, mc);
    self.0.push((mc.method.to_string(), mc.args.iter().map(|a| norm(a)).collect()));
  }
}

pub fn push_arg_json(arg: &str) -> Value {
  // "lit" | &request.path.<f>.to_string() | &format!("x-{}",request.path.<f>)
  if arg.starts_with('"') {
    if let Ok(l) = syn::parse_str::<syn::LitStr>(arg) {
      return json!({"lit": l.value()});
    }
  }
  if let Some(rest) = arg.strip_prefix("&request.path.") {
    if let Some(f) = rest.strip_suffix(".to_string()") {
      return json!({"param": f});
    }
  }
  if let Some(rest) = arg.strip_prefix("&format!(") {
    if let Some(inner) = rest.strip_suffix(')') {
      if let Ok(args) = syn::parse_str::<FormatArgs>(inner) {
        return json!({"fmt": args.fmt, "args": args.args});
      }
    }
  }
  json!({"other": arg})
}

struct FormatArgs {
  fmt: String,
  args: Vec<String>,
}
impl syn::parse::Parse for FormatArgs {
  fn parse(input: syn::parse::ParseStream) -> syn::Result<Self> {
    let fmt: syn::LitStr = input.parse()?;
    let mut args = vec![];
    while !input.is_empty() {
      input.parse::<syn::Token![,]>()?;
      if input.is_empty() {
        break;
      }
      let e: Expr = input.parse()?;
      let s = norm(&e);
      args.push(s.strip_prefix("request.path.").map_or(s.clone(), str::to_string));
    }
    Ok(Self { fmt: fmt.value(), args })
  }
}

fn client_method_json(m: &syn::ImplItemFn) -> Option<Value> {
  let has_request = m.sig.inputs.iter().any(|a| matches!(a, syn::FnArg::Typed(t) if norm(&t.pat) == "request"));
  if !has_request {
    return None;
  }
  let mut calls = Calls(vec![]);
  syn::visit::Visit::visit_block(&mut calls, &m.block);
  let body = norm(&m.block);
  let mut pushes = vec![];
  let mut http = Value::Null;
  let mut query = vec![];
  let mut headers = false;
  let mut body_enc = vec![];
  for (name, args) in &calls.0 {
    match name.as_str() {
      "push" if args.len() == 1 => pushes.push(push_arg_json(&args[0])),
      "get" | "post" | "put" | "delete" | "patch" | "head" if args.len() == 1 && args[0] == "url" => http = json!(name),
      "request" if args.len() == 2 && args[1] == "url" => http = json!(args[0]),
      "query" => query.push(args.join(",")),
      "set_query" => query.push(format!("set_query:{}", args.join(","))),
      "headers" => headers = true,
      "json" | "form" | "body" | "multipart" => body_enc.push(json!({"enc": name, "arg": args.join(",")})),
      _ => {}
    }
  }
  let validate_pos = body.find("request.validate()");
  let url_pos = body.find("self.base_url.clone()");
  let (docs, _, _) = split_attrs(&m.attrs);
  Some(json!({
    "name": m.sig.ident.to_string(),
    "vis": vis_str(&m.vis),
    "docs": docs,
    "request_ty": m.sig.inputs.iter().find_map(|a| match a { syn::FnArg::Typed(t) if norm(&t.pat) == "request" => Some(norm(&t.ty)), _ => None }),
    "output": match &m.sig.output { syn::ReturnType::Default => String::new(), syn::ReturnType::Type(_, t) => norm(t) },
    "http": http,
    "pushes": pushes,
    "query": query,
    "headers": headers,
    "body": body_enc,
    "validates_first": matches!((validate_pos, url_pos), (Some(v), Some(u)) if v < u),
    "text": body,
  }))
}

// ------------------------------------------------------------------------------------------
// router + handlers (server)

fn router_json(f: &syn::ItemFn) -> Value {
  let mut calls = Calls(vec![]);
  syn::visit::Visit::visit_block(&mut calls, &f.block);
  let mut routes = vec![];
  for (name, args) in &calls.0 {
    if name == "route" && args.len() == 2 {
      let path = syn::parse_str::<syn::LitStr>(&args[0]).map(|l| l.value()).unwrap_or_else(|_| args[0].clone());
      // get(h::<S>).post(h2::<S>)
      let mut methods = vec![];
      if let Ok(e) = syn::parse_str::<Expr>(&args[1]) {
        collect_method_routers(&e, &mut methods);
      }
      routes.push(json!({"path": path, "methods": methods, "raw": args[1]}));
    }
  }
  Value::Array(routes)
}

fn handler_name(e: &Expr) -> String {
  match e {
    Expr::Path(p) => p.path.segments.first().map(|s| s.ident.to_string()).unwrap_or_default(),
    other => norm(other),
  }
}

fn collect_method_routers(e: &Expr, out: &mut Vec<Value>) {
  match e {
    Expr::MethodCall(mc) => {
      collect_method_routers(&mc.receiver, out);
      if mc.args.len() == 1 {
        out.push(json!({"m": mc.method.to_string(), "handler": handler_name(&mc.args[0])}));
      }
    }
    Expr::Call(c) => {
      if c.args.len() == 1 {
        out.push(json!({"m": norm(&c.func), "handler": handler_name(&c.args[0])}));
      }
    }
    _ => {}
  }
}

// ------------------------------------------------------------------------------------------

pub fn file_facts(code: &str) -> Value {
  let file = match syn::parse_file(code) {
    Ok(f) => f,
    Err(e) => return json!({"parse_error": e.to_string(), "items": []}),
  };
  let mut items = vec![];
  let mut chains = Map::new();
  let mut into_resp = Map::new();
  let mut client_methods = vec![];
  let mut routes = Value::Null;
  let mut mentions = Mentions(vec![]);
  syn::visit::Visit::visit_file(&mut mentions, &file);
  for it in &file.items {
    match it {
      Item::Struct(s) => {
        let (docs, attrs, derives) = split_attrs(&s.attrs);
        items.push(json!({"kind": "struct", "name": s.ident.to_string(), "vis": vis_str(&s.vis), "attrs": attrs, "docs": docs,
          "derives": derives, "fields": fields_json(&s.fields), "generics": norm(&s.generics)}));
      }
      Item::Enum(e) => {
        let (docs, attrs, derives) = split_attrs(&e.attrs);
        let variants: Vec<Value> = e
          .variants
          .iter()
          .map(|v| {
            let (vd, va, _) = split_attrs(&v.attrs);
            json!({"name": v.ident.to_string(), "attrs": va, "docs": vd,
              "fields": v.fields.iter().map(|f| norm(&f.ty)).collect::<Vec<_>>(),
              "named": matches!(v.fields, syn::Fields::Named(_)),
              "field_names": v.fields.iter().filter_map(|f| f.ident.as_ref().map(ToString::to_string)).collect::<Vec<_>>()})
          })
          .collect();
        items.push(json!({"kind": "enum", "name": e.ident.to_string(), "vis": vis_str(&e.vis), "attrs": attrs, "docs": docs,
          "derives": derives, "variants": variants}));
      }
      Item::Type(t) => {
        let (docs, attrs, _) = split_attrs(&t.attrs);
        items.push(json!({"kind": "type", "name": t.ident.to_string(), "vis": vis_str(&t.vis), "ty": norm(&t.ty), "attrs": attrs, "docs": docs}));
      }
      Item::Const(c) => {
        let (docs, attrs, _) = split_attrs(&c.attrs);
        items.push(json!({"kind": "const", "name": c.ident.to_string(), "vis": vis_str(&c.vis), "ty": norm(&c.ty), "expr": norm(&c.expr), "attrs": attrs, "docs": docs}));
      }
      Item::Static(c) => {
        let (docs, attrs, _) = split_attrs(&c.attrs);
        items.push(json!({"kind": "static", "name": c.ident.to_string(), "vis": vis_str(&c.vis), "ty": norm(&c.ty), "expr": norm(&c.expr), "attrs": attrs, "docs": docs}));
      }
      Item::Fn(f) => {
        let (docs, attrs, _) = split_attrs(&f.attrs);
        let mut v = sig_json(&f.sig);
        v["kind"] = json!("fn");
        v["vis"] = json!(vis_str(&f.vis));
        v["attrs"] = json!(attrs);
        v["docs"] = json!(docs);
        v["body"] = json!(norm(&f.block));
        v["where"] = json!(f.sig.generics.where_clause.as_ref().map(|w| norm(w)));
        if f.sig.ident == "router" {
          routes = router_json(f);
        }
        items.push(v);
      }
      Item::Impl(im) => {
        let self_ty = norm(&im.self_ty);
        let tr = im.trait_.as_ref().map(|(_, p, _)| norm(p));
        let mut methods = vec![];
        let mut assoc = vec![];
        for ii in &im.items {
          match ii {
            ImplItem::Fn(m) => {
              methods.push(method_json(m));
              if m.sig.ident == "parse_response" {
                chains.insert(self_ty.clone(), chain_json(&m.block));
              }
              if m.sig.ident == "into_response" && tr.as_deref().is_some_and(|t| t.ends_with("IntoResponse")) {
                into_resp.insert(self_ty.clone(), into_response_json(&m.block));
              }
              if tr.is_none() {
                if let Some(cm) = client_method_json(m) {
                  client_methods.push(cm);
                }
              }
            }
            other => assoc.push(norm(other)),
          }
        }
        let (_, attrs, _) = split_attrs(&im.attrs);
        items.push(json!({"kind": "impl", "name": self_ty, "trait": tr, "methods": methods, "assoc": assoc, "attrs": attrs, "generics": norm(&im.generics)}));
      }
      Item::Trait(t) => {
        let (docs, attrs, _) = split_attrs(&t.attrs);
        let methods: Vec<Value> = t
          .items
          .iter()
          .filter_map(|ti| match ti {
            syn::TraitItem::Fn(f) => {
              let (d, _, _) = split_attrs(&f.attrs);
              let mut v = sig_json(&f.sig);
              v["docs"] = json!(d);
              Some(v)
            }
            _ => None,
          })
          .collect();
        items.push(json!({"kind": "trait", "name": t.ident.to_string(), "vis": vis_str(&t.vis), "methods": methods, "attrs": attrs, "docs": docs, "supertraits": norm(&t.supertraits)}));
      }
      Item::Use(u) => items.push(json!({"kind": "use", "name": norm(&u.tree), "vis": vis_str(&u.vis)})),
      Item::Mod(m) => items.push(json!({"kind": "mod", "name": m.ident.to_string(), "vis": vis_str(&m.vis)})),
      other => items.push(json!({"kind": "other", "name": "", "text": norm(other)})),
    }
  }
  let inner_attrs: Vec<String> = file.attrs.iter().filter(|a| !a.path().is_ident("doc")).map(|a| norm(&a.meta)).collect();
  json!({
    "items": items, "chains": chains, "into_response": into_resp, "client_methods": client_methods, "routes": routes,
    "mentions": mentions.0, "inner_attrs": inner_attrs,
  })
}
