//! Defaults kernel (C17): the real `json_to_rust_literal`, the real `extract_default_value`, and the
//! attributes the real generator emits for ONE member of ONE struct of a generated spec
//! (`#[default(..)]`, `#[builder(..)]`, struct-level `#[serde(default)]`, derives, field type),
//! with every emitted expression parsed back (syn) into a small structured form.
use quote::ToTokens;
use serde_json::{Value, json};
use syn::{Expr, Item, Lit, Meta};

use crate::{
  OpResult, facts,
  generator::{
    ast::{RustPrimitive, TypeRef},
    codegen::coercion::json_to_rust_literal,
    converter::fields::FieldConverter,
  },
  k_gen,
};

fn path_is(e: &Expr, segs: &[&str]) -> bool {
  if let Expr::Path(p) = e {
    p.qself.is_none()
      && p.path.segments.len() == segs.len()
      && p.path.segments.iter().zip(segs).all(|(a, b)| a.ident == b && a.arguments.is_none())
  } else {
    false
  }
}

fn num_lit(l: &Lit, neg: bool) -> Option<Value> {
  let (digits, suffix) = match l {
    Lit::Int(i) => (i.base10_digits().to_string(), i.suffix().to_string()),
    Lit::Float(f) => (f.base10_digits().to_string(), f.suffix().to_string()),
    _ => return None,
  };
  let v = if neg { format!("-{digits}") } else { digits };
  if suffix == "f32" || suffix == "f64" {
    Some(json!({"k": "flit", "v": v, "p": suffix}))
  } else if suffix.is_empty() {
    None
  } else {
    Some(json!({"k": "ilit", "v": v, "p": suffix}))
  }
}

/// structured form of an emitted default expression
pub fn expr_json(e: &Expr) -> Value {
  let other = || json!({"k": "other", "s": facts::norm(e)});
  match e {
    Expr::Paren(p) => expr_json(&p.expr),
    Expr::Group(g) => expr_json(&g.expr),
    Expr::Path(_) if path_is(e, &["None"]) => json!({"k": "none"}),
    Expr::Call(c) => {
      if path_is(&c.func, &["Some"]) && c.args.len() == 1 {
        json!({"k": "some", "x": expr_json(&c.args[0])})
      } else if path_is(&c.func, &["Default", "default"]) && c.args.is_empty() {
        json!({"k": "default"})
      } else if path_is(&c.func, &["String", "new"]) && c.args.is_empty() {
        json!({"k": "string_new"})
      } else {
        other()
      }
    }
    Expr::MethodCall(m) if m.method == "to_string" && m.args.is_empty() && m.turbofish.is_none() => match &*m.receiver {
      Expr::Lit(l) => match &l.lit {
        Lit::Str(s) => json!({"k": "to_string", "s": s.value()}),
        _ => other(),
      },
      _ => other(),
    },
    Expr::Lit(l) => match &l.lit {
      Lit::Str(s) => json!({"k": "static", "s": s.value()}),
      Lit::Bool(b) => json!({"k": "bool", "b": b.value}),
      x => num_lit(x, false).unwrap_or_else(other),
    },
    Expr::Unary(u) if matches!(u.op, syn::UnOp::Neg(_)) => match &*u.expr {
      Expr::Lit(l) => num_lit(&l.lit, true).unwrap_or_else(other),
      _ => other(),
    },
    _ => other(),
  }
}

fn tokens_expr_json(ts: proc_macro2::TokenStream) -> Value {
  match syn::parse2::<Expr>(ts.clone()) {
    Ok(e) => expr_json(&e),
    Err(_) => json!({"k": "other", "s": facts::norm_str(&ts.to_string())}),
  }
}

fn serde_idents(attrs: &[syn::Attribute]) -> Vec<String> {
  let mut out = vec![];
  for a in attrs {
    if a.path().is_ident("serde") {
      if let Ok(list) = a.meta.require_list() {
        if let Ok(metas) = list.parse_args_with(syn::punctuated::Punctuated::<Meta, syn::Token![,]>::parse_terminated) {
          for m in metas {
            out.push(facts::norm(m.path()));
          }
        }
      }
    }
  }
  out.sort();
  out
}

fn derives(attrs: &[syn::Attribute]) -> Vec<String> {
  let mut out = vec![];
  for a in attrs {
    if a.path().is_ident("derive") {
      if let Ok(list) = a.meta.require_list() {
        if let Ok(paths) = list.parse_args_with(syn::punctuated::Punctuated::<syn::Path, syn::Token![,]>::parse_terminated) {
          out.extend(paths.iter().map(|p| facts::norm(p)));
        }
      }
    }
  }
  out
}

fn variant_wire(v: &syn::Variant) -> String {
  for a in &v.attrs {
    if a.path().is_ident("serde") {
      if let Ok(list) = a.meta.require_list() {
        if let Ok(metas) = list.parse_args_with(syn::punctuated::Punctuated::<Meta, syn::Token![,]>::parse_terminated) {
          for m in metas {
            if let Meta::NameValue(nv) = &m {
              if nv.path.is_ident("rename") {
                if let Expr::Lit(l) = &nv.value {
                  if let Lit::Str(s) = &l.lit {
                    return s.value();
                  }
                }
              }
            }
          }
        }
      }
    }
  }
  v.ident.to_string()
}

/// the innermost type name of `Option<Vec<X>>`-style wrappers
fn base_of(ty: &str) -> &str {
  let mut t = ty;
  loop {
    let stripped = ["Option<", "Vec<", "Box<"].iter().find_map(|p| t.strip_prefix(p).and_then(|r| r.strip_suffix('>')));
    match stripped {
      Some(r) => t = r,
      None => return t,
    }
  }
}

/// facts about the generated type a custom base name refers to: what its `Default` is, as far as
/// the emitted attributes say
fn custom_facts(file: &syn::File, name: &str) -> Value {
  for it in &file.items {
    match it {
      Item::Enum(e) if e.ident == name => {
        let dv = e.variants.iter().find(|v| v.attrs.iter().any(|a| a.path().is_ident("default")));
        let unit = e.variants.iter().all(|v| matches!(v.fields, syn::Fields::Unit));
        return json!({
          "kind": "enum",
          "unit": unit,
          "default_wire": dv.map(variant_wire),
          "wires": e.variants.iter().map(variant_wire).collect::<Vec<_>>(),
          "derive_default": derives(&e.attrs).iter().any(|d| d.ends_with("Default")),
          "serde": serde_idents(&e.attrs),
        });
      }
      Item::Struct(s) if s.ident == name => {
        let with_default: Vec<String> = s
          .fields
          .iter()
          .filter(|f| f.attrs.iter().any(|a| a.path().is_ident("default")))
          .filter_map(|f| f.ident.as_ref().map(ToString::to_string))
          .collect();
        let non_option: Vec<String> = s
          .fields
          .iter()
          .filter(|f| !facts::norm(&f.ty).starts_with("Option<"))
          .filter_map(|f| f.ident.as_ref().map(ToString::to_string))
          .collect();
        return json!({
          "kind": "struct",
          "fields_with_default": with_default,
          "non_option_fields": non_option,
          "derive_default": derives(&s.attrs).iter().any(|d| d.ends_with("Default")),
        });
      }
      _ => {}
    }
  }
  Value::Null
}

fn member_facts(code: &str, struct_name: &str, member: &str) -> Result<Value, String> {
  let file = syn::parse_file(code).map_err(|e| format!("emitted types file does not parse: {e}"))?;
  member_facts_in(&file, struct_name, member)
}

fn find_struct<'a>(file: &'a syn::File, name: &str) -> Option<&'a syn::ItemStruct> {
  file.items.iter().find_map(|it| match it {
    Item::Struct(s) if s.ident == name => Some(s),
    _ => None,
  })
}

/// the struct a site path ends at: `at[0]` names a struct, every further segment is a field of the
/// current struct whose (innermost) type names the next one
fn follow_site<'a>(file: &'a syn::File, at: &[String]) -> Result<&'a syn::ItemStruct, String> {
  let first = at.first().ok_or("empty site path")?;
  let mut cur = find_struct(file, first).ok_or_else(|| format!("struct {first} not emitted"))?;
  for seg in &at[1..] {
    let f = cur
      .fields
      .iter()
      .find(|f| f.ident.as_ref().is_some_and(|i| i == seg))
      .ok_or_else(|| format!("field {seg} not emitted in {}", cur.ident))?;
    let ty = facts::norm(&f.ty);
    let next = base_of(&ty).to_string();
    cur = find_struct(file, &next).ok_or_else(|| format!("type {next} of {}.{seg} is not an emitted struct", cur.ident))?;
  }
  Ok(cur)
}

fn member_facts_in(file: &syn::File, struct_name: &str, member: &str) -> Result<Value, String> {
  let st = file
    .items
    .iter()
    .find_map(|it| match it {
      Item::Struct(s) if s.ident == struct_name => Some(s),
      _ => None,
    })
    .ok_or_else(|| format!("struct {struct_name} not emitted"))?;
  let field = st
    .fields
    .iter()
    .find(|f| f.ident.as_ref().is_some_and(|i| i == member))
    .ok_or_else(|| format!("field {member} not emitted"))?;
  let mut default_attr = Value::Null;
  let mut ndefault = 0;
  let mut builder = Value::Null;
  let mut builder_other = vec![];
  for a in &field.attrs {
    if a.path().is_ident("default") {
      ndefault += 1;
      default_attr = match a.meta.require_list() {
        Ok(l) => tokens_expr_json(l.tokens.clone()),
        Err(_) => json!({"k": "other", "s": facts::norm(&a.meta)}),
      };
    } else if a.path().is_ident("builder") {
      if let Ok(list) = a.meta.require_list() {
        if let Ok(metas) = list.parse_args_with(syn::punctuated::Punctuated::<Meta, syn::Token![,]>::parse_terminated) {
          for m in metas {
            match &m {
              Meta::NameValue(nv) if nv.path.is_ident("default") => builder = json!({"default": expr_json(&nv.value)}),
              Meta::NameValue(nv) if nv.path.is_ident("skip") => builder = json!({"skip": expr_json(&nv.value)}),
              other => builder_other.push(facts::norm(other)),
            }
          }
        } else {
          builder_other.push(facts::norm(&a.meta));
        }
      }
    }
  }
  let ty = facts::norm(&field.ty);
  let ds = derives(&st.attrs);
  let outer: Vec<String> = st
    .attrs
    .iter()
    .filter(|a| !a.path().is_ident("derive") && !a.path().is_ident("serde") && !a.path().is_ident("doc"))
    .map(|a| facts::norm(&a.meta))
    .collect();
  let custom = custom_facts(file, base_of(&ty));
  Ok(json!({
    "ty": ty,
    "default": default_attr,
    "default_attrs": ndefault,
    "builder": builder,
    "builder_other": builder_other,
    "field_serde": serde_idents(&field.attrs),
    "struct_serde": serde_idents(&st.attrs),
    "derive_default": ds.iter().any(|d| d == "oas3_gen_support::Default" || d == "Default"),
    "derive_builder": ds.iter().any(|d| d == "bon::Builder"),
    "derive_serialize": ds.iter().any(|d| d.ends_with("Serialize")),
    "derive_deserialize": ds.iter().any(|d| d.ends_with("Deserialize")),
    "outer": outer,
    "custom": custom,
  }))
}

pub fn eval(op: &str, input: &mut Value) -> OpResult {
  match op {
    "dflt.literal" => {
      let base = input["base"].as_str().ok_or("no base")?;
      let mut t = TypeRef::new(if base == "&'static str" { RustPrimitive::StaticStr } else { RustPrimitive::from(base) });
      if input["nullable"].as_bool().unwrap_or(false) {
        t = t.with_option();
      }
      if input["array"].as_bool().unwrap_or(false) {
        t = t.with_vec();
      }
      let ts = json_to_rust_literal(&input["value"], &t);
      Ok(json!({"expr": tokens_expr_json(ts), "ty": t.to_rust_type()}))
    }
    "dflt.extract" => {
      let schema: oas3::spec::ObjectSchema = match serde_json::from_value(input["schema"].clone()) {
        Ok(s) => s,
        Err(e) => return Ok(json!({"err": format!("schema-parse: {e}")})),
      };
      Ok(match FieldConverter::extract_default_value(&schema) {
        Some(v) => json!({"some": v}),
        None => json!({"none": true}),
      })
    }
    "dflt.member" => {
      let (files, _stats) = match k_gen::generate(input) {
        Ok(x) => x,
        Err(e) => return Ok(json!({"err": e})),
      };
      let types = files.get("types").ok_or("no types file")?;
      let sname = input["struct"].as_str().unwrap_or("T");
      let mname = input["member"].as_str().unwrap_or("m");
      let mut out = match member_facts(types, sname, mname) {
        Ok(v) => v,
        Err(e) => return Ok(json!({"err": e})),
      };
      if input["want"].as_array().is_some_and(|a| a.iter().any(|x| x == "code")) {
        out["code"] = Value::String(types.clone());
      }
      Ok(out)
    }
    // several sites of one generated document (C17: usage / target / site dimensions): for every site path
    // the struct it resolves to in THIS run, with the facts of the requested members
    "dflt.doc" => {
      let (files, _stats) = match k_gen::generate(input) {
        Ok(x) => x,
        Err(e) => return Ok(json!({"err": e})),
      };
      let types = files.get("types").ok_or("no types file")?;
      let file = match syn::parse_file(types) {
        Ok(f) => f,
        Err(e) => return Ok(json!({"err": format!("emitted types file does not parse: {e}")})),
      };
      let mut sites = vec![];
      for s in input["sites"].as_array().into_iter().flatten() {
        let at: Vec<String> = s["at"].as_array().into_iter().flatten().filter_map(|x| x.as_str().map(str::to_string)).collect();
        match follow_site(&file, &at) {
          Err(e) => sites.push(json!({"err": e})),
          Ok(st) => {
            let sname = st.ident.to_string();
            let mut members = serde_json::Map::new();
            for m in s["members"].as_array().into_iter().flatten() {
              let Some(m) = m.as_str() else { continue };
              members.insert(m.to_string(), match member_facts_in(&file, &sname, m) {
                Ok(v) => v,
                Err(e) => json!({"err": e}),
              });
            }
            let ds = derives(&st.attrs);
            sites.push(json!({
              "struct": sname,
              "struct_serde": serde_idents(&st.attrs),
              "derive_serialize": ds.iter().any(|d| d.ends_with("Serialize")),
              "derive_deserialize": ds.iter().any(|d| d.ends_with("Deserialize")),
              "members": members,
            }));
          }
        }
      }
      let mut out = json!({"sites": sites});
      if input["want"].as_array().is_some_and(|a| a.iter().any(|x| x == "code")) {
        out["code"] = Value::String(types.clone());
      }
      Ok(out)
    }
    _ => Err(format!("unknown-op:{op}")),
  }
}
