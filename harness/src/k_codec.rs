//! Codec kernel (C02): the real generator (in-process) on a spec whose component `T` is the schema
//! under test; the emitted types file is parsed with syn and the type `T` is EXPANDED into a
//! structural description of everything serde sees (primitive widths, Option/Vec/HashMap nesting,
//! struct fields with their wire names and serde attributes, unit-enum variants with rename/alias).
//! Type names are dropped (naming is C09/C13's subject); anything outside the modelled shapes is
//! reported as `{"k":"other"}` so that it can never be judged as if it were understood.
use quote::ToTokens;
use serde_json::{Value, json};
use syn::{Expr, Fields, GenericArgument, Item, Lit, Meta, PathArguments, Type};

use crate::{OpResult, facts, k_gen};

fn other(s: impl Into<String>) -> Value {
  json!({"k": "other", "s": s.into()})
}

fn serde_metas(attrs: &[syn::Attribute]) -> Result<Vec<Meta>, String> {
  let mut out = vec![];
  for a in attrs {
    if a.path().is_ident("serde") {
      let list = a.meta.require_list().map_err(|e| e.to_string())?;
      let metas = list
        .parse_args_with(syn::punctuated::Punctuated::<Meta, syn::Token![,]>::parse_terminated)
        .map_err(|e| e.to_string())?;
      out.extend(metas);
    }
  }
  Ok(out)
}

fn lit_str(e: &Expr) -> Option<String> {
  if let Expr::Lit(l) = e {
    if let Lit::Str(s) = &l.lit {
      return Some(s.value());
    }
  }
  None
}

/// `Some("x".to_string())` / `Some(String::new())`; on a non-`Option` member the bare `"x".to_string()` / `String::new()`
fn default_string(ts: proc_macro2::TokenStream) -> Option<String> {
  let e: Expr = syn::parse2(ts).ok()?;
  match &e {
    Expr::MethodCall(m) if m.method == "to_string" && m.args.is_empty() => return lit_str(&m.receiver),
    Expr::Call(c2) if facts::norm(&c2.func) == "String::new" && c2.args.is_empty() => return Some(String::new()),
    _ => {}
  }
  let Expr::Call(c) = e else { return None };
  let Expr::Path(p) = &*c.func else { return None };
  if !p.path.is_ident("Some") || c.args.len() != 1 {
    return None;
  }
  match &c.args[0] {
    Expr::MethodCall(m) if m.method == "to_string" && m.args.is_empty() => lit_str(&m.receiver),
    Expr::Call(c2) if facts::norm(&c2.func) == "String::new" && c2.args.is_empty() => Some(String::new()),
    _ => None,
  }
}

struct Cx<'a> {
  file: &'a syn::File,
}

impl Cx<'_> {
  fn generic1<'t>(seg: &'t syn::PathSegment) -> Option<Vec<&'t Type>> {
    if let PathArguments::AngleBracketed(ab) = &seg.arguments {
      let v: Vec<&Type> = ab
        .args
        .iter()
        .filter_map(|a| if let GenericArgument::Type(t) = a { Some(t) } else { None })
        .collect();
      if v.len() == ab.args.len() {
        return Some(v);
      }
    }
    None
  }

  fn ty(&self, t: &Type, depth: usize) -> Value {
    if depth > 24 {
      return other("too deep");
    }
    let Type::Path(tp) = t else { return other(facts::norm(t)) };
    if tp.qself.is_some() {
      return other(facts::norm(t));
    }
    let full = facts::norm(t);
    let segs: Vec<String> = tp.path.segments.iter().map(|s| s.ident.to_string()).collect();
    let last = tp.path.segments.last().unwrap();
    let joined = segs.join("::");
    match joined.as_str() {
      "String" if last.arguments.is_none() => return json!({"k": "string"}),
      "bool" => return json!({"k": "bool"}),
      "i8" | "i16" | "i32" | "i64" | "u8" | "u16" | "u32" | "u64" => return json!({"k": "int", "p": joined}),
      "f32" => return json!({"k": "float", "f32": true}),
      "f64" => return json!({"k": "float", "f32": false}),
      "serde_json::Value" => return json!({"k": "value"}),
      "Option" | "Vec" | "Box" => {
        if let Some(args) = Self::generic1(last) {
          if args.len() == 1 {
            let inner = self.ty(args[0], depth + 1);
            return match joined.as_str() {
              "Option" => json!({"k": "option", "t": inner}),
              "Vec" => json!({"k": "vec", "t": inner}),
              _ => inner,
            };
          }
        }
        return other(full);
      }
      "std::collections::HashMap" => {
        if let Some(args) = Self::generic1(last) {
          if args.len() == 2 && facts::norm(args[0]) == "String" {
            return json!({"k": "map", "t": self.ty(args[1], depth + 1)});
          }
        }
        return other(full);
      }
      _ => {}
    }
    if segs.len() == 1 && last.arguments.is_none() {
      return self.named(&segs[0], depth + 1);
    }
    other(full)
  }

  fn named(&self, name: &str, depth: usize) -> Value {
    for it in &self.file.items {
      match it {
        Item::Type(a) if a.ident == name => return self.ty(&a.ty, depth),
        Item::Struct(s) if s.ident == name => return self.strukt(s, depth),
        Item::Enum(e) if e.ident == name => return self.enm(e, depth),
        _ => {}
      }
    }
    json!({"k": "other", "s": format!("undefined type {name}")})
  }

  fn strukt(&self, s: &syn::ItemStruct, depth: usize) -> Value {
    let mut deny = false;
    let mut cdefault = false;
    let metas = match serde_metas(&s.attrs) {
      Ok(m) => m,
      Err(e) => return other(format!("struct serde attr: {e}")),
    };
    for m in &metas {
      match m {
        Meta::Path(p) if p.is_ident("deny_unknown_fields") => deny = true,
        Meta::Path(p) if p.is_ident("default") => cdefault = true,
        o => return other(format!("struct serde attr {}", facts::norm(o))),
      }
    }
    let skip_none = s.attrs.iter().any(|a| facts::norm(a.path()) == "serde_with::skip_serializing_none");
    if s.attrs.iter().any(|a| facts::norm(a.path()).ends_with("serde_as")) {
      return other("serde_as struct");
    }
    let derives: Vec<String> = s
      .attrs
      .iter()
      .filter(|a| a.path().is_ident("derive"))
      .flat_map(|a| {
        a.parse_args_with(syn::punctuated::Punctuated::<syn::Path, syn::Token![,]>::parse_terminated)
          .map(|p| p.iter().map(|x| facts::norm(x)).collect::<Vec<_>>())
          .unwrap_or_default()
      })
      .collect();
    if !derives.iter().any(|d| d == "Serialize") || !derives.iter().any(|d| d == "Deserialize") {
      return other(format!("struct derives {derives:?}"));
    }
    let Fields::Named(named) = &s.fields else { return other("tuple struct") };
    let mut fs = vec![];
    let mut flat = Value::Null;
    for f in &named.named {
      let ident = f.ident.as_ref().unwrap().to_string();
      let mut wire = ident.strip_prefix("r#").unwrap_or(&ident).to_string();
      let mut flatten = false;
      let metas = match serde_metas(&f.attrs) {
        Ok(m) => m,
        Err(e) => return other(format!("field serde attr: {e}")),
      };
      for m in &metas {
        match m {
          Meta::NameValue(nv) if nv.path.is_ident("rename") => match lit_str(&nv.value) {
            Some(s) => wire = s,
            None => return other("rename without literal"),
          },
          Meta::Path(p) if p.is_ident("flatten") => flatten = true,
          o => return other(format!("field serde attr {}", facts::norm(o))),
        }
      }
      let mut d = Value::Null;
      for a in &f.attrs {
        if a.path().is_ident("default") {
          d = match a.meta.require_list().ok().and_then(|l| default_string(l.tokens.clone())) {
            Some(s) => Value::String(s),
            None => json!({"other": facts::norm(&a.meta)}),
          };
        }
      }
      let t = self.ty(&f.ty, depth + 1);
      if flatten {
        if !flat.is_null() {
          return other("two flattened fields");
        }
        match (t.get("k").and_then(Value::as_str), t.get("t")) {
          (Some("map"), Some(inner)) => flat = inner.clone(),
          _ => return other("flatten on a non-map"),
        }
      } else {
        fs.push(json!({"ident": ident, "wire": wire, "t": t, "d": d}));
      }
    }
    json!({"k": "struct", "fs": fs, "flat": flat, "deny": deny, "cdefault": cdefault, "skipNone": skip_none})
  }

  /// `#[serde(untagged)] enum`: unit variants (their `rename` is recorded, serde ignores it) and newtype variants
  fn untagged(&self, e: &syn::ItemEnum, depth: usize) -> Value {
    let derives = e.attrs.iter().filter(|a| a.path().is_ident("derive")).map(|a| facts::norm(&a.meta)).collect::<Vec<_>>().join(" ");
    if !derives.contains("Serialize") || !derives.contains("Deserialize") {
      return other(format!("enum derives {derives}"));
    }
    let mut vs = vec![];
    for v in &e.variants {
      let metas = match serde_metas(&v.attrs) {
        Ok(m) => m,
        Err(er) => return other(er),
      };
      match &v.fields {
        Fields::Unit => {
          let mut wire = v.ident.to_string();
          for m in &metas {
            match m {
              Meta::NameValue(nv) if nv.path.is_ident("rename") => match lit_str(&nv.value) {
                Some(s) => wire = s,
                None => return other("rename without literal"),
              },
              o => return other(format!("variant serde attr {}", facts::norm(o))),
            }
          }
          vs.push(json!({"unit": wire}));
        }
        Fields::Unnamed(u) if u.unnamed.len() == 1 => {
          if !metas.is_empty() {
            return other(format!("variant serde attr {}", facts::norm(&metas[0])));
          }
          if u.unnamed[0].attrs.iter().any(|a| a.path().is_ident("serde")) {
            return other("serde attribute on a variant field");
          }
          vs.push(json!({"newtype": self.ty(&u.unnamed[0].ty, depth + 1)}));
        }
        _ => return other("untagged variant that is neither unit nor newtype"),
      }
    }
    json!({"k": "untagged", "vs": vs})
  }

  fn enm(&self, e: &syn::ItemEnum, depth: usize) -> Value {
    match serde_metas(&e.attrs) {
      Ok(m) if m.is_empty() => {}
      Ok(m) if m.len() == 1 && matches!(&m[0], Meta::Path(p) if p.is_ident("untagged")) => return self.untagged(e, depth),
      Ok(m) => return other(format!("enum serde attr {}", facts::norm(&m[0]))),
      Err(er) => return other(er),
    }
    let derives = e.attrs.iter().filter(|a| a.path().is_ident("derive")).map(|a| facts::norm(&a.meta)).collect::<Vec<_>>().join(" ");
    if !derives.contains("Serialize") || !derives.contains("Deserialize") {
      return other(format!("enum derives {derives}"));
    }
    let mut vs = vec![];
    for v in &e.variants {
      if !matches!(v.fields, Fields::Unit) {
        return other("non-unit variant");
      }
      let name = v.ident.to_string();
      let mut wire = name.clone();
      let mut aliases = vec![];
      let metas = match serde_metas(&v.attrs) {
        Ok(m) => m,
        Err(er) => return other(er),
      };
      for m in &metas {
        match m {
          Meta::NameValue(nv) if nv.path.is_ident("rename") => match lit_str(&nv.value) {
            Some(s) => wire = s,
            None => return other("rename without literal"),
          },
          Meta::NameValue(nv) if nv.path.is_ident("alias") => match lit_str(&nv.value) {
            Some(s) => aliases.push(s),
            None => return other("alias without literal"),
          },
          o => return other(format!("variant serde attr {}", facts::norm(o))),
        }
      }
      vs.push(json!({"name": name, "wire": wire, "aliases": aliases}));
    }
    json!({"k": "enum", "vs": vs})
  }
}

pub fn eval(op: &str, input: &mut Value) -> OpResult {
  match op {
    // `codec.union`: the same evaluation, the root type is an untagged enum
    "codec.type" | "codec.union" => {
      let (files, _stats) = match k_gen::generate(input) {
        Ok(x) => x,
        Err(e) => return Ok(json!({"err": e})),
      };
      let types = files.get("types").ok_or("no types file")?;
      let file = match syn::parse_file(types) {
        Ok(f) => f,
        Err(e) => return Ok(json!({"err": format!("emitted types file does not parse: {e}")})),
      };
      let root = input["root"].as_str().unwrap_or("T");
      let cx = Cx { file: &file };
      let mut ty = cx.named(root, 0);
      // variant identifiers of a union of constants are not part of the model (naming: C09)
      if op == "codec.union" && ty["k"] == "enum" {
        if let Some(vs) = ty["vs"].as_array_mut() {
          for v in vs {
            v["name"] = Value::String(String::new());
          }
        }
      }
      let mut out = json!({"ty": ty});
      if input["want"].as_array().is_some_and(|a| a.iter().any(|x| x == "code")) {
        out["code"] = Value::String(types.clone());
      }
      Ok(out)
    }
    _ => Err(format!("unknown-op:{op}")),
  }
}
