//! SSE harness (tie K for C20): drives the REAL `oas3_gen_support::EventStream<serde_json::Value>`
//! over a `reqwest::Response` whose body is a scripted chunk stream with `Pending` interleavings,
//! polled by a minimal EXECUTOR: a counting waker, re-poll after `Pending` only if a wake-up happened.
//! One `{"op":"sse.run","in":{"script":[[bytes..]|"p"|"w",..]}}` per line in (`"p"`: Pending, the
//! transport keeps the waker and wakes it after the call; `"w"`: Pending, woken before returning);
//! `{"op","in","impl":[ {"pending":{"inner":b,"woke":b}} | {"ok":v} | "jsonerr" | "sseerr" | "done"
//! | {"stalled":true,"after_events":k,"inner":b} | "no-end", ..]}` out.  `inner`: the scripted
//! transport answered Pending in that call; `woke`: the task's waker was woken during the call.
use std::{
  collections::VecDeque,
  io::{BufRead, Write},
  pin::Pin,
  sync::{
    Arc, Mutex,
    atomic::{AtomicUsize, Ordering},
  },
  task::{Context, Poll, Wake, Waker},
};

use futures::Stream;
use oas3_gen_support::{EventStream, EventStreamError};
use serde_json::{Value, json};

enum Step {
  Chunk(Vec<u8>),
  /// `Pending`; the transport keeps the waker and wakes it after the call returned ("p")
  PendLater,
  /// `Pending`; the transport wakes the waker before it returns ("w")
  PendWake,
}

/// what the scripted transport did during the current call of `EventStream::poll_next`
#[derive(Default)]
struct Transport {
  /// the transport answered `Pending` in this call (it is the one that holds the waker)
  pending_in_call: bool,
  /// waker taken by a `PendLater` step, to be woken by the "reactor" after the call
  kept: Option<Waker>,
}

struct Script {
  steps: VecDeque<Step>,
  tr: Arc<Mutex<Transport>>,
}

impl Stream for Script {
  type Item = Result<bytes::Bytes, std::io::Error>;

  fn poll_next(mut self: Pin<&mut Self>, cx: &mut Context<'_>) -> Poll<Option<Self::Item>> {
    match self.steps.pop_front() {
      None => Poll::Ready(None),
      Some(Step::PendLater) => {
        let mut t = self.tr.lock().unwrap();
        t.pending_in_call = true;
        t.kept = Some(cx.waker().clone());
        Poll::Pending
      }
      Some(Step::PendWake) => {
        self.tr.lock().unwrap().pending_in_call = true;
        cx.waker().wake_by_ref();
        Poll::Pending
      }
      Some(Step::Chunk(b)) => Poll::Ready(Some(Ok(bytes::Bytes::from(b)))),
    }
  }
}

/// the task's waker: counts `wake` / `wake_by_ref`
struct Counting(AtomicUsize);

impl Wake for Counting {
  fn wake(self: Arc<Self>) {
    self.0.fetch_add(1, Ordering::SeqCst);
  }

  fn wake_by_ref(self: &Arc<Self>) {
    self.0.fetch_add(1, Ordering::SeqCst);
  }
}

/// A minimal executor: after `Poll::Pending` the task is polled again ONLY if its waker was woken
/// (during the call, or by the transport that kept it).  A `Pending` with no wake-up is a lost
/// wake-up: reported as `{"stalled":true,..}` and the run stops there, as it would under any runtime.
fn run(script: &Value) -> Result<Value, String> {
  let mut steps = VecDeque::new();
  for s in script.as_array().ok_or("script")? {
    match s {
      Value::String(p) if p == "p" => steps.push_back(Step::PendLater),
      Value::String(p) if p == "w" => steps.push_back(Step::PendWake),
      Value::Array(a) => steps.push_back(Step::Chunk(
        a.iter().map(|n| n.as_u64().unwrap_or(0) as u8).collect(),
      )),
      _ => return Err("script item".into()),
    }
  }
  let nsteps = steps.len();
  let tr = Arc::new(Mutex::new(Transport::default()));
  let body = reqwest::Body::wrap_stream(Script { steps, tr: tr.clone() });
  let resp = reqwest::Response::from(http::Response::new(body));
  let mut es = EventStream::<Value>::from_response(resp);
  let counter = Arc::new(Counting(AtomicUsize::new(0)));
  let waker = Waker::from(counter.clone());
  let mut cx = Context::from_waker(&waker);
  let mut out = vec![];
  let mut items = 0usize;
  // bounded: every poll consumes a script step or yields an item; items are bounded by bytes
  let total: usize = script.as_array().unwrap().iter().map(|s| s.as_array().map_or(1, |a| a.len() + 1)).sum();
  for _ in 0..(2 * (nsteps + total) + 8) {
    tr.lock().unwrap().pending_in_call = false;
    let before = counter.0.load(Ordering::SeqCst);
    match Pin::new(&mut es).poll_next(&mut cx) {
      Poll::Pending => {
        let inner = tr.lock().unwrap().pending_in_call;
        let woke = counter.0.load(Ordering::SeqCst) > before;
        // the reactor: a transport that kept a waker wakes it now
        let kept = tr.lock().unwrap().kept.take();
        if let Some(w) = kept {
          w.wake();
        }
        if counter.0.load(Ordering::SeqCst) == before {
          out.push(json!({"stalled": true, "after_events": items, "inner": inner}));
          return Ok(Value::Array(out));
        }
        out.push(json!({"pending": {"inner": inner, "woke": woke}}));
      }
      Poll::Ready(None) => {
        out.push(json!("done"));
        return Ok(Value::Array(out));
      }
      Poll::Ready(Some(Ok(v))) => {
        items += 1;
        out.push(json!({"ok": v}));
      }
      Poll::Ready(Some(Err(EventStreamError::JsonDeserialize { .. }))) => {
        items += 1;
        out.push(json!("jsonerr"));
      }
      Poll::Ready(Some(Err(EventStreamError::SseParse(_)))) => {
        items += 1;
        out.push(json!("sseerr"));
      }
    }
  }
  out.push(json!("no-end"));
  Ok(Value::Array(out))
}

fn main() {
  std::panic::set_hook(Box::new(|_| {}));
  let stdin = std::io::stdin();
  let stdout = std::io::stdout();
  let mut out = std::io::BufWriter::new(stdout.lock());
  for line in stdin.lock().lines() {
    let Ok(line) = line else { break };
    if line.trim().is_empty() {
      continue;
    }
    let req: Value = match serde_json::from_str(&line) {
      Ok(v) => v,
      Err(e) => {
        writeln!(out, "{}", json!({"err": format!("bad-json: {e}")})).unwrap();
        continue;
      }
    };
    let input = req["in"].clone();
    let res = std::panic::catch_unwind(std::panic::AssertUnwindSafe(|| run(&input["script"])));
    let impl_v = match res {
      Ok(Ok(v)) => v,
      Ok(Err(e)) => json!({"err": e}),
      Err(_) => json!({"panic": true}),
    };
    writeln!(out, "{}", json!({"op": req["op"], "in": input, "impl": impl_v})).unwrap();
  }
  out.flush().unwrap();
}
