//! SSE harness (tie K for C20): drives the REAL `oas3_gen_support::EventStream<serde_json::Value>`
//! over a `reqwest::Response` whose body is a scripted chunk stream with `Pending` interleavings,
//! polling by hand with a no-op waker.  One `{"op":"sse.run","in":{"script":[[bytes..]|"p",..]}}`
//! per line in; `{"op","in","impl":[ "pending" | {"ok":v} | "jsonerr" | "sseerr" | "done", ..]}` out.
use std::{
  collections::VecDeque,
  io::{BufRead, Write},
  pin::Pin,
  task::{Context, Poll},
};

use futures::{Stream, task::noop_waker};
use oas3_gen_support::{EventStream, EventStreamError};
use serde_json::{Value, json};

enum Step {
  Chunk(Vec<u8>),
  Pending,
}

struct Script {
  steps: VecDeque<Step>,
}

impl Stream for Script {
  type Item = Result<bytes::Bytes, std::io::Error>;

  fn poll_next(mut self: Pin<&mut Self>, _cx: &mut Context<'_>) -> Poll<Option<Self::Item>> {
    match self.steps.pop_front() {
      None => Poll::Ready(None),
      Some(Step::Pending) => Poll::Pending,
      Some(Step::Chunk(b)) => Poll::Ready(Some(Ok(bytes::Bytes::from(b)))),
    }
  }
}

fn run(script: &Value) -> Result<Value, String> {
  let mut steps = VecDeque::new();
  for s in script.as_array().ok_or("script")? {
    match s {
      Value::String(p) if p == "p" => steps.push_back(Step::Pending),
      Value::Array(a) => steps.push_back(Step::Chunk(
        a.iter().map(|n| n.as_u64().unwrap_or(0) as u8).collect(),
      )),
      _ => return Err("script item".into()),
    }
  }
  let nsteps = steps.len();
  let body = reqwest::Body::wrap_stream(Script { steps });
  let resp = reqwest::Response::from(http::Response::new(body));
  let mut es = EventStream::<Value>::from_response(resp);
  let waker = noop_waker();
  let mut cx = Context::from_waker(&waker);
  let mut out = vec![];
  // bounded: every poll consumes a script step or yields an item; items are bounded by bytes
  let total: usize = script.as_array().unwrap().iter().map(|s| s.as_array().map_or(1, |a| a.len() + 1)).sum();
  for _ in 0..(2 * (nsteps + total) + 8) {
    match Pin::new(&mut es).poll_next(&mut cx) {
      Poll::Pending => out.push(json!("pending")),
      Poll::Ready(None) => {
        out.push(json!("done"));
        return Ok(Value::Array(out));
      }
      Poll::Ready(Some(Ok(v))) => out.push(json!({"ok": v})),
      Poll::Ready(Some(Err(EventStreamError::JsonDeserialize { .. }))) => out.push(json!("jsonerr")),
      Poll::Ready(Some(Err(EventStreamError::SseParse(_)))) => out.push(json!("sseerr")),
    }
  }
  out.push(json!("no-end"));
  Ok(Value::Array(out))
}

fn main() {
  std::panic::set_hook(Box::new(|_| {}));
  let stdin = std::io::stdin();
  let stdout = std::io::stdout();
  let mut out = std::io::BufWriter::new(stdout.lock());
  for line in stdin.lock().lines() {
    let Ok(line) = line else { break };
    if line.trim().is_empty() {
      continue;
    }
    let req: Value = match serde_json::from_str(&line) {
      Ok(v) => v,
      Err(e) => {
        writeln!(out, "{}", json!({"err": format!("bad-json: {e}")})).unwrap();
        continue;
      }
    };
    let input = req["in"].clone();
    let res = std::panic::catch_unwind(std::panic::AssertUnwindSafe(|| run(&input["script"])));
    let impl_v = match res {
      Ok(Ok(v)) => v,
      Ok(Err(e)) => json!({"err": e}),
      Err(_) => json!({"panic": true}),
    };
    writeln!(out, "{}", json!({"op": req["op"], "in": input, "impl": impl_v})).unwrap();
  }
  out.flush().unwrap();
}
