//! `synfacts FILE...` : facts of emitted files produced by the real CLI (tie E), one JSON object
//! {"<path>": facts} on stdout.  Does not depend on /repo at all.
#[path = "facts.rs"]
mod facts;

fn main() {
  let mut out = serde_json::Map::new();
  for p in std::env::args().skip(1) {
    let v = match std::fs::read_to_string(&p) {
      Ok(code) => facts::file_facts(&code),
      Err(e) => serde_json::json!({"read_error": e.to_string()}),
    };
    out.insert(p, v);
  }
  println!("{}", serde_json::Value::Object(out));
}
