//! C16 adapter: validation attributes.
//!  * `valid.extract` (K): the real `FieldConverter::extract_all_validation` + `ValidationAttribute::to_tokens`
//!    on one schema object (TypeRef built with the real `RustPrimitive::from_format`).
//!  * `valid.gen` (E): the whole generator in-process on a spec; facts = every emitted struct's
//!    `#[validate(..)]` attributes (regex constants resolved to their pattern text), whether every struct
//!    with attributes derives `validator::Validate`, whether every client method starts with
//!    `request.validate()`.
//! Both ops also evaluate the PARAMETERS of the model on the strings of the case with the real crates:
//! `regex::Regex::new(p).is_ok()`, `Regex::is_match`, `validator::ValidateEmail`, `validator::ValidateUrl`
//! (added to the input as `rx`).
use std::collections::BTreeMap;

use quote::ToTokens;
use serde_json::{Map, Value, json};
use validator::{ValidateEmail, ValidateUrl};

use crate::{
  OpResult, facts,
  generator::{
    ast::{RustPrimitive, TypeRef},
    converter::fields::FieldConverter,
  },
  k_gen,
};

fn collect_patterns(v: &Value, out: &mut Vec<String>) {
  match v {
    Value::Object(m) => {
      for (k, x) in m {
        if k == "pattern" {
          if let Some(s) = x.as_str() {
            out.push(s.to_string());
          }
        } else {
          collect_patterns(x, out);
        }
      }
    }
    Value::Array(a) => a.iter().for_each(|x| collect_patterns(x, out)),
    _ => {}
  }
}

fn collect_strings(v: &Value, out: &mut Vec<String>) {
  match v {
    Value::Object(m) => {
      if m.get("t").and_then(Value::as_str) == Some("str") {
        if let Some(s) = m.get("v").and_then(Value::as_str) {
          out.push(s.to_string());
        }
      }
      m.values().for_each(|x| collect_strings(x, out));
    }
    Value::Array(a) => a.iter().for_each(|x| collect_strings(x, out)),
    _ => {}
  }
}

/// the model's parameters evaluated by the real crates on the strings of this case
fn rx_tables(schema_side: &Value, vals: &Value) -> Value {
  let mut pats = vec![];
  collect_patterns(schema_side, &mut pats);
  pats.sort();
  pats.dedup();
  let mut strs = vec![];
  collect_strings(vals, &mut strs);
  strs.sort();
  strs.dedup();
  let mut compiles = Map::new();
  let mut matches = Map::new();
  for p in &pats {
    match regex::Regex::new(p) {
      Ok(re) => {
        compiles.insert(p.clone(), json!(true));
        let t: Map<String, Value> = strs.iter().map(|s| (s.clone(), json!(re.is_match(s)))).collect();
        matches.insert(p.clone(), Value::Object(t));
      }
      Err(_) => {
        compiles.insert(p.clone(), json!(false));
      }
    }
  }
  let email: Map<String, Value> = strs.iter().map(|s| (s.clone(), json!(s.validate_email()))).collect();
  let url: Map<String, Value> = strs.iter().map(|s| (s.clone(), json!(s.validate_url()))).collect();
  json!({"compiles": compiles, "matches": matches, "email": email, "url": url})
}

fn lit_u64(e: &syn::Expr) -> Value {
  if let syn::Expr::Lit(syn::ExprLit { lit: syn::Lit::Int(i), .. }) = e {
    if let Ok(n) = i.base10_parse::<u64>() {
      return json!(n);
    }
  }
  json!(facts::norm(e))
}

/// `validate(a, b(c = d, ..), ..)` → list of attribute facts
fn parse_validate(attr: &str, statics: Option<&BTreeMap<String, String>>) -> Vec<Value> {
  let Ok(meta) = syn::parse_str::<syn::Meta>(attr) else {
    return vec![json!({"k": "other", "text": attr})];
  };
  let syn::Meta::List(list) = meta else {
    return vec![json!({"k": "other", "text": attr})];
  };
  let Ok(inner) = list.parse_args_with(syn::punctuated::Punctuated::<syn::Meta, syn::Token![,]>::parse_terminated) else {
    return vec![json!({"k": "other", "text": attr})];
  };
  inner
    .iter()
    .map(|m| match m {
      syn::Meta::Path(p) => json!({"k": facts::norm(p)}),
      syn::Meta::List(l) => {
        let k = facts::norm(&l.path);
        let args = l
          .parse_args_with(syn::punctuated::Punctuated::<syn::MetaNameValue, syn::Token![,]>::parse_terminated)
          .map(|p| p.into_iter().map(|nv| (facts::norm(&nv.path), nv.value)).collect::<Vec<_>>());
        let Ok(args) = args else {
          return json!({"k": "other", "text": facts::norm(l)});
        };
        let get = |name: &str| args.iter().find(|(n, _)| n == name).map(|(_, v)| v);
        let known = |names: &[&str]| args.iter().all(|(n, _)| names.contains(&n.as_str()));
        match k.as_str() {
          "length" if known(&["min", "max"]) => {
            json!({"k": "length", "min": get("min").map_or(Value::Null, lit_u64), "max": get("max").map_or(Value::Null, lit_u64)})
          }
          "range" if known(&["min", "max", "exclusive_min", "exclusive_max"]) => {
            let t = |n: &str| get(n).map_or(Value::Null, |e| json!(facts::norm(e)));
            json!({"k": "range", "min": t("min"), "max": t("max"), "exclusive_min": t("exclusive_min"), "exclusive_max": t("exclusive_max")})
          }
          "regex" if known(&["path"]) => {
            let path = match get("path") {
              Some(syn::Expr::Lit(syn::ExprLit { lit: syn::Lit::Str(s), .. })) => s.value(),
              Some(e) => facts::norm(e),
              None => String::new(),
            };
            match statics {
              Some(st) => json!({"k": "regex", "path": path, "pat": st.get(&path).map_or(Value::Null, |p| json!(p))}),
              None => json!({"k": "regex", "path": path}),
            }
          }
          _ => json!({"k": "other", "text": facts::norm(l)}),
        }
      }
      syn::Meta::NameValue(nv) => json!({"k": "other", "text": facts::norm(nv)}),
    })
    .collect()
}

/// first string literal in a token stream (the pattern inside `regex::Regex::new("…")`)
fn first_str_lit(ts: proc_macro2::TokenStream) -> Option<String> {
  for tt in ts {
    match tt {
      proc_macro2::TokenTree::Group(g) => {
        if let Some(s) = first_str_lit(g.stream()) {
          return Some(s);
        }
      }
      proc_macro2::TokenTree::Literal(l) => {
        if let Ok(s) = syn::parse_str::<syn::LitStr>(&l.to_string()) {
          return Some(s.value());
        }
      }
      _ => {}
    }
  }
  None
}

/// OpenAPI schema object of a `cons` description (numbers travel as decimal strings)
pub fn cons_schema(c: &Value) -> Value {
  let mut o = Map::new();
  for (k, v) in c.as_object().into_iter().flatten() {
    match k.as_str() {
      "ty" => {
        o.insert("type".into(), v.clone());
      }
      "enum" => {
        if v.as_bool() == Some(true) {
          o.insert("enum".into(), json!(["aa", "bb"]));
        }
      }
      "minimum" | "maximum" | "exclusiveMinimum" | "exclusiveMaximum" => {
        if let Some(s) = v.as_str() {
          let n: Value = serde_json::from_str(s).unwrap_or(Value::Null);
          o.insert(k.clone(), n);
        }
      }
      _ => {
        if !v.is_null() {
          o.insert(k.clone(), v.clone());
        }
      }
    }
  }
  Value::Object(o)
}

pub fn eval(op: &str, input: &mut Value) -> OpResult {
  match op {
    "valid.extract" => {
      let s = input["s"].clone();
      let req = input["req"].as_bool().unwrap_or(false);
      let as_param = input["param"].as_bool().unwrap_or(false);
      input["rx"] = rx_tables(&s, &input["vals"]);
      let kind = s["k"].as_str().unwrap_or("");
      let c = &s["c"];
      let mut schema_json = cons_schema(c);
      let prim_of = |c: &Value| -> RustPrimitive {
        let ty = match &c["ty"] {
          Value::String(t) => t.clone(),
          Value::Array(a) => a.iter().filter_map(Value::as_str).find(|t| *t != "null").unwrap_or("").to_string(),
          _ => String::new(),
        };
        let default = match ty.as_str() {
          "string" => RustPrimitive::String,
          "number" => RustPrimitive::F64,
          "integer" => RustPrimitive::I64,
          "boolean" => RustPrimitive::Bool,
          _ => RustPrimitive::Value,
        };
        if matches!(ty.as_str(), "string" | "number" | "integer") {
          c["format"].as_str().and_then(RustPrimitive::from_format).unwrap_or(default)
        } else {
          default
        }
      };
      let base = match kind {
        "prim" => prim_of(c),
        "arrP" => {
          schema_json["items"] = cons_schema(&s["items"]);
          prim_of(&s["items"])
        }
        "arrR" => {
          schema_json["items"] = json!({"$ref": format!("#/components/schemas/{}", s["to"].as_str().unwrap_or("X"))});
          RustPrimitive::Custom(s["to"].as_str().unwrap_or("X").into())
        }
        _ => return Err("valid.extract: not a leaf".into()),
      };
      let ty_nullable = c["ty"].as_array().is_some_and(|a| a.iter().any(|t| t == "null"));
      let schema: oas3::spec::ObjectSchema = serde_json::from_value(schema_json).map_err(|e| format!("schema: {e}"))?;
      let mut tr = TypeRef::new(base);
      if kind != "prim" {
        tr = tr.with_vec();
      }
      // convert_field: optional members become Option<_>; resolve_with_metadata: type before with_option
      if ty_nullable || (!as_param && !req) {
        tr = tr.with_option();
      }
      let attrs = FieldConverter::extract_all_validation("p", req, &schema, &tr);
      let out: Vec<Value> = attrs
        .iter()
        .flat_map(|a| parse_validate(&format!("validate({})", a.to_token_stream()), None))
        .collect();
      Ok(json!({"attrs": out}))
    }
    "valid.gen" => {
      input["rx"] = rx_tables(&input["desc"], &input["vals"]);
      let (files, _stats) = match k_gen::generate(input) {
        Ok(x) => x,
        Err(e) => return Ok(json!({"err": e})),
      };
      let types = files.get("types").ok_or("no types file")?;
      let tf = facts::file_facts(types);
      if let Some(e) = tf.get("parse_error") {
        return Ok(json!({"err": format!("emitted types file does not parse: {e}")}));
      }
      let mut statics = BTreeMap::new();
      if let Ok(file) = syn::parse_file(types) {
        for it in &file.items {
          if let syn::Item::Static(st) = it {
            if let Some(p) = first_str_lit(st.expr.to_token_stream()) {
              statics.insert(st.ident.to_string(), p);
            }
          }
        }
      }
      let mut structs = Map::new();
      let mut derive_ok = true;
      let mut types_of = Map::new();
      let mut derives = Map::new();
      for it in tf["items"].as_array().into_iter().flatten() {
        if it["kind"] != "struct" {
          continue;
        }
        let mut fields = Map::new();
        let mut tys = Map::new();
        let mut any = false;
        for f in it["fields"].as_array().into_iter().flatten() {
          let mut attrs = vec![];
          for a in f["attrs"].as_array().into_iter().flatten() {
            let a = a.as_str().unwrap_or("");
            if a.starts_with("validate(") {
              attrs.extend(parse_validate(a, Some(&statics)));
            }
          }
          any |= !attrs.is_empty();
          fields.insert(f["name"].as_str().unwrap_or("").to_string(), Value::Array(attrs));
          tys.insert(f["name"].as_str().unwrap_or("").to_string(), f["ty"].clone());
        }
        let derives_validate = it["derives"].as_array().is_some_and(|d| d.iter().any(|x| x == "validator::Validate" || x == "Validate"));
        if any && !derives_validate {
          derive_ok = false;
        }
        derives.insert(it["name"].as_str().unwrap_or("").to_string(), it["derives"].clone());
        structs.insert(it["name"].as_str().unwrap_or("").to_string(), Value::Object(fields));
        types_of.insert(it["name"].as_str().unwrap_or("").to_string(), Value::Object(tys));
      }
      let mut validates_first = true;
      let mut methods = 0;
      if let Some(client) = files.get("client") {
        let cf = facts::file_facts(client);
        for m in cf["client_methods"].as_array().into_iter().flatten() {
          methods += 1;
          let text = m["text"].as_str().unwrap_or("");
          if !text.starts_with("{request.validate().context(\"parameter validation\")?;") {
            validates_first = false;
          }
        }
      }
      if methods == 0 {
        validates_first = false;
      }
      let want_code = input["want"].as_array().is_some_and(|a| a.iter().any(|x| x == "code"));
      let mut out = json!({"structs": structs, "validates_first": validates_first, "derive_ok": derive_ok, "types": types_of, "derives": derives});
      if want_code {
        out["code"] = json!({"types": types, "client": files.get("client")});
      }
      Ok(out)
    }
    // several inline-object sites of one generated document (C16, site dimension): for every site path the struct
    // it resolves to in THIS run, the validators of its members, and whether the holder's member carries `nested`
    "valid.sites" => {
      input["rx"] = rx_tables(&input["desc"], &input["vals"]);
      let (files, _stats) = match k_gen::generate(input) {
        Ok(x) => x,
        Err(e) => return Ok(json!({"err": e})),
      };
      let types = files.get("types").ok_or("no types file")?;
      let tf = facts::file_facts(types);
      if let Some(e) = tf.get("parse_error") {
        return Ok(json!({"err": format!("emitted types file does not parse: {e}")}));
      }
      let mut statics = BTreeMap::new();
      if let Ok(file) = syn::parse_file(types) {
        for it in &file.items {
          if let syn::Item::Static(st) = it {
            if let Some(p) = first_str_lit(st.expr.to_token_stream()) {
              statics.insert(st.ident.to_string(), p);
            }
          }
        }
      }
      let structs: BTreeMap<String, &Value> = tf["items"]
        .as_array()
        .into_iter()
        .flatten()
        .filter(|it| it["kind"] == "struct")
        .map(|it| (it["name"].as_str().unwrap_or("").to_string(), it))
        .collect();
      fn base_of(ty: &str) -> &str {
        let mut t = ty;
        loop {
          match ["Option<", "Vec<", "Box<"].iter().find_map(|p| t.strip_prefix(p).and_then(|r| r.strip_suffix('>'))) {
            Some(r) => t = r,
            None => return t,
          }
        }
      }
      let field_attrs = |f: &Value| -> Vec<Value> {
        let mut attrs = vec![];
        for a in f["attrs"].as_array().into_iter().flatten() {
          let a = a.as_str().unwrap_or("");
          if a.starts_with("validate(") {
            attrs.extend(parse_validate(a, Some(&statics)));
          }
        }
        attrs
      };
      let mut sites = vec![];
      'site: for s in input["sites"].as_array().into_iter().flatten() {
        let at: Vec<&str> = s["at"].as_array().into_iter().flatten().filter_map(Value::as_str).collect();
        let Some(mut cur) = at.first().and_then(|n| structs.get(*n)).copied() else {
          sites.push(json!({"err": format!("struct {:?} not emitted", at.first())}));
          continue;
        };
        let mut holder_attrs: Vec<Value> = vec![];
        for seg in &at[1..] {
          let Some(f) = cur["fields"].as_array().into_iter().flatten().find(|f| f["name"] == *seg) else {
            sites.push(json!({"err": format!("field {seg} not emitted in {}", cur["name"])}));
            continue 'site;
          };
          holder_attrs = field_attrs(f);
          let ty = f["ty"].as_str().unwrap_or("");
          let Some(next) = structs.get(base_of(ty)).copied() else {
            sites.push(json!({"err": format!("type {ty} of {}.{seg} is not an emitted struct", cur["name"])}));
            continue 'site;
          };
          cur = next;
        }
        let mut members = Map::new();
        let mut tys = Map::new();
        let mut any = false;
        for f in cur["fields"].as_array().into_iter().flatten() {
          let attrs = field_attrs(f);
          any |= !attrs.is_empty();
          members.insert(f["name"].as_str().unwrap_or("").to_string(), Value::Array(attrs));
          tys.insert(f["name"].as_str().unwrap_or("").to_string(), f["ty"].clone());
        }
        let derives_validate = cur["derives"].as_array().is_some_and(|d| d.iter().any(|x| x == "validator::Validate" || x == "Validate"));
        sites.push(json!({
          "struct": cur["name"],
          "members": members,
          "types": tys,
          "derive_ok": !any || derives_validate,
          "holder_nested": holder_attrs.iter().any(|a| a["k"] == "nested"),
        }));
      }
      let mut out = json!({"sites": sites});
      if input["want"].as_array().is_some_and(|a| a.iter().any(|x| x == "code")) {
        out["code"] = json!({"types": types});
      }
      Ok(out)
    }
    _ => Err(format!("unknown-op:{op}")),
  }
}
