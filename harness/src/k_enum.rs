//! Enum kernel (property C15).
//!
//! * `enum.build` (tie K): the REAL `ValueEnumBuilder::build_enum_from_values` on a value list ->
//!   the AST variants (name, rename, aliases) + `EnumDef::fallback_variant`.
//! * `enum.gen` (tie E): the whole generator, in-process, on a spec that declares the value list in
//!   one of the three shapes; the EMITTED `types.rs` is parsed with syn and the enum's wire-relevant
//!   facts are extracted: variants with their serde `rename`/`alias` literals, whether
//!   Serialize/Deserialize are derived, the hand-written `Deserialize` impl (scrutinee kind, string
//!   arms in order, fallback arm), the Display arms, and the `Known`/`Other` untagged wrapper.
//!   With `"want":["code"]` the enum-related items are also returned as text (for the arena).
use quote::ToTokens;
use serde_json::{Value, json};
use syn::{Expr, ImplItem, Item, Pat, Stmt};

use crate::{
  OpResult,
  generator::{
    ast::{Documentation, RustType, SerdeAttribute},
    converter::{
      union_types::{CollisionStrategy, EnumValueEntry},
      value_enums::ValueEnumBuilder,
    },
  },
  k_gen,
};

fn norm<T: ToTokens>(t: &T) -> String {
  t.to_token_stream().to_string().replace(' ', "")
}

fn lit_str(e: &Expr) -> Option<String> {
  match e {
    Expr::Lit(syn::ExprLit { lit: syn::Lit::Str(s), .. }) => Some(s.value()),
    _ => None,
  }
}

/// `#[serde(rename = "..", alias = "..", ...)]` on a variant -> (rename, aliases, other keys)
fn serde_variant_attrs(attrs: &[syn::Attribute]) -> (Option<String>, Vec<String>, Vec<String>) {
  let mut rename = None;
  let mut aliases = vec![];
  let mut odd = vec![];
  for a in attrs {
    if !a.path().is_ident("serde") {
      if !(a.path().is_ident("doc") || a.path().is_ident("default") || a.path().is_ident("deprecated")) {
        odd.push(format!("attr:{}", norm(&a.meta)));
      }
      continue;
    }
    let r = a.parse_nested_meta(|m| {
      let key = m.path.get_ident().map(ToString::to_string).unwrap_or_default();
      if m.input.peek(syn::Token![=]) {
        let v: syn::LitStr = m.value()?.parse()?;
        match key.as_str() {
          "rename" if rename.is_none() => rename = Some(v.value()),
          "alias" => aliases.push(v.value()),
          _ => odd.push(format!("serde:{key}={}", v.value())),
        }
      } else {
        odd.push(format!("serde:{key}"));
      }
      Ok(())
    });
    if r.is_err() {
      odd.push(format!("serde-unparsed:{}", norm(&a.meta)));
    }
  }
  (rename, aliases, odd)
}

fn derives_of(attrs: &[syn::Attribute]) -> Vec<String> {
  let mut out = vec![];
  for a in attrs {
    if a.path().is_ident("derive") {
      let _ = a.parse_nested_meta(|m| {
        out.push(m.path.segments.last().map(|s| s.ident.to_string()).unwrap_or_default());
        Ok(())
      });
    }
  }
  out
}

fn has_serde_flag(attrs: &[syn::Attribute], flag: &str) -> bool {
  let mut hit = false;
  for a in attrs {
    if a.path().is_ident("serde") {
      let _ = a.parse_nested_meta(|m| {
        if m.path.is_ident(flag) {
          hit = true;
        }
        if m.input.peek(syn::Token![=]) {
          let _: Expr = m.value()?.parse()?;
        }
        Ok(())
      });
    }
  }
  hit
}

/// `Ok(E::Variant)` / `Ok(Self::Variant)` -> Variant
fn ok_variant(e: &Expr) -> Option<String> {
  let Expr::Call(c) = e else { return None };
  if norm(&c.func) != "Ok" || c.args.len() != 1 {
    return None;
  }
  let Expr::Path(p) = &c.args[0] else { return None };
  if p.path.segments.len() != 2 {
    return None;
  }
  Some(p.path.segments[1].ident.to_string())
}

fn tail_expr(block: &syn::Block) -> Option<&Expr> {
  match block.stmts.last()? {
    Stmt::Expr(e, None) => Some(e),
    _ => None,
  }
}

fn unblock(e: &Expr) -> &Expr {
  if let Expr::Block(b) = e {
    if b.block.stmts.len() == 1 {
      if let Some(t) = tail_expr(&b.block) {
        return unblock(t);
      }
    }
  }
  e
}

/// the hand-written `impl Deserialize for E`: `let s = String::deserialize(d)?; match <scrut> { "k" => Ok(E::V), .. _ => .. }`
fn custom_de(im: &syn::ItemImpl) -> Value {
  let Some(ImplItem::Fn(f)) = im.items.iter().find(|i| matches!(i, ImplItem::Fn(m) if m.sig.ident == "deserialize")) else {
    return json!({"scrut": "other:no-fn", "arms": [], "fallback": null});
  };
  let src = f.block.stmts.first().map(|s| norm(s)).unwrap_or_default();
  let Some(Expr::Match(m)) = tail_expr(&f.block) else {
    return json!({"scrut": "other:no-match", "arms": [], "fallback": null});
  };
  let scrut_txt = norm(&m.expr);
  let scrut = if f.block.stmts.len() != 2 || src != "lets=String::deserialize(deserializer)?;" {
    format!("other:{src}")
  } else if scrut_txt == "s.to_ascii_lowercase().as_str()" {
    "lower".to_string()
  } else if scrut_txt == "s.as_str()" {
    "exact".to_string()
  } else {
    format!("other:{scrut_txt}")
  };
  let mut arms = vec![];
  let mut fallback = Value::Null;
  let mut odd = vec![];
  let mut closed = false;
  for arm in &m.arms {
    if closed {
      break; // arms after `_` are unreachable
    }
    if arm.guard.is_some() {
      odd.push(format!("guard:{}", norm(&arm.pat)));
    }
    let body = unblock(&arm.body);
    match &arm.pat {
      Pat::Lit(l) => match (lit_str(&Expr::Lit(l.clone())), ok_variant(body)) {
        (Some(k), Some(v)) => arms.push(json!([k, v])),
        (Some(k), None) => arms.push(json!([k, Value::Null])),
        _ => odd.push(format!("pat:{}", norm(&arm.pat))),
      },
      Pat::Wild(_) => {
        closed = true;
        if let Some(v) = ok_variant(body) {
          fallback = json!(v);
        } else if !norm(body).starts_with("Err(") {
          odd.push(format!("wild-body:{}", norm(body)));
        }
      }
      other => odd.push(format!("pat:{}", norm(other))),
    }
  }
  let mut o = json!({"scrut": scrut, "arms": arms, "fallback": fallback});
  if !odd.is_empty() {
    o["odd"] = json!(odd);
  }
  o
}

/// `impl Display for E`: `Self::V => write!(f, "lit")` arms
fn display_arms(im: &syn::ItemImpl) -> Value {
  let Some(ImplItem::Fn(f)) = im.items.iter().find(|i| matches!(i, ImplItem::Fn(m) if m.sig.ident == "fmt")) else {
    return Value::Null;
  };
  let Some(Expr::Match(m)) = tail_expr(&f.block) else { return Value::Null };
  let mut out = vec![];
  for arm in &m.arms {
    let v = match &arm.pat {
      Pat::Path(p) => p.path.segments.last().map(|s| s.ident.to_string()),
      Pat::TupleStruct(p) => p.path.segments.last().map(|s| format!("{}(v)", s.ident)),
      _ => None,
    };
    let text = match unblock(&arm.body) {
      Expr::Macro(mac) if mac.mac.path.is_ident("write") => {
        let args = mac.mac.parse_body_with(syn::punctuated::Punctuated::<Expr, syn::Token![,]>::parse_terminated).ok();
        args.and_then(|a| if a.len() == 2 { lit_str(&a[1]) } else { None })
      }
      _ => None,
    };
    out.push(json!([v, text]));
  }
  json!(out)
}

fn impl_for<'a>(file: &'a syn::File, name: &str, tr_last: &str) -> Option<&'a syn::ItemImpl> {
  file.items.iter().find_map(|it| match it {
    Item::Impl(im)
      if norm(&im.self_ty) == name
        && im.trait_.as_ref().is_some_and(|(_, p, _)| p.segments.last().is_some_and(|s| s.ident == tr_last)) =>
    {
      Some(im)
    }
    _ => None,
  })
}

fn enum_facts(file: &syn::File, e: &syn::ItemEnum) -> Value {
  let name = e.ident.to_string();
  let mut odd = vec![];
  let variants: Vec<Value> = e
    .variants
    .iter()
    .map(|v| {
      let (rename, aliases, o) = serde_variant_attrs(&v.attrs);
      odd.extend(o);
      if !v.fields.is_empty() {
        odd.push(format!("payload:{}", v.ident));
      }
      json!({"name": v.ident.to_string(), "rename": rename, "aliases": aliases})
    })
    .collect();
  let derives = derives_of(&e.attrs);
  for a in &e.attrs {
    if a.path().is_ident("serde") {
      odd.push(format!("enum-attr:{}", norm(&a.meta)));
    }
  }
  let de = if derives.iter().any(|d| d == "Deserialize") {
    if impl_for(file, &name, "Deserialize").is_some() {
      odd.push("derive+custom-deserialize".to_string());
    }
    json!("derive")
  } else if let Some(im) = impl_for(file, &name, "Deserialize") {
    custom_de(im)
  } else {
    json!("none")
  };
  let display = impl_for(file, &name, "Display").map_or(Value::Null, display_arms);
  let mut o = json!({
    "name": name, "variants": variants, "ser": derives.iter().any(|d| d == "Serialize"), "de": de, "display": display,
  });
  if !odd.is_empty() {
    o["odd"] = json!(odd);
  }
  o
}

fn find_enum<'a>(file: &'a syn::File, name: &str) -> Option<&'a syn::ItemEnum> {
  file.items.iter().find_map(|it| match it {
    Item::Enum(e) if e.ident == name => Some(e),
    _ => None,
  })
}

/// text of every item that belongs to one of `names` (the enum, its impls), for the arena
fn items_text(file: &syn::File, names: &[String]) -> String {
  let mut keep = vec![];
  for it in &file.items {
    let hit = match it {
      Item::Enum(e) => names.iter().any(|n| e.ident == n),
      Item::Impl(im) => names.iter().any(|n| norm(&im.self_ty) == *n),
      _ => false,
    };
    if hit {
      keep.push(it.clone());
    }
  }
  let f = syn::File { shebang: None, attrs: vec![], items: keep };
  prettyplease::unparse(&f)
}

pub fn emitted_facts(code: &str, target: &str, want_code: bool) -> Value {
  let file = match syn::parse_file(code) {
    Ok(f) => f,
    Err(e) => return json!({"err": format!("emitted types file does not parse: {e}")}),
  };
  let Some(outer) = find_enum(&file, target) else {
    let alias = file.items.iter().find_map(|it| match it {
      Item::Type(t) if t.ident == target => Some(norm(&t.ty)),
      _ => None,
    });
    return json!({"enum": null, "open": false, "alias": alias});
  };
  let untagged = has_serde_flag(&outer.attrs, "untagged");
  let mut names = vec![target.to_string()];
  let (facts, open) = if untagged {
    // Known(T) / Other(String) wrapper
    let vs: Vec<(String, Vec<String>)> =
      outer.variants.iter().map(|v| (v.ident.to_string(), v.fields.iter().map(|f| norm(&f.ty)).collect())).collect();
    let shape_ok = vs.len() == 2
      && vs[0].0 == "Known"
      && vs[0].1.len() == 1
      && vs[1].0 == "Other"
      && vs[1].1 == vec!["String".to_string()]
      && outer.variants.iter().all(|v| serde_variant_attrs(&v.attrs).0.is_none() && serde_variant_attrs(&v.attrs).1.is_empty())
      && derives_of(&outer.attrs).iter().any(|d| d == "Serialize")
      && derives_of(&outer.attrs).iter().any(|d| d == "Deserialize");
    if !shape_ok {
      return json!({"enum": null, "open": format!("odd:{vs:?}")});
    }
    let inner = vs[0].1[0].clone();
    names.push(inner.clone());
    match find_enum(&file, &inner) {
      Some(e) => (enum_facts(&file, e), json!(true)),
      None => return json!({"enum": null, "open": format!("odd:inner {inner} missing")}),
    }
  } else {
    (enum_facts(&file, outer), json!(false))
  };
  let mut o = json!({"enum": facts, "open": open});
  if want_code {
    o["code"] = json!(items_text(&file, &names));
  }
  o
}

/// ships the real per-char transliteration of every non-ASCII char of the values (the model takes
/// `any_ascii` as a parameter)
fn add_tr(input: &mut Value) {
  let mut tr = serde_json::Map::new();
  if let Some(vs) = input["values"].as_array() {
    for c in vs.iter().filter_map(Value::as_str).flat_map(str::chars) {
      if !c.is_ascii() {
        tr.insert(c.to_string(), Value::String(any_ascii::any_ascii_char(c).to_string()));
      }
    }
  }
  if !tr.is_empty() {
    input["tr"] = Value::Object(tr);
  }
}

pub fn eval(op: &str, input: &mut Value) -> OpResult {
  add_tr(input);
  match op {
    "enum.build" => {
      let entries: Vec<EnumValueEntry> = input["values"]
        .as_array()
        .ok_or("no values")?
        .iter()
        .map(|v| EnumValueEntry { value: v.clone(), docs: Documentation::default(), deprecated: false })
        .collect();
      let strategy = if input["strategy"] == "preserve" { CollisionStrategy::Preserve } else { CollisionStrategy::Deduplicate };
      let ci = input["ci"].as_bool().unwrap_or(false);
      let ty = ValueEnumBuilder::new(ci).build_enum_from_values("E", &entries, strategy, Documentation::default());
      let RustType::Enum(def) = ty else { return Err("not an enum".into()) };
      let variants: Vec<Value> = def
        .variants
        .iter()
        .map(|v| {
          let aliases: Vec<String> =
            v.serde_attrs.iter().filter_map(|a| if let SerdeAttribute::Alias(s) = a { Some(s.clone()) } else { None }).collect();
          json!({"name": v.name.to_string(), "rename": v.serde_name(), "aliases": aliases})
        })
        .collect();
      Ok(json!({"variants": variants, "ci": def.case_insensitive, "fallback": def.fallback_variant().map(|v| v.name.to_string())}))
    }
    "enum.gen" => {
      let (files, _stats) = match k_gen::generate(input) {
        Ok(x) => x,
        Err(e) => return Ok(json!({"err": e})),
      };
      let types = files.get("types").ok_or("no types file")?;
      let want_code = input["want"].as_array().is_some_and(|a| a.iter().any(|x| x == "code"));
      let target = input["target"].as_str().unwrap_or("E").to_string();
      let out = emitted_facts(types, &target, want_code);
      // the spec is derived data: do not echo it back
      if let Some(o) = input.as_object_mut() {
        o.remove("spec");
      }
      Ok(out)
    }
    _ => Err(format!("unknown-op:{op}")),
  }
}
