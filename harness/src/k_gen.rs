//! Whole-pipeline adapter (tie E, in-process): spec JSON + CLI-equivalent config -> emitted files
//! -> syn facts.  Mirrors `GenerateConfig::create_orchestrator` in ui/commands/generate.rs.
use std::collections::{HashMap, HashSet};

use serde_json::{Map, Value, json};

use crate::{
  OpResult, facts,
  generator::{
    ClientModMode, ClientMode, CodegenConfig, EnumCasePolicy, EnumDeserializePolicy, EnumHelperPolicy, GenerationMode,
    GenerationTarget, HeaderScope, ODataPolicy, SchemaScope, ServerModMode, TypesMode,
    codegen::{GeneratedFileType, Visibility},
    orchestrator::Orchestrator,
  },
};

fn b(v: &Value, k: &str) -> bool {
  v.get(k).and_then(Value::as_bool).unwrap_or(false)
}

fn set_of(v: &Value) -> Option<HashSet<String>> {
  v.as_array()
    .map(|a| a.iter().filter_map(|x| x.as_str().map(str::to_string)).collect())
}

pub fn generate(input: &Value) -> Result<(HashMap<&'static str, String>, Value), String> {
  let spec_text = match &input["spec"] {
    Value::String(s) => s.clone(),
    other => other.to_string(),
  };
  let spec: oas3::Spec = serde_json::from_str::<oas3::OpenApiV3Spec>(&spec_text).map_err(|e| format!("spec-parse: {e}"))?;
  let cfg = &input["cfg"];
  let mode = input["mode"].as_str().unwrap_or("client-mod");
  let enum_mode = cfg.get("enum_mode").and_then(Value::as_str).unwrap_or("merge");
  let (preserve, relaxed) = match enum_mode {
    "preserve" => (true, false),
    "relaxed" => (false, true),
    _ => (false, false),
  };
  let customizations: HashMap<String, String> = cfg
    .get("customize")
    .and_then(Value::as_object)
    .map(|m| m.iter().filter_map(|(k, v)| v.as_str().map(|s| (k.clone(), s.to_string()))).collect())
    .unwrap_or_default();
  let config = CodegenConfig::builder()
    .enum_case(if preserve { EnumCasePolicy::Preserve } else { EnumCasePolicy::Deduplicate })
    .enum_helpers(if b(cfg, "no_helpers") { EnumHelperPolicy::Disable } else { EnumHelperPolicy::Generate })
    .enum_deserialize(if relaxed { EnumDeserializePolicy::CaseInsensitive } else { EnumDeserializePolicy::CaseSensitive })
    .odata(if b(cfg, "odata") { ODataPolicy::Enabled } else { ODataPolicy::Disabled })
    .target(if mode == "server-mod" { GenerationTarget::Server } else { GenerationTarget::Client })
    .schema_scope(if b(cfg, "all_schemas") { SchemaScope::All } else { SchemaScope::ReferencedOnly })
    .header_scope(if b(cfg, "all_headers") { HeaderScope::All } else { HeaderScope::ReferencedOnly })
    .enable_builders(b(cfg, "builders"))
    .customizations(customizations)
    .build();
  let vis = match cfg.get("vis").and_then(Value::as_str).unwrap_or("public") {
    "crate" => Visibility::Crate,
    "file" => Visibility::File,
    _ => Visibility::Public,
  };
  let only = set_of(&input["only"]);
  let exclude = set_of(&input["exclude"]);
  let orch = Orchestrator::new(spec, vis, config, only.as_ref(), exclude.as_ref());
  let out = match mode {
    "types" => orch.generate(&TypesMode, "spec.json"),
    "client" => orch.generate(&ClientMode, "spec.json"),
    "server-mod" => orch.generate(&ServerModMode, "spec.json"),
    _ => orch.generate(&ClientModMode, "spec.json"),
  }
  .map_err(|e| format!("generate: {e:#}"))?;
  let mut files = HashMap::new();
  for (ft, name) in [
    (GeneratedFileType::Types, "types"),
    (GeneratedFileType::Client, "client"),
    (GeneratedFileType::Server, "server"),
    (GeneratedFileType::Module, "mod"),
  ] {
    if let Some(code) = out.code.code(&ft) {
      files.insert(name, code.clone());
    }
  }
  let s = &out.stats;
  let stats = json!({
    "types": s.types_generated, "structs": s.structs_generated, "enums": s.enums_generated,
    "aliases": s.type_aliases_generated, "operations": s.operations_converted, "webhooks": s.webhooks_converted,
    "cycles": s.cycle_details, "warnings": s.warnings.iter().map(|w| format!("{w}")).collect::<Vec<_>>(),
    "orphaned": s.orphaned_schemas_count, "client_methods": s.client_methods_generated, "client_headers": s.client_headers_generated,
  });
  Ok((files, stats))
}

pub fn eval(op: &str, input: &mut Value) -> OpResult {
  match op {
    "gen.run" => {
      let (files, stats) = match generate(input) {
        Ok(x) => x,
        Err(e) => return Ok(json!({"err": e})),
      };
      let want_code = input["want"].as_array().is_some_and(|a| a.iter().any(|x| x == "code"));
      let only_keys: Option<Vec<String>> = input["facts"].as_array().map(|a| a.iter().filter_map(|x| x.as_str().map(str::to_string)).collect());
      let mut fo = Map::new();
      let mut co = Map::new();
      for (name, code) in &files {
        let mut f = facts::file_facts(code);
        if let (Some(keys), Some(obj)) = (&only_keys, f.as_object_mut()) {
          obj.retain(|k, _| keys.iter().any(|x| x == k) || k == "parse_error");
        }
        fo.insert((*name).to_string(), f);
        if want_code {
          co.insert((*name).to_string(), Value::String(code.clone()));
        }
      }
      let mut ok = json!({"files": fo, "stats": stats});
      if want_code {
        ok["code"] = Value::Object(co);
      }
      Ok(json!({"ok": ok}))
    }
    _ => Err(format!("unknown-op:{op}")),
  }
}
