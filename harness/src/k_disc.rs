//! Discriminator kernel (property C14).
//!
//! `disc.run`: spec JSON (+ cfg / only) ->
//!   * K: the REAL `SchemaRegistry`: `mapping(name)` for every schema (the tag cache),
//!        `effective_mapping(schema)` for every schema with a discriminator, `parent(name)`, and the
//!        reachable set returned by `initialize`;
//!   * E: the REAL generator run in-process; the emitted `types` file is parsed with syn and the
//!        facts the property talks about are extracted: tag-dispatching enums (tag constant, variant
//!        list, `Deserialize` arms tag -> variant, `None` arm, `Serialize` arms), untagged enums, and
//!        for every struct the fields with their serde attributes and `#[default(..)]` literal.
use std::collections::{BTreeMap, HashSet};

use quote::ToTokens;
use serde_json::{Map, Value, json};
use syn::{Expr, ImplItem, Item, Pat};

use crate::{
  OpResult,
  facts::norm,
  generator::{
    converter::cache::SharedSchemaCache, metrics::GenerationStats, operation_registry::OperationRegistry,
    schema_registry::SchemaRegistry,
  },
  k_gen,
  utils::parse_schema_ref_path,
};

fn set_of(v: &Value) -> Option<HashSet<String>> {
  v.as_array()
    .map(|a| a.iter().filter_map(|x| x.as_str().map(str::to_string)).collect())
}

/// first `Self::V` path inside an expression
struct SelfVariant(Option<String>);
impl<'ast> syn::visit::Visit<'ast> for SelfVariant {
  fn visit_expr_path(&mut self, ep: &'ast syn::ExprPath) {
    if self.0.is_none() && ep.path.segments.len() == 2 && ep.path.segments[0].ident == "Self" {
      self.0 = Some(ep.path.segments[1].ident.to_string());
    }
    syn::visit::visit_expr_path(self, ep);
  }
}

fn self_variant(e: &Expr) -> Option<String> {
  let mut v = SelfVariant(None);
  syn::visit::Visit::visit_expr(&mut v, e);
  v.0
}

fn last_match(block: &syn::Block) -> Option<&syn::ExprMatch> {
  block.stmts.iter().rev().find_map(|s| match s {
    syn::Stmt::Expr(Expr::Match(m), _) => Some(m),
    _ => None,
  })
}

/// `Some("lit")` -> Ok(lit); `None` -> Err("none"); `Some(ident)` -> Err("other"); else Err(text)
fn de_pat(p: &Pat) -> Result<String, String> {
  match p {
    Pat::TupleStruct(ts) if norm(&ts.path) == "Some" && ts.elems.len() == 1 => match &ts.elems[0] {
      Pat::Lit(l) => match &l.lit {
        syn::Lit::Str(s) => Ok(s.value()),
        _ => Err(format!("odd:{}", norm(p))),
      },
      Pat::Ident(_) => Err("other".into()),
      _ => Err(format!("odd:{}", norm(p))),
    },
    Pat::Ident(i) if i.ident == "None" => Err("none".into()),
    Pat::Path(pp) if norm(&pp.path) == "None" => Err("none".into()),
    _ => Err(format!("odd:{}", norm(p))),
  }
}

fn attr_flags(attrs: &[syn::Attribute]) -> (Vec<String>, Option<String>, Option<String>) {
  // (serde flags, rename, #[default(..)] text)
  let mut flags = vec![];
  let mut rename = None;
  let mut default = None;
  for a in attrs {
    if a.path().is_ident("serde") {
      let _ = a.parse_nested_meta(|m| {
        let name = m.path.get_ident().map(ToString::to_string).unwrap_or_default();
        if m.input.peek(syn::Token![=]) {
          let v: syn::Lit = m.value()?.parse()?;
          if let syn::Lit::Str(s) = &v {
            if name == "rename" {
              rename = Some(s.value());
            } else {
              flags.push(format!("{name}={}", s.value()));
            }
          }
        } else {
          flags.push(name);
        }
        Ok(())
      });
    } else if a.path().is_ident("default") {
      if let Ok(l) = a.meta.require_list() {
        default = Some(crate::facts::norm_str(&l.tokens.to_string()));
      }
    }
  }
  flags.sort();
  (flags, rename, default)
}

/// `Some("x")` / `"x"` / `Some("x".to_string())` -> x
fn default_literal(text: &str) -> Option<String> {
  let e: Expr = syn::parse_str(text).ok()?;
  fn lit(e: &Expr) -> Option<String> {
    match e {
      Expr::Lit(l) => match &l.lit {
        syn::Lit::Str(s) => Some(s.value()),
        _ => None,
      },
      Expr::Call(c) if c.args.len() == 1 => lit(&c.args[0]),
      Expr::MethodCall(m) => lit(&m.receiver),
      Expr::Paren(p) => lit(&p.expr),
      _ => None,
    }
  }
  lit(&e)
}

pub fn emitted_facts(code: &str) -> Value {
  let file = match syn::parse_file(code) {
    Ok(f) => f,
    Err(e) => return json!({"parse_error": e.to_string()}),
  };
  let mut enums: BTreeMap<String, Value> = BTreeMap::new();
  let mut structs = Map::new();
  let mut tags: BTreeMap<String, String> = BTreeMap::new();
  let mut de: BTreeMap<String, Value> = BTreeMap::new();
  let mut ser: BTreeMap<String, Value> = BTreeMap::new();
  let mut venums = Map::new();
  let mut aliases = Map::new();
  for it in &file.items {
    match it {
      Item::Type(t) => {
        aliases.insert(t.ident.to_string(), json!(norm(&t.ty)));
      }
      Item::Enum(e) => {
        let (flags, _, _) = attr_flags(&e.attrs);
        // value enum: unit variants only, wire names from `rename`; anything else (payloads, `other`,
        // aliases, container-level rename_all …) is reported as null = "accepts unknown"
        if e.variants.iter().all(|v| matches!(v.fields, syn::Fields::Unit)) && !e.variants.is_empty() {
          let plain_container = flags.is_empty();
          let mut wires = vec![];
          let mut clean = plain_container;
          for v in &e.variants {
            let (vf, rename, _) = attr_flags(&v.attrs);
            if !vf.is_empty() {
              clean = false;
            }
            wires.push(rename.unwrap_or_else(|| v.ident.to_string()));
          }
          venums.insert(e.ident.to_string(), if clean { json!(wires) } else { Value::Null });
        }
        let variants: Vec<Value> = e
          .variants
          .iter()
          .map(|v| {
            let tys: Vec<String> = v.fields.iter().map(|f| norm(&f.ty)).collect();
            json!([v.ident.to_string(), tys.join(",")])
          })
          .collect();
        enums.insert(e.ident.to_string(), json!({"variants": variants, "untagged": flags.iter().any(|f| f == "untagged")}));
      }
      Item::Struct(s) => {
        let (flags, _, _) = attr_flags(&s.attrs);
        let fields: Vec<Value> = s
          .fields
          .iter()
          .map(|f| {
            let (ff, rename, default) = attr_flags(&f.attrs);
            let name = f.ident.as_ref().map(ToString::to_string).unwrap_or_default();
            let wire = rename.clone().unwrap_or_else(|| name.trim_start_matches("r#").to_string());
            json!({"name": name, "wire": wire, "ty": norm(&f.ty), "serde": ff,
                   "default": default.as_deref().and_then(default_literal), "default_raw": default})
          })
          .collect();
        structs.insert(s.ident.to_string(), json!({"serde": flags, "fields": fields}));
      }
      Item::Impl(im) => {
        let self_ty = norm(&im.self_ty);
        let tr = im.trait_.as_ref().map(|(_, p, _)| norm(p));
        for ii in &im.items {
          match ii {
            ImplItem::Const(c) if c.ident == "DISCRIMINATOR_FIELD" => {
              if let Expr::Lit(syn::ExprLit { lit: syn::Lit::Str(s), .. }) = &c.expr {
                tags.insert(self_ty.clone(), s.value());
              }
            }
            ImplItem::Fn(m) if m.sig.ident == "deserialize" && tr.as_deref().is_some_and(|t| t.starts_with("serde::Deserialize")) => {
              let Some(mx) = last_match(&m.block) else { continue };
              let scrut = norm(&mx.expr);
              let mut arms = vec![];
              let mut none = json!("absent");
              let mut other = json!("absent");
              let mut odd = vec![];
              let mut seen_none_or_other = false;
              for arm in &mx.arms {
                match de_pat(&arm.pat) {
                  Ok(tag) => {
                    if seen_none_or_other {
                      odd.push(format!("literal arm after catch-all: {tag}"));
                    }
                    let body = norm(&arm.body);
                    let ok_shape = body.contains("serde_json::from_value(value)");
                    match self_variant(&arm.body) {
                      Some(v) if ok_shape => arms.push(json!([tag, v])),
                      _ => odd.push(format!("arm {tag}: {body}")),
                    }
                  }
                  Err(k) if k == "none" => {
                    seen_none_or_other = true;
                    let body = norm(&arm.body);
                    none = match self_variant(&arm.body) {
                      Some(v) if body.contains("serde_json::from_value(value)") => json!(format!("fallback:{v}")),
                      _ if body.contains("missing_field") => json!("missing"),
                      _ => json!(format!("odd:{body}")),
                    };
                  }
                  Err(k) if k == "other" => {
                    seen_none_or_other = true;
                    let body = norm(&arm.body);
                    other = if body.starts_with("Err(") || body.starts_with("{Err(") { json!("err") } else { json!(format!("odd:{body}")) };
                  }
                  Err(k) => odd.push(k),
                }
              }
              if arm_guarded(mx) {
                odd.push("guarded arm".into());
              }
              de.insert(self_ty.clone(), json!({"scrutinee": scrut, "arms": arms, "none": none, "other": other, "odd": odd}));
            }
            ImplItem::Fn(m) if m.sig.ident == "serialize" && tr.as_deref() == Some("serde::Serialize") => {
              let Some(mx) = last_match(&m.block) else { continue };
              let mut arms = vec![];
              for arm in &mx.arms {
                let pat = norm(&arm.pat);
                let body = norm(&arm.body);
                let v = pat.strip_prefix("Self::").and_then(|r| r.split_once('(')).map(|(v, _)| v.to_string());
                match v {
                  Some(v) if body == "v.serialize(serializer)" => arms.push(json!(v)),
                  _ => arms.push(json!(format!("odd:{pat}=>{body}"))),
                }
              }
              ser.insert(self_ty.clone(), Value::Array(arms));
            }
            _ => {}
          }
        }
      }
      _ => {}
    }
  }
  let mut eo = Map::new();
  for (name, mut e) in enums {
    if let Some(t) = tags.get(&name) {
      e["tag"] = json!(t);
      e["de"] = de.get(&name).cloned().unwrap_or(Value::Null);
      e["ser"] = ser.get(&name).cloned().unwrap_or(Value::Null);
      eo.insert(name, e);
    } else if e["untagged"] == true {
      eo.insert(name, e);
    }
  }
  json!({"enums": eo, "structs": structs, "venums": venums, "aliases": aliases})
}

/// `Option<T>` / `Box<T>` / `Vec<T>` -> (wrapper ident, T)
fn peel(t: &syn::Type) -> Option<(String, syn::Type)> {
  let syn::Type::Path(tp) = t else { return None };
  let seg = tp.path.segments.last()?;
  let syn::PathArguments::AngleBracketed(ab) = &seg.arguments else { return None };
  if ab.args.len() != 1 {
    return None;
  }
  let syn::GenericArgument::Type(inner) = &ab.args[0] else { return None };
  Some((seg.ident.to_string(), inner.clone()))
}

/// The type the emitted code has at each requested use site, peeled down to its core:
/// `Option`/`Box` dropped, `Vec` counted, type aliases followed; `kind` = decoding discipline of the core.
pub fn site_types(code: &str, facts: &Value, sites: &Value) -> Value {
  let Ok(file) = syn::parse_file(code) else { return Value::Null };
  let mut alias: BTreeMap<String, syn::Type> = BTreeMap::new();
  let mut structs: BTreeMap<String, &syn::ItemStruct> = BTreeMap::new();
  let mut enums: BTreeMap<String, &syn::ItemEnum> = BTreeMap::new();
  for it in &file.items {
    match it {
      Item::Type(t) => {
        alias.insert(t.ident.to_string(), (*t.ty).clone());
      }
      Item::Struct(s) => {
        structs.insert(s.ident.to_string(), s);
      }
      Item::Enum(e) => {
        enums.insert(e.ident.to_string(), e);
      }
      _ => {}
    }
  }
  let upper = |s: &str| {
    let mut c = s.chars();
    c.next().map(|f| f.to_uppercase().collect::<String>() + c.as_str()).unwrap_or_default()
  };
  let field_ty = |st: &str, wire: &str| -> Option<syn::Type> {
    structs.get(st)?.fields.iter().find_map(|f| {
      let (_, rename, _) = attr_flags(&f.attrs);
      let name = f.ident.as_ref().map(ToString::to_string).unwrap_or_default();
      let w = rename.unwrap_or_else(|| name.trim_start_matches("r#").to_string());
      (w == wire).then(|| f.ty.clone())
    })
  };
  let mut out = vec![];
  for s in sites.as_array().cloned().unwrap_or_default() {
    let at = &s["at"];
    let g = |k: &str| at[k].as_str().unwrap_or_default().to_string();
    let start: Option<syn::Type> = match at["k"].as_str().unwrap_or_default() {
      "named" => syn::parse_str::<syn::Type>(&g("name")).ok().filter(|_| {
        let n = g("name");
        alias.contains_key(&n) || structs.contains_key(&n) || enums.contains_key(&n)
      }),
      "field" => field_ty(&g("holder"), &g("field")),
      "body" => field_ty(&format!("{}Request", upper(&g("op"))), "body"),
      "resp" => {
        // the response enum is the one `parse_response` of the operation's request struct returns
        // (operations with equal response shapes share one enum)
        let req = format!("{}Request", upper(&g("op")));
        let ret = file.items.iter().find_map(|it| match it {
          Item::Impl(im) if im.trait_.is_none() && norm(&im.self_ty) == req => im.items.iter().find_map(|ii| match ii {
            ImplItem::Fn(m) if m.sig.ident == "parse_response" => match &m.sig.output {
              syn::ReturnType::Type(_, t) => peel(t).map(|(_, inner)| norm(&inner)),
              _ => None,
            },
            _ => None,
          }),
          _ => None,
        });
        ret.and_then(|r| enums.get(&r)).and_then(|e| {
          e.variants.iter().find(|v| v.ident == "Ok").and_then(|v| v.fields.iter().next().map(|f| f.ty.clone()))
        })
      }
      _ => None,
    };
    let Some(mut t) = start else {
      out.push(json!({"id": s["id"], "ty": Value::Null, "vec": 0, "core": "", "kind": "missing"}));
      continue;
    };
    let raw = norm(&t);
    let mut vec = 0;
    let mut odd = false;
    for _ in 0..16 {
      if let Some((w, inner)) = peel(&t) {
        match w.as_str() {
          "Option" | "Box" => t = inner,
          "Vec" => {
            vec += 1;
            t = inner;
          }
          _ => {
            odd = true;
            break;
          }
        }
        continue;
      }
      let name = norm(&t);
      if let Some(a) = alias.get(&name) {
        t = a.clone();
        continue;
      }
      break;
    }
    let core = norm(&t);
    let kind = if odd {
      "other"
    } else if core == "serde_json::Value" {
      "value"
    } else if let Some(e) = facts["enums"].get(&core) {
      if e["untagged"] == true { "untagged" } else { "tag" }
    } else if structs.contains_key(&core) {
      "struct"
    } else if enums.contains_key(&core) {
      "enum-other"
    } else {
      "other"
    };
    out.push(json!({"id": s["id"], "ty": raw, "vec": vec, "core": core, "kind": kind}));
  }
  Value::Array(out)
}

fn arm_guarded(m: &syn::ExprMatch) -> bool {
  m.arms.iter().any(|a| a.guard.is_some())
}

fn registry_facts(input: &Value) -> Result<Value, String> {
  let spec_text = match &input["spec"] {
    Value::String(s) => s.clone(),
    other => other.to_string(),
  };
  let spec: oas3::Spec = serde_json::from_str::<oas3::OpenApiV3Spec>(&spec_text).map_err(|e| format!("spec-parse: {e}"))?;
  let only = set_of(&input["only"]);
  let exclude = set_of(&input["exclude"]);
  let include_all = input["cfg"].get("all_schemas").and_then(Value::as_bool).unwrap_or(false);
  let ops = OperationRegistry::with_filters(&spec, only.as_ref(), exclude.as_ref());
  let mut stats = GenerationStats::default();
  let mut reg = SchemaRegistry::new(&spec, &mut stats);
  let mut cache = SharedSchemaCache::new();
  cache.initialize_from_schemas(reg.schemas());
  let fps = cache.union_fingerprints().clone();
  let (_cycles, reach) = reg.initialize(&ops, include_all, &fps);
  let names: Vec<String> = reg.keys().into_iter().cloned().collect();
  let mut tagcache = vec![];
  let mut eff = Map::new();
  let mut parents = Map::new();
  for n in &names {
    if let Some(m) = reg.mapping(n) {
      tagcache.push(json!([n, m.field_name, m.field_value]));
    }
    if let Some(p) = reg.parent(n) {
      parents.insert(n.clone(), json!(p));
    }
    if let Some(s) = reg.get(n) {
      if s.discriminator.is_some() {
        let v = match reg.effective_mapping(s) {
          Some(m) => Value::Array(
            m.iter()
              .map(|(t, r)| json!([t, parse_schema_ref_path(r).unwrap_or_else(|| format!("?{r}"))]))
              .collect(),
          ),
          None => Value::Null,
        };
        eff.insert(n.clone(), v);
      }
    }
  }
  Ok(json!({
    "cache": tagcache, "effective": eff, "parents": parents,
    "reach": reach.map(|r| r.into_iter().collect::<Vec<_>>()),
    "warnings": stats.warnings.iter().map(|w| format!("{w}")).collect::<Vec<_>>(),
  }))
}

/// `rename`: {canonical schema name: spelling used in the document}.  The document is rewritten (schema keys, `$ref`
/// values, discriminator mapping targets as pointers or bare names) before it reaches the generator; the spellings are
/// chosen by the check such that `to_rust_type_name(spelling) == canonical`, so everything read from the EMITTED code is
/// in canonical names already; the registry facts (schema-level names) are mapped back here.
fn rename_spec(v: &mut Value, map: &Map<String, Value>, in_mapping: bool) {
  match v {
    Value::Object(o) => {
      if let Some(Value::Object(comps)) = o.get_mut("components") {
        if let Some(Value::Object(schemas)) = comps.get_mut("schemas") {
          let old = std::mem::take(schemas);
          for (k, val) in old {
            let nk = map.get(&k).and_then(Value::as_str).map_or(k.clone(), str::to_string);
            schemas.insert(nk, val);
          }
        }
      }
      for (k, val) in o.iter_mut() {
        if k == "$ref" || in_mapping {
          if let Value::String(s) = val {
            if let Some(name) = s.strip_prefix("#/components/schemas/") {
              if let Some(n) = map.get(name).and_then(Value::as_str) {
                *s = format!("#/components/schemas/{n}");
              }
            } else if in_mapping {
              if let Some(n) = map.get(s.as_str()).and_then(Value::as_str) {
                *s = n.to_string();
              }
            }
          }
        } else {
          rename_spec(val, map, k == "mapping");
        }
      }
    }
    Value::Array(a) => a.iter_mut().for_each(|x| rename_spec(x, map, false)),
    _ => {}
  }
}

fn rename_back(v: &mut Value, back: &BTreeMap<String, String>) {
  match v {
    Value::String(s) => {
      if let Some(c) = back.get(s.as_str()) {
        *s = c.clone();
      }
    }
    Value::Array(a) => a.iter_mut().for_each(|x| rename_back(x, back)),
    Value::Object(o) => {
      let old = std::mem::take(o);
      for (k, mut val) in old {
        rename_back(&mut val, back);
        o.insert(back.get(&k).cloned().unwrap_or(k), val);
      }
    }
    _ => {}
  }
}

pub fn eval(op: &str, input: &mut Value) -> OpResult {
  match op {
    "disc.run" | "disc.code" | "disc.site" | "disc.sitecode" => {
      // the request is echoed to the model as it came: work on a copy
      let mut local = input.clone();
      let input = &mut local;
      let mut back: BTreeMap<String, String> = BTreeMap::new();
      if let Some(Value::Object(map)) = input.get("rename").cloned() {
        for (c, o) in &map {
          if let Some(o) = o.as_str() {
            back.insert(o.to_string(), c.clone());
          }
        }
        if let Some(spec) = input.get_mut("spec") {
          rename_spec(spec, &map, false);
        }
      }
      let mut reg = match registry_facts(input) {
        Ok(v) => v,
        Err(e) => return Ok(json!({"err": e})),
      };
      if !back.is_empty() {
        // tag VALUES and warnings are not names: only the name-carrying parts are mapped back
        for k in ["parents", "reach"] {
          rename_back(&mut reg[k], &back);
        }
        if let Some(eff) = reg["effective"].as_object_mut() {
          let old = std::mem::take(eff);
          for (k, mut rows) in old {
            for row in rows.as_array_mut().into_iter().flatten() {
              if let Some(n) = row.get_mut(1) {
                rename_back(n, &back);
              }
            }
            eff.insert(back.get(&k).cloned().unwrap_or(k), rows);
          }
        }
        for row in reg["cache"].as_array_mut().into_iter().flatten() {
          if let Some(n) = row.get_mut(0) {
            rename_back(n, &back);
          }
        }
      }
      let (files, stats) = match k_gen::generate(input) {
        Ok(x) => x,
        Err(e) => return Ok(json!({"err": e})),
      };
      let types = files.get("types").ok_or("no types file")?;
      let f = emitted_facts(types);
      if let Some(e) = f.get("parse_error") {
        return Ok(json!({"err": format!("emitted types file does not parse: {e}")}));
      }
      let mut out = json!({"registry": reg, "emitted": f, "gen_warnings": stats["warnings"]});
      if op == "disc.site" || op == "disc.sitecode" {
        out["sites"] = site_types(types, &out["emitted"], &input["sites"]);
      }
      if op == "disc.code" || op == "disc.sitecode" {
        out["code"] = json!(types);
      }
      Ok(out)
    }
    _ => Err(format!("unknown-op:{op}")),
  }
}
