//! Kernel harness (tie K): compiles /repo's CURRENT generator sources into itself via #[path]
//! and evaluates `{"op","in"}` requests (one JSON per line on stdin) on the real functions,
//! answering `{"op","in","impl"}` lines.  A panic inside the implementation is caught per case and
//! reported as `{"panic": msg}`.  Adapters are cargo features so that a broken adapter can be
//! left out (bin/check falls back to per-property feature sets when the full build fails).
#![allow(dead_code, unused_imports, unused_variables, clippy::all, clippy::pedantic)]
#[path = "/repo/crates/oas3-gen/src/generator/mod.rs"]
mod generator;
#[path = "/repo/crates/oas3-gen/src/utils/mod.rs"]
mod utils;

use std::io::{BufRead, Write};

use serde_json::{Value, json};

#[cfg(feature = "k_naming")]
mod k_naming;
#[cfg(any(feature = "k_gen", feature = "k_valid"))]
mod k_gen;
#[cfg(feature = "k_path")]
mod k_path;
#[cfg(feature = "k_gen")]
mod k_graph;
#[cfg(any(feature = "k_gen", feature = "k_path"))]
mod facts;
#[cfg(feature = "k_gen")]
mod k_resp;
#[cfg(feature = "k_gen")]
mod k_req;
#[cfg(feature = "k_gen")]
mod k_lex;
#[cfg(feature = "k_gen")]
mod k_route;
#[cfg(feature = "k_dflt")]
mod k_dflt;
#[cfg(feature = "k_enum")]
mod k_enum;
#[cfg(feature = "k_cache")]
mod k_cache;
#[cfg(feature = "k_disc")]
mod k_disc;
#[cfg(feature = "k_valid")]
mod k_valid;
#[cfg(feature = "k_codec")]
mod k_codec;
#[cfg(feature = "k_comp")]
mod k_comp;

pub type OpResult = Result<Value, String>;

fn dispatch(op: &str, input: &mut Value) -> OpResult {
  let (ns, _) = op.split_once('.').unwrap_or((op, ""));
  #[cfg(feature = "k_gen")]
  if op == "naming.scopes" {
    return k_graph::eval("graph.emit", input);
  }
  #[cfg(feature = "k_gen")]
  if op.starts_with("interop.req") {
    return k_req::eval(op, input);
  }
  match ns {
    #[cfg(feature = "k_naming")]
    "naming" => k_naming::eval(op, input),
    #[cfg(feature = "k_path")]
    "path" => k_path::eval(op, input),
    #[cfg(feature = "k_gen")]
    "gen" => k_gen::eval(op, input),
    #[cfg(feature = "k_disc")]
    "disc" => k_disc::eval(op, input),
    #[cfg(feature = "k_gen")]
    "resp" => k_resp::eval(op, input),
    // C20: how the event stream is obtained = the parse_response chain of a response set with text/event-stream
    #[cfg(feature = "k_gen")]
    "sse" if op == "sse.obtain" => k_resp::eval("resp.chain", input),
    #[cfg(feature = "k_gen")]
    "client" | "server" => k_resp::eval_op(op, input),
    #[cfg(feature = "k_gen")]
    "graph" | "registry" => k_graph::eval(op, input),
    #[cfg(feature = "k_gen")]
    "inject" => k_resp::eval_inject(op, input),
    #[cfg(feature = "k_gen")]
    "lex" => k_lex::eval(op, input),
    #[cfg(feature = "k_gen")]
    "route" => k_route::eval(op, input),
    #[cfg(feature = "k_gen")]
    "flags" => k_resp::eval_flags(op, input),
    #[cfg(feature = "k_gen")]
    "interop" => k_resp::eval_interop(op, input),
    #[cfg(feature = "k_dflt")]
    "dflt" => k_dflt::eval(op, input),
    #[cfg(feature = "k_enum")]
    "enum" => k_enum::eval(op, input),
    #[cfg(feature = "k_cache")]
    "cache" | "share" => k_cache::eval(op, input),
    #[cfg(feature = "k_valid")]
    "valid" => k_valid::eval(op, input),
    #[cfg(feature = "k_codec")]
    "codec" => k_codec::eval(op, input),
    #[cfg(feature = "k_comp")]
    "comp" => k_comp::eval(op, input),
    _ => Err(format!("unknown-op:{op}")),
  }
}

fn main() {
  std::panic::set_hook(Box::new(|_| {}));
  let stdin = std::io::stdin();
  let stdout = std::io::stdout();
  let mut out = std::io::BufWriter::new(stdout.lock());
  for line in stdin.lock().lines() {
    let Ok(line) = line else { break };
    if line.trim().is_empty() {
      continue;
    }
    let mut req: Value = match serde_json::from_str(&line) {
      Ok(v) => v,
      Err(e) => {
        writeln!(out, "{}", json!({"err": format!("bad-json: {e}")})).unwrap();
        continue;
      }
    };
    let op = req["op"].as_str().unwrap_or("").to_string();
    let mut input = req["in"].take();
    let res = std::panic::catch_unwind(std::panic::AssertUnwindSafe(|| dispatch(&op, &mut input)));
    let impl_v = match res {
      Ok(Ok(v)) => v,
      Ok(Err(e)) => json!({"err": e}),
      Err(p) => {
        let msg = p
          .downcast_ref::<String>()
          .cloned()
          .or_else(|| p.downcast_ref::<&str>().map(|s| (*s).to_string()))
          .unwrap_or_else(|| "panic".to_string());
        json!({"panic": msg})
      }
    };
    let mut o = json!({"op": op, "in": input, "impl": impl_v});
    if let Some(id) = req.get("id") {
      o["id"] = id.clone();
    }
    writeln!(out, "{o}").unwrap();
  }
  out.flush().unwrap();
}
