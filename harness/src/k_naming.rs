//! Naming kernel: the three sanitisers and the uniqueness helpers.
use std::collections::BTreeSet;

use serde_json::{Map, Value, json};

use crate::{
  OpResult,
  generator::naming::identifiers::{
    ensure_unique, ensure_unique_snake_case_id, to_rust_const_name, to_rust_field_name, to_rust_type_name,
  },
};

/// ships the real per-char transliteration with the case (the model takes `any_ascii` as a parameter)
fn add_tr(input: &mut Value, s: &str) {
  let mut tr = Map::new();
  for c in s.chars() {
    if !c.is_ascii() {
      tr.insert(c.to_string(), Value::String(any_ascii::any_ascii_char(c).to_string()));
    }
  }
  input["tr"] = Value::Object(tr);
}

pub fn eval(op: &str, input: &mut Value) -> OpResult {
  match op {
    "naming.field" | "naming.type" | "naming.const" => {
      let s = input["s"].as_str().ok_or("no s")?.to_string();
      add_tr(input, &s);
      let out = match op {
        "naming.field" => to_rust_field_name(&s),
        "naming.type" => to_rust_type_name(&s),
        _ => to_rust_const_name(&s),
      };
      Ok(Value::String(out))
    }
    "naming.ensure_unique" | "naming.ensure_unique_snake" => {
      let base = input["base"].as_str().ok_or("no base")?.to_string();
      let used: BTreeSet<String> = input["used"]
        .as_array()
        .ok_or("no used")?
        .iter()
        .filter_map(|v| v.as_str().map(str::to_string))
        .collect();
      let out = if op == "naming.ensure_unique" {
        ensure_unique(&base, &used)
      } else {
        ensure_unique_snake_case_id(&base, |c| used.contains(c))
      };
      Ok(Value::String(out))
    }
    _ => Err(format!("unknown-op:{op}")),
  }
}
