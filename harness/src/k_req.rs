//! C06, request side: the same spec through TWO separate generator runs (client-mod, server-mod); what the
//! client puts on the wire (method, URL push chain, query struct, header map, body encoder) and how the server
//! takes it off the wire (router entries, extractors, header lookup/parse expressions, body extractor), plus the
//! string codecs of every enum that travels as a path/query/header parameter (client `Display` arms and serde
//! renames; server `FromStr` arms WITH the form of the scrutinee, hand-written `Deserialize`).
//!
//! Nothing is defaulted: a construct this reader does not recognise is reported in `"unreadable"` and makes the
//! judge fail without a class.
//!
//! `interop.req.route` runs the real `matchit` crate (the router inside axum) on a (patterns, path) pair: the
//! K-level tie of the Lean `routeMatch`.
use quote::ToTokens;
use serde_json::{Map, Value, json};
use syn::{Expr, ImplItem, Item, Pat, Stmt};

use crate::{OpResult, facts, facts::norm, k_gen};

pub fn eval(op: &str, input: &mut Value) -> OpResult {
  match op {
    "interop.req" => eval_req(input),
    "interop.req.route" => eval_route(input),
    _ => Err(format!("unknown-op:{op}")),
  }
}

// ---------------------------------------------------------------------------------------------
// real matchit

fn eval_route(input: &Value) -> OpResult {
  let pats: Vec<String> = input["patterns"].as_array().map(|a| a.iter().filter_map(|x| x.as_str().map(str::to_string)).collect()).unwrap_or_default();
  let path = input["path"].as_str().ok_or("no path")?;
  let mut router = matchit::Router::new();
  let mut inserted = vec![];
  for (i, p) in pats.iter().enumerate() {
    match router.insert(p.clone(), i) {
      Ok(()) => inserted.push(Value::Null),
      Err(e) => inserted.push(json!(insert_err_kind(&e))),
    }
  }
  let at = match router.at(path) {
    Ok(m) => {
      let params: Vec<Value> = m.params.iter().map(|(k, v)| json!([k, v])).collect();
      json!({"index": *m.value, "params": params})
    }
    Err(_) => Value::Null,
  };
  Ok(json!({"insert": inserted, "at": at}))
}

fn insert_err_kind(e: &matchit::InsertError) -> &'static str {
  match e {
    matchit::InsertError::Conflict { .. } => "conflict",
    matchit::InsertError::InvalidParamSegment => "invalid-param-segment",
    matchit::InsertError::InvalidParam => "invalid-param",
    matchit::InsertError::InvalidCatchAll => "invalid-catch-all",
    _ => "other",
  }
}

// ---------------------------------------------------------------------------------------------
// small syn helpers

pub(crate) struct Unread(pub(crate) Vec<String>);
impl Unread {
  fn add(&mut self, what: &str, text: String) {
    let t: String = text.chars().take(200).collect();
    self.0.push(format!("{what}: {t}"));
  }
}

fn lit_str(e: &Expr) -> Option<String> {
  match e {
    Expr::Lit(syn::ExprLit { lit: syn::Lit::Str(s), .. }) => Some(s.value()),
    Expr::Reference(r) => lit_str(&r.expr),
    Expr::Paren(p) => lit_str(&p.expr),
    _ => None,
  }
}

/// `s.to_ascii_lowercase().as_str()` -> ("s", ["to_ascii_lowercase","as_str"]); references and parentheses are
/// transparent; a method call WITH arguments or any other expression form is not a chain.
fn method_chain(e: &Expr) -> Option<(String, Vec<String>)> {
  match e {
    Expr::Path(p) if p.path.segments.len() == 1 => Some((p.path.segments[0].ident.to_string(), vec![])),
    Expr::Reference(r) => method_chain(&r.expr),
    Expr::Paren(p) => method_chain(&p.expr),
    Expr::Unary(u) if matches!(u.op, syn::UnOp::Deref(_)) => method_chain(&u.expr),
    Expr::MethodCall(mc) if mc.args.is_empty() => {
      let (b, mut c) = method_chain(&mc.receiver)?;
      c.push(mc.method.to_string());
      Some((b, c))
    }
    _ => None,
  }
}

/// flatten `a.f(x).g(y)` into (base expr text, [(method, args)])
fn call_chain(e: &Expr) -> (String, Vec<(String, Vec<Expr>)>) {
  match e {
    Expr::MethodCall(mc) => {
      let (b, mut c) = call_chain(&mc.receiver);
      c.push((mc.method.to_string(), mc.args.iter().cloned().collect()));
      (b, c)
    }
    Expr::Paren(p) => call_chain(&p.expr),
    other => (norm(other), vec![]),
  }
}

fn variant_of_path(e: &Expr) -> Option<String> {
  if let Expr::Path(p) = e {
    let segs: Vec<String> = p.path.segments.iter().map(|s| s.ident.to_string()).collect();
    if segs.len() == 2 {
      return Some(segs[1].clone());
    }
  }
  None
}

/// arms of `match <scrutinee> { "lit" => Ok(Self::V), … , _ => … }`
fn str_match_json(m: &syn::ExprMatch, un: &mut Unread, what: &str) -> Value {
  let scrut = match method_chain(&m.expr) {
    Some((b, c)) => json!({"base": b, "chain": c}),
    None => {
      un.add(&format!("{what} scrutinee"), norm(&*m.expr));
      json!({"other": norm(&*m.expr)})
    }
  };
  let mut arms = vec![];
  let mut fallback = Value::Null;
  for arm in &m.arms {
    if arm.guard.is_some() {
      un.add(&format!("{what} arm guard"), norm(arm));
      continue;
    }
    let body = match &*arm.body {
      Expr::Block(b) if b.block.stmts.len() == 1 => match &b.block.stmts[0] {
        Stmt::Expr(e, None) => e.clone(),
        _ => (*arm.body).clone(),
      },
      e => e.clone(),
    };
    let target = match &body {
      Expr::Call(c) if norm(&*c.func) == "Ok" && c.args.len() == 1 => match variant_of_path(&c.args[0]) {
        Some(v) => json!({"ok": v}),
        None => {
          un.add(&format!("{what} arm body"), norm(&body));
          Value::Null
        }
      },
      Expr::Call(c) if norm(&*c.func) == "Err" => json!("err"),
      _ => {
        un.add(&format!("{what} arm body"), norm(&body));
        Value::Null
      }
    };
    let mut keys = vec![];
    let mut wild = false;
    fn pat_keys(p: &Pat, keys: &mut Vec<String>, wild: &mut bool) -> bool {
      match p {
        Pat::Lit(l) => match &l.lit {
          syn::Lit::Str(s) => {
            keys.push(s.value());
            true
          }
          _ => false,
        },
        Pat::Wild(_) => {
          *wild = true;
          true
        }
        Pat::Or(o) => o.cases.iter().all(|c| pat_keys(c, keys, wild)),
        Pat::Paren(pp) => pat_keys(&pp.pat, keys, wild),
        _ => false,
      }
    }
    if !pat_keys(&arm.pat, &mut keys, &mut wild) {
      un.add(&format!("{what} arm pattern"), norm(&arm.pat));
      continue;
    }
    for k in keys {
      arms.push(json!([k, target]));
    }
    if wild {
      fallback = target.clone();
    }
  }
  json!({"scrutinee": scrut, "arms": arms, "fallback": fallback})
}

struct SerdeAttrs {
  rename: Option<String>,
  aliases: Vec<String>,
  other: Vec<String>,
  serde_as: Option<String>,
}

fn serde_attrs(attrs: &[syn::Attribute]) -> SerdeAttrs {
  let mut out = SerdeAttrs { rename: None, aliases: vec![], other: vec![], serde_as: None };
  for a in attrs {
    if a.path().is_ident("serde") {
      let r = a.parse_nested_meta(|meta| {
        let key = meta.path.get_ident().map(ToString::to_string).unwrap_or_else(|| norm(&meta.path));
        if meta.input.peek(syn::Token![=]) {
          let v: syn::Lit = meta.value()?.parse()?;
          match (key.as_str(), &v) {
            ("rename", syn::Lit::Str(s)) => out.rename = Some(s.value()),
            ("alias", syn::Lit::Str(s)) => out.aliases.push(s.value()),
            _ => out.other.push(format!("{key}={}", v.to_token_stream())),
          }
        } else {
          if meta.input.peek(syn::token::Paren) {
            let content;
            syn::parenthesized!(content in meta.input);
            let _: proc_macro2::TokenStream = content.parse()?;
          }
          out.other.push(key);
        }
        Ok(())
      });
      if r.is_err() {
        out.other.push(norm(&a.meta));
      }
    } else if a.path().is_ident("serde_as") {
      let r = a.parse_nested_meta(|meta| {
        if meta.path.is_ident("as") || norm(&meta.path) == "as" {
          let v: syn::LitStr = meta.value()?.parse()?;
          out.serde_as = Some(v.value());
        } else {
          out.other.push(norm(&meta.path));
          if meta.input.peek(syn::Token![=]) {
            let _: syn::Lit = meta.value()?.parse()?;
          }
        }
        Ok(())
      });
      if r.is_err() {
        // `as` is a keyword: parse_nested_meta may refuse it; fall back to the token text
        let t = norm(&a.meta);
        if let Some(rest) = t.strip_prefix("serde_as(as=\"") {
          if let Some(v) = rest.strip_suffix("\")") {
            out.serde_as = Some(v.to_string());
            continue;
          }
        }
        out.other.push(t);
      }
    }
  }
  out
}

fn find_impl<'a>(file: &'a syn::File, trait_pred: impl Fn(&str) -> bool, self_ty: &str) -> Option<&'a syn::ItemImpl> {
  file.items.iter().find_map(|it| match it {
    Item::Impl(im) if norm(&*im.self_ty) == self_ty && im.trait_.as_ref().is_some_and(|(_, p, _)| trait_pred(&norm(p))) => Some(im),
    _ => None,
  })
}

fn impl_fn<'a>(im: &'a syn::ItemImpl, name: &str) -> Option<&'a syn::ImplItemFn> {
  im.items.iter().find_map(|ii| match ii {
    ImplItem::Fn(f) if f.sig.ident == name => Some(f),
    _ => None,
  })
}

// ---------------------------------------------------------------------------------------------
// enums

fn enum_json(file: &syn::File, name: &str, un: &mut Unread) -> Value {
  let Some(en) = file.items.iter().find_map(|it| match it {
    Item::Enum(e) if e.ident == name => Some(e),
    _ => None,
  }) else {
    return Value::Null;
  };
  let mut derives = vec![];
  let mut enum_serde_other = vec![];
  for a in &en.attrs {
    if a.path().is_ident("derive") {
      if let Ok(list) = a.meta.require_list() {
        if let Ok(paths) = list.parse_args_with(syn::punctuated::Punctuated::<syn::Path, syn::Token![,]>::parse_terminated) {
          for p in paths {
            derives.push(p.segments.last().map(|s| s.ident.to_string()).unwrap_or_default());
          }
        }
      }
    }
  }
  let sa = serde_attrs(&en.attrs);
  enum_serde_other.extend(sa.other.clone());
  if let Some(r) = &sa.rename {
    enum_serde_other.push(format!("rename={r}"));
  }
  let variants: Vec<Value> = en
    .variants
    .iter()
    .map(|v| {
      let s = serde_attrs(&v.attrs);
      let is_default = v.attrs.iter().any(|a| a.path().is_ident("default"));
      json!({"name": v.ident.to_string(), "unit": matches!(v.fields, syn::Fields::Unit), "rename": s.rename, "aliases": s.aliases,
             "serde_other": s.other, "default": is_default})
    })
    .collect();
  // Display
  let display = match find_impl(file, |t| t.ends_with("fmt::Display") || t == "Display", name).and_then(|im| impl_fn(im, "fmt")) {
    None => Value::Null,
    Some(f) => {
      let mut arms = vec![];
      match f.block.stmts.as_slice() {
        [Stmt::Expr(Expr::Match(m), _)] if norm(&*m.expr) == "self" => {
          for arm in &m.arms {
            let pat = norm(&arm.pat);
            let (variant, tuple) = match pat.strip_prefix("Self::") {
              Some(rest) => match rest.split_once('(') {
                Some((v, _)) => (v.to_string(), true),
                None => (rest.to_string(), false),
              },
              None => {
                un.add("Display arm pattern", pat.clone());
                continue;
              }
            };
            let body = match &*arm.body {
              Expr::Block(b) if b.block.stmts.len() == 1 => match &b.block.stmts[0] {
                Stmt::Expr(e, None) => e.clone(),
                _ => (*arm.body).clone(),
              },
              e => e.clone(),
            };
            let mut ok = false;
            if let Expr::Macro(mac) = &body {
              if mac.mac.path.is_ident("write") {
                let parsed = mac.mac.parse_body_with(|input: syn::parse::ParseStream| {
                  let dst: Expr = input.parse()?;
                  input.parse::<syn::Token![,]>()?;
                  let fmt: syn::LitStr = input.parse()?;
                  let rest: proc_macro2::TokenStream = input.parse()?;
                  Ok((norm(&dst), fmt.value(), rest.is_empty() || rest.to_string().trim() == ","))
                });
                if let Ok((dst, fmt, no_args)) = parsed {
                  if dst == "f" && no_args {
                    // a format string without arguments: `{{`/`}}` are escapes, any other brace is an inline argument
                    let unescaped = fmt.replace("{{", "\u{1}").replace("}}", "\u{2}");
                    if tuple {
                      arms.push(json!({"variant": variant, "tuple": true, "fmt": fmt}));
                      ok = true;
                    } else if !unescaped.contains('{') && !unescaped.contains('}') {
                      arms.push(json!({"variant": variant, "str": unescaped.replace('\u{1}', "{").replace('\u{2}', "}")}));
                      ok = true;
                    }
                  }
                }
              }
            }
            if !ok {
              un.add("Display arm body", norm(&body));
            }
          }
          json!({"arms": arms})
        }
        _ => {
          un.add("Display::fmt body", norm(&f.block));
          json!({"other": norm(&f.block)})
        }
      }
    }
  };
  // FromStr
  let from_str = match find_impl(file, |t| t.ends_with("str::FromStr") || t == "FromStr", name).and_then(|im| impl_fn(im, "from_str")) {
    None => Value::Null,
    Some(f) => {
      let arg = f.sig.inputs.iter().find_map(|a| match a {
        syn::FnArg::Typed(t) => Some(norm(&*t.pat)),
        syn::FnArg::Receiver(_) => None,
      });
      match f.block.stmts.as_slice() {
        [Stmt::Expr(Expr::Match(m), _)] => {
          let mut v = str_match_json(m, un, "FromStr");
          v["arg"] = json!(arg);
          v
        }
        _ => {
          un.add("FromStr::from_str body", norm(&f.block));
          json!({"other": norm(&f.block)})
        }
      }
    }
  };
  // hand-written Deserialize
  let deser = match find_impl(file, |t| t.contains("Deserialize<"), name).and_then(|im| impl_fn(im, "deserialize")) {
    None => {
      if derives.iter().any(|d| d == "Deserialize") {
        json!({"mode": "derive"})
      } else {
        json!({"mode": "none"})
      }
    }
    Some(f) => match f.block.stmts.as_slice() {
      [Stmt::Local(l), Stmt::Expr(Expr::Match(m), _)]
        if norm(&l.pat) == "s" && l.init.as_ref().is_some_and(|i| norm(&*i.expr) == "String::deserialize(deserializer)?") =>
      {
        let mut v = str_match_json(m, un, "Deserialize");
        v["mode"] = json!("custom");
        v["arg"] = json!("s");
        v
      }
      _ => {
        un.add("Deserialize::deserialize body", norm(&f.block));
        json!({"mode": "other"})
      }
    },
  };
  let ser = if derives.iter().any(|d| d == "Serialize") {
    json!({"mode": "derive"})
  } else if find_impl(file, |t| t.ends_with("Serialize"), name).is_some() {
    un.add("hand-written Serialize", name.to_string());
    json!({"mode": "other"})
  } else {
    json!({"mode": "none"})
  };
  json!({"variants": variants, "serde_other": enum_serde_other, "display": display, "from_str": from_str, "deserialize": deser, "serialize": ser})
}

// ---------------------------------------------------------------------------------------------
// structs (path / query / header parameter holders)

fn unwrap_generic<'a>(ty: &'a str, outer: &str) -> Option<&'a str> {
  ty.strip_prefix(outer).and_then(|r| r.strip_prefix('<')).and_then(|r| r.strip_suffix('>'))
}

fn type_json(file: &syn::File, ty: &str) -> Value {
  let mut t = ty;
  let mut optional = false;
  let mut array = false;
  if let Some(i) = unwrap_generic(t, "Option") {
    optional = true;
    t = i;
  }
  if let Some(i) = unwrap_generic(t, "Box") {
    t = i;
  }
  if let Some(i) = unwrap_generic(t, "Vec") {
    array = true;
    t = i;
  }
  let kind = match t {
    "String" => "string",
    "i8" | "i16" | "i32" | "i64" | "i128" | "isize" | "u8" | "u16" | "u32" | "u64" | "u128" | "usize" => "int",
    "f32" | "f64" => "float",
    "bool" => "bool",
    other => {
      if file.items.iter().any(|it| matches!(it, Item::Enum(e) if e.ident == other)) {
        "enum"
      } else {
        "other"
      }
    }
  };
  json!({"ty": ty, "optional": optional, "array": array, "kind": kind, "inner": t})
}

fn struct_fields(file: &syn::File, name: &str) -> Option<Vec<Value>> {
  let st = file.items.iter().find_map(|it| match it {
    Item::Struct(s) if s.ident == name => Some(s),
    _ => None,
  })?;
  let skip_none = st.attrs.iter().any(|a| norm(&a.meta).contains("skip_serializing_none"));
  let st_serde = serde_attrs(&st.attrs);
  Some(
    st.fields
      .iter()
      .map(|f| {
        let fname = f.ident.as_ref().map(ToString::to_string).unwrap_or_default();
        let sa = serde_attrs(&f.attrs);
        // serde key of a field: the rename, else the identifier without the raw prefix
        let key = sa.rename.clone().unwrap_or_else(|| fname.strip_prefix("r#").unwrap_or(&fname).to_string());
        let ty = norm(&f.ty);
        let mut v = type_json(file, &ty);
        v["field"] = json!(fname);
        v["key"] = json!(key);
        v["aliases"] = json!(sa.aliases);
        v["serde_as"] = json!(sa.serde_as);
        v["serde_other"] = json!(sa.other.iter().chain(st_serde.other.iter()).collect::<Vec<_>>());
        v["skip_none"] = json!(skip_none);
        v
      })
      .collect(),
  )
}

fn field_type(file: &syn::File, st: &str, field: &str) -> Option<String> {
  file.items.iter().find_map(|it| match it {
    Item::Struct(s) if s.ident == st => s.fields.iter().find(|f| f.ident.as_ref().is_some_and(|i| i == field)).map(|f| norm(&f.ty)),
    _ => None,
  })
}

fn consts(file: &syn::File, un: &mut Unread) -> Map<String, Value> {
  let mut out = Map::new();
  for it in &file.items {
    if let Item::Const(c) = it {
      if norm(&*c.ty).ends_with("HeaderName") {
        let e = norm(&*c.expr);
        let v = e.strip_prefix("http::HeaderName::from_static(").and_then(|r| r.strip_suffix(')')).and_then(|l| syn::parse_str::<syn::LitStr>(l).ok()).map(|l| l.value());
        match v {
          Some(v) => {
            out.insert(c.ident.to_string(), json!(v));
          }
          None => un.add("header name constant", e),
        }
      }
    }
  }
  out
}

// ---------------------------------------------------------------------------------------------
// header maps

/// client: `impl TryFrom<&H> for http::HeaderMap`
fn header_encode(file: &syn::File, st: &str, un: &mut Unread) -> Value {
  let want = format!("TryFrom<&{st}>");
  let Some(f) = find_impl(file, |t| t.ends_with(&want), "http::HeaderMap").and_then(|im| impl_fn(im, "try_from")) else {
    return Value::Null;
  };
  let mut out = vec![];
  fn value_form(e: &Expr) -> Option<(Value, String)> {
    // -> (form, accessor text)
    let t = norm(e);
    let t = t.trim_start_matches('&').to_string();
    if let Some(acc) = t.strip_suffix(".to_string()") {
      if !acc.contains('(') {
        return Some((json!({"form": "to_string"}), acc.to_string()));
      }
    }
    if !t.contains('(') {
      return Some((json!({"form": "str"}), t));
    }
    for mapper in ["|v|v.to_string()", "std::string::ToString::to_string", "ToString::to_string"] {
      let mid = format!(".iter().map({mapper}).collect::<Vec<_>>().join(");
      if let Some((acc, rest)) = t.split_once(&mid) {
        if let Some(sep) = rest.strip_suffix(')').and_then(|l| syn::parse_str::<syn::LitStr>(l).ok()) {
          if !acc.contains('(') {
            return Some((json!({"form": "join", "sep": sep.value()}), acc.to_string()));
          }
        }
      }
    }
    None
  }
  fn walk(stmts: &[Stmt], ctx: Option<&str>, out: &mut Vec<Value>, un: &mut Unread) {
    let mut pending: Option<(Value, String)> = None;
    for s in stmts {
      match s {
        Stmt::Local(l) if norm(&l.pat) == "mut map" || norm(&l.pat) == "map" => {}
        Stmt::Local(l) if norm(&l.pat) == "header_value" => {
          let init = l.init.as_ref().map(|i| (*i.expr).clone());
          let mut ok = false;
          if let Some(Expr::Try(t)) = &init {
            if let Expr::Call(c) = &*t.expr {
              if norm(&*c.func) == "http::HeaderValue::try_from" && c.args.len() == 1 {
                if let Some(vf) = value_form(&c.args[0]) {
                  pending = Some(vf);
                  ok = true;
                }
              }
            }
          }
          if !ok {
            un.add("header value expression", norm(l));
            // keep the insertion (constant, conditional or not) with the expression text: C03 names it
            let text = match &init {
              Some(Expr::Try(t)) => match &*t.expr {
                Expr::Call(c) if norm(&*c.func) == "http::HeaderValue::try_from" && c.args.len() == 1 => norm(&c.args[0]),
                e => norm(e),
              },
              Some(e) => norm(e),
              None => String::new(),
            };
            pending = Some((json!({"form": "other", "text": text}), String::new()));
          }
        }
        Stmt::Expr(Expr::MethodCall(mc), _) if mc.method == "insert" && norm(&*mc.receiver) == "map" && mc.args.len() == 2 && norm(&mc.args[1]) == "header_value" => {
          match pending.take() {
            Some((mut form, _)) if form["form"] == "other" => {
              // the member the expression starts from: the `if let` binding, or the leading `headers.<member>`
              let lead = form["text"].as_str().unwrap_or("").trim_start_matches('&').strip_prefix("headers.").map(|r| {
                r.chars().take_while(|c| c.is_alphanumeric() || *c == '_' || *c == '#').collect::<String>()
              });
              form["field"] = json!(ctx.map(str::to_string).or(lead));
              form["const"] = json!(norm(&mc.args[0]));
              form["optional"] = json!(ctx.is_some());
              out.push(form);
            }
            Some((form, acc)) => {
              let field = match ctx {
                Some(f) if acc == "value" => Some(f.to_string()),
                None => acc.strip_prefix("headers.").map(str::to_string),
                _ => None,
              };
              match field {
                Some(fld) => {
                  let mut v = form;
                  v["field"] = json!(fld);
                  v["const"] = json!(norm(&mc.args[0]));
                  v["optional"] = json!(ctx.is_some());
                  out.push(v);
                }
                None => un.add("header value accessor", acc),
              }
            }
            None => un.add("header insert without value", norm(mc)),
          }
        }
        Stmt::Expr(Expr::If(ifx), _) if ifx.else_branch.is_none() && ctx.is_none() => {
          let mut ok = false;
          if let Expr::Let(l) = &*ifx.cond {
            if norm(&*l.pat) == "Some(value)" {
              if let Some(fld) = norm(&*l.expr).strip_prefix("&headers.") {
                walk(&ifx.then_branch.stmts, Some(fld), out, un);
                ok = true;
              }
            }
          }
          if !ok {
            un.add("header insertion condition", norm(&*ifx.cond));
          }
        }
        Stmt::Expr(Expr::Call(c), None) if norm(&*c.func) == "Ok" && ctx.is_none() => {}
        other => un.add("header insertion statement", norm(other)),
      }
    }
  }
  walk(&f.block.stmts, None, &mut out, un);
  Value::Array(out)
}

/// server: `impl TryFrom<&http::HeaderMap> for H`
fn header_decode(file: &syn::File, st: &str, un: &mut Unread) -> Value {
  let Some(f) = find_impl(file, |t| t.ends_with("TryFrom<&http::HeaderMap>"), st).and_then(|im| impl_fn(im, "try_from")) else {
    return Value::Null;
  };
  let mut out = vec![];
  let strukt = match f.block.stmts.as_slice() {
    [Stmt::Expr(Expr::Call(c), None)] if norm(&*c.func) == "Ok" && c.args.len() == 1 => match &c.args[0] {
      Expr::Struct(s) if norm(&s.path) == "Self" && s.rest.is_none() => Some(s.clone()),
      _ => None,
    },
    _ => None,
  };
  let Some(s) = strukt else {
    un.add("header extraction body", norm(&f.block));
    return json!({"other": norm(&f.block)});
  };
  for fv in &s.fields {
    let field = norm(&fv.member);
    let (base, chain) = call_chain(&fv.expr);
    let names: Vec<&str> = chain.iter().map(|(m, _)| m.as_str()).collect();
    let mut ok = false;
    if base == "headers" && (names == ["get", "and_then", "map"] || names == ["get", "and_then", "map", "unwrap_or_default"]) {
      let get_arg = chain[0].1.first().map(|a| norm(a));
      let to_str_ok = chain[1].1.first().is_some_and(|a| norm(a) == "|v|v.to_str().ok()");
      let body = chain[2].1.first().and_then(|a| match a {
        Expr::Closure(c) if c.inputs.len() == 1 && norm(&c.inputs[0]) == "value" => Some(match &*c.body {
          Expr::Block(b) if b.block.stmts.len() == 1 => match &b.block.stmts[0] {
            Stmt::Expr(e, None) => norm(e),
            o => norm(o),
          },
          e => norm(e),
        }),
        Expr::Path(p) if norm(p) == "std::string::ToString::to_string" || norm(p) == "ToString::to_string" => Some("value.to_string()".to_string()),
        _ => None,
      });
      if let (Some(c), true, Some(b)) = (get_arg, to_str_ok, body) {
        let form = if b == "value.to_string()" {
          Some(json!({"form": "to_string"}))
        } else if b == "value.parse().unwrap_or_default()" {
          Some(json!({"form": "parse", "on_err": "default"}))
        } else if let Some(rest) = b.strip_prefix("value.split(") {
          rest.split_once(").map(|s|s.trim()).filter_map(|s|s.parse().ok()).collect()").filter(|(_, tail)| tail.is_empty()).and_then(|(sep, _)| {
            syn::parse_str::<syn::Lit>(sep).ok().and_then(|l| match l {
              syn::Lit::Char(c) => Some(c.value().to_string()),
              syn::Lit::Str(s) => Some(s.value()),
              _ => None,
            })
          }).map(|sep| json!({"form": "split_parse", "sep": sep, "trim": true, "on_err": "skip"}))
        } else {
          None
        };
        if let Some(mut v) = form {
          v["field"] = json!(field);
          v["const"] = json!(c);
          v["on_missing"] = json!(if names.len() == 4 { "default" } else { "none" });
          out.push(v);
          ok = true;
        }
      }
    } else if norm(&fv.expr) == "Default::default()" {
      out.push(json!({"field": field, "form": "absent"}));
      ok = true;
    }
    if !ok {
      un.add("header extraction expression", format!("{field}: {}", norm(&fv.expr)));
    }
  }
  Value::Array(out)
}

// ---------------------------------------------------------------------------------------------
// operations

/// "* Path: `GET /a/{id}`" -> ["GET", "/a/{id}"]
fn doc_route(docs: &Value) -> Option<(String, String)> {
  for d in docs.as_array()? {
    let s = d.as_str()?;
    if let Some((_, rest)) = s.split_once("Path: `") {
      let inner = rest.split('`').next()?;
      let (m, p) = inner.split_once(' ')?;
      return Some((m.to_string(), p.to_string()));
    }
  }
  None
}

fn annotate_fields(fields: Vec<Value>) -> Value {
  Value::Array(fields)
}

fn enum_names_of(fields: &Value, into: &mut Vec<String>) {
  for f in fields.as_array().into_iter().flatten() {
    if f["kind"] == "enum" {
      if let Some(n) = f["inner"].as_str() {
        if !into.iter().any(|x| x == n) {
          into.push(n.to_string());
        }
      }
    }
  }
}

fn body_extractor(pat: &str, ty: &str) -> Option<Value> {
  // -> {kind, optional, ty}
  let (opt, inner) = match unwrap_generic(ty, "Option") {
    Some(i) => (true, i),
    None => (false, ty),
  };
  let (kind, payload) = if let Some(t) = unwrap_generic(inner, "axum::Json") {
    ("json", t)
  } else if let Some(t) = unwrap_generic(inner, "axum::extract::Form") {
    ("form", t)
  } else if inner == "String" {
    ("text", "String")
  } else if inner == "axum::body::Bytes" {
    ("bytes", "axum::body::Bytes")
  } else {
    return None;
  };
  let pat_ok = match (kind, opt) {
    ("json", false) => pat == "axum::Json(body)",
    ("form", false) => pat == "axum::extract::Form(body)",
    _ => pat == "body",
  };
  if !pat_ok {
    return None;
  }
  Some(json!({"kind": kind, "optional": opt, "ty": payload}))
}

/// query section of ONE client method: the `…Query` struct behind `.query(&request.query)`, member by member
pub(crate) fn client_query(ct: &syn::File, m: &Value, req_ty: &str, un: &mut Unread, enum_names: &mut Vec<String>) -> Value {
  let qargs: Vec<&str> = m["query"].as_array().into_iter().flatten().filter_map(Value::as_str).collect();
  let query_ty = field_type(ct, req_ty, "query");
  if qargs.is_empty() {
    json!({"mode": "none"})
  } else if qargs == ["&request.query"] {
    match query_ty.as_deref().and_then(|t| struct_fields(ct, t)) {
      Some(fs) => {
        let fs = annotate_fields(fs);
        enum_names_of(&fs, enum_names);
        json!({"mode": "struct", "ty": query_ty, "fields": fs})
      }
      None => {
        un.add("client query struct", format!("{query_ty:?}"));
        json!({"mode": "other"})
      }
    }
  } else {
    // a literal query string in the template (`set_query`) is outside the modelled request
    json!({"mode": "other", "args": qargs})
  }
}

/// header section of ONE client method: the `…Header` struct and the insertions of `TryFrom<&…Header> for HeaderMap`
pub(crate) fn client_headers(ct: &syn::File, m: &Value, req_ty: &str, name: &str, un: &mut Unread, enum_names: &mut Vec<String>) -> Value {
  let text = m["text"].as_str().unwrap_or("");
  let header_ty = field_type(ct, req_ty, "header");
  let headers_used = m["headers"].as_bool().unwrap_or(false);
  if headers_used {
    if !text.contains("headers(http::HeaderMap::try_from(&request.header)") {
      un.add("client headers call", name.to_string());
    }
    match header_ty.as_deref() {
      Some(h) => {
        let enc = header_encode(ct, h, un);
        let fs = struct_fields(ct, h).map(annotate_fields).unwrap_or(Value::Null);
        enum_names_of(&fs, enum_names);
        if enc.is_null() {
          un.add("client header map impl", h.to_string());
        }
        json!({"used": true, "ty": h, "fields": fs, "encode": enc})
      }
      None => {
        un.add("client header struct", name.to_string());
        json!({"used": true})
      }
    }
  } else {
    json!({"used": false, "declared": header_ty})
  }
}

/// C03 (`client.method`): wire layout of every client method of ONE generator run — query struct members (serde
/// key, `serde_as` adapter, Option-ness, `skip_serializing_none`), header insertions (constant, value form,
/// conditional or not), the header-name constants with their values; unrecognised constructs under `unreadable`.
pub(crate) fn client_wire(types_code: &str, methods: &Value) -> Value {
  let ct = match syn::parse_file(types_code) {
    Ok(f) => f,
    Err(e) => return json!({"err": format!("emitted types file does not parse: {e}")}),
  };
  let mut un = Unread(vec![]);
  let mut enum_names: Vec<String> = vec![];
  let cconsts = consts(&ct, &mut un);
  let mut ops = vec![];
  for m in methods.as_array().into_iter().flatten() {
    let name = m["name"].as_str().unwrap_or("").to_string();
    let req_ty = m["request_ty"].as_str().unwrap_or("").to_string();
    // a literal `?a=b` in the path template is installed with `set_query` before the parameters are appended:
    // reported apart (`preset`), the parameter pairs are read as usual
    let mut m2 = m.clone();
    let all: Vec<String> = m["query"].as_array().into_iter().flatten().filter_map(|x| x.as_str().map(str::to_string)).collect();
    let preset: Vec<&String> = all.iter().filter(|a| a.starts_with("set_query:")).collect();
    m2["query"] = json!(all.iter().filter(|a| !a.starts_with("set_query:")).collect::<Vec<_>>());
    let query = client_query(&ct, &m2, &req_ty, &mut un, &mut enum_names);
    let headers = client_headers(&ct, m, &req_ty, &name, &mut un, &mut enum_names);
    ops.push(json!({"name": name, "query": query, "headers": headers, "preset": preset}));
  }
  json!({"ops": ops, "consts": cconsts, "unreadable": un.0})
}

fn eval_req(input: &Value) -> OpResult {
  let mut ci = input.clone();
  ci["mode"] = json!("client-mod");
  let mut si = input.clone();
  si["mode"] = json!("server-mod");
  let (cf, cstats) = match k_gen::generate(&ci) {
    Ok(x) => x,
    Err(e) => return Ok(json!({"err": format!("client: {e}")})),
  };
  let (sf, sstats) = match k_gen::generate(&si) {
    Ok(x) => x,
    Err(e) => return Ok(json!({"err": format!("server: {e}")})),
  };
  let parse = |code: Option<&String>, what: &str| -> Result<syn::File, String> {
    let code = code.ok_or(format!("no {what} file"))?;
    syn::parse_file(code).map_err(|e| format!("emitted {what} file does not parse: {e}"))
  };
  let (ct, cc, st, ss) = match (parse(cf.get("types"), "client types"), parse(cf.get("client"), "client"), parse(sf.get("types"), "server types"), parse(sf.get("server"), "server")) {
    (Ok(a), Ok(b), Ok(c), Ok(d)) => (a, b, c, d),
    (a, b, c, d) => {
      let errs: Vec<String> = [a.err(), b.err(), c.err(), d.err()].into_iter().flatten().collect();
      return Ok(json!({"err": errs.join("; ")}));
    }
  };
  let mut un = Unread(vec![]);
  let ccf = facts::file_facts(cf.get("client").unwrap());
  let ssf = facts::file_facts(sf.get("server").unwrap());
  let cconsts = consts(&ct, &mut un);
  let sconsts = consts(&st, &mut un);
  let mut enum_names: Vec<String> = vec![];

  // ---- client operations
  let mut client_ops = vec![];
  for m in ccf["client_methods"].as_array().into_iter().flatten() {
    let name = m["name"].as_str().unwrap_or("").to_string();
    let Some((dm, dp)) = doc_route(&m["docs"]) else {
      un.add("client method without `* Path:` doc line", name.clone());
      continue;
    };
    let req_ty = m["request_ty"].as_str().unwrap_or("").to_string();
    let text = m["text"].as_str().unwrap_or("");
    let mut pushes = vec![];
    for p in m["pushes"].as_array().into_iter().flatten() {
      if p.get("other").is_some() {
        un.add("url push argument", p["other"].as_str().unwrap_or("").to_string());
      }
      pushes.push(p.clone());
    }
    if !(text.contains("let mut url=self.base_url.clone();") && text.contains("url.path_segments_mut()")) {
      un.add("client url construction", name.clone());
    }
    let http = match &m["http"] {
      Value::String(s) => json!(s.strip_prefix("reqwest::Method::").map_or_else(|| s.to_ascii_uppercase(), str::to_string)),
      _ => {
        un.add("client http method", name.clone());
        Value::Null
      }
    };
    // query
    let path_ty = field_type(&ct, &req_ty, "path");
    let query = client_query(&ct, m, &req_ty, &mut un, &mut enum_names);
    // path values
    let path = match path_ty.as_deref().and_then(|t| struct_fields(&ct, t)) {
      Some(fs) => {
        let fs = annotate_fields(fs);
        enum_names_of(&fs, &mut enum_names);
        json!({"ty": path_ty, "fields": fs})
      }
      None => Value::Null,
    };
    // headers
    let headers = client_headers(&ct, m, &req_ty, &name, &mut un, &mut enum_names);
    // body
    let encs: Vec<&Value> = m["body"].as_array().into_iter().flatten().collect();
    let body_ty = field_type(&ct, &req_ty, "body");
    let body = match encs.as_slice() {
      [] => json!({"enc": "none", "declared": body_ty}),
      [b] => {
        let enc = b["enc"].as_str().unwrap_or("");
        let arg = b["arg"].as_str().unwrap_or("");
        let optional = text.contains("if let Some(body)=request.body.as_ref()");
        let expect_arg = |suffix: &str| -> bool {
          if optional { arg == format!("(body){suffix}") || arg == format!("body{suffix}") } else { arg == format!("(&request.body){suffix}") || arg == format!("&request.body{suffix}") }
        };
        let kind = match enc {
          "json" if expect_arg("") => "json",
          "form" if expect_arg("") => "form",
          "body" if expect_arg(".to_string()") => "text",
          "body" if expect_arg(".clone()") => "bytes",
          "body" if arg.contains("xml") => "xml",
          "multipart" => "multipart",
          _ => {
            un.add("client body encoder", format!("{enc}({arg})"));
            "other"
          }
        };
        json!({"enc": kind, "optional": optional, "ty": body_ty})
      }
      _ => {
        un.add("client body encoders", name.clone());
        json!({"enc": "other"})
      }
    };
    client_ops.push(json!({"name": name, "route": [dm, dp], "http": http, "pushes": pushes, "path": path, "query": query, "headers": headers, "body": body,
      "validates_first": m["validates_first"]}));
  }

  // ---- server operations
  let trait_methods: Vec<&Value> = ssf["items"].as_array().into_iter().flatten().filter(|i| i["kind"] == "trait").flat_map(|t| t["methods"].as_array().into_iter().flatten()).collect();
  let mut routes = vec![];
  match &ssf["routes"] {
    Value::Array(rs) => {
      for r in rs {
        let Some(path) = r["path"].as_str() else {
          un.add("route pattern", r.to_string());
          continue;
        };
        let ms = r["methods"].as_array().cloned().unwrap_or_default();
        if ms.is_empty() {
          un.add("route without method router", r["raw"].to_string());
        }
        for mm in ms {
          routes.push(json!({"pattern": path, "fn": mm["m"], "handler": mm["handler"]}));
        }
      }
    }
    _ => un.add("router function", "fn router not found".to_string()),
  }
  let mut server_ops = vec![];
  for it in &ss.items {
    let Item::Fn(f) = it else { continue };
    let name = f.sig.ident.to_string();
    if name == "router" {
      continue;
    }
    let tm = trait_methods.iter().find(|m| m["name"] == name.as_str());
    let Some((dm, dp)) = tm.and_then(|m| doc_route(&m["docs"])) else {
      un.add("handler without documented operation", name.clone());
      continue;
    };
    let req_ty = tm.and_then(|m| m["inputs"].as_array()).and_then(|a| a.iter().find(|i| i["pat"] == "request")).and_then(|i| i["ty"].as_str()).map(str::to_string);
    let mut path = Value::Null;
    let mut query = Value::Null;
    let mut headers = Value::Null;
    let mut body = json!({"kind": "none"});
    for a in &f.sig.inputs {
      let syn::FnArg::Typed(t) = a else { continue };
      let pat = norm(&*t.pat);
      let ty = norm(&*t.ty);
      if pat == "State(service)" && ty == "State<S>" {
        continue;
      }
      if let (true, Some(pt)) = (pat == "Path(path)", unwrap_generic(&ty, "Path")) {
        match struct_fields(&st, pt) {
          Some(fs) => {
            let fs = annotate_fields(fs);
            enum_names_of(&fs, &mut enum_names);
            path = json!({"ty": pt, "fields": fs});
          }
          None => un.add("server path struct", pt.to_string()),
        }
      } else if let (true, Some(qt)) = (pat == "Query(query)", unwrap_generic(&ty, "Query")) {
        match struct_fields(&st, qt) {
          Some(fs) => {
            let fs = annotate_fields(fs);
            enum_names_of(&fs, &mut enum_names);
            query = json!({"ty": qt, "fields": fs});
          }
          None => un.add("server query struct", qt.to_string()),
        }
      } else if pat == "headers" && ty == "HeaderMap" {
        let hty = req_ty.as_deref().and_then(|r| field_type(&st, r, "header"));
        match hty.as_deref() {
          Some(h) => {
            let dec = header_decode(&st, h, &mut un);
            let fs = struct_fields(&st, h).map(annotate_fields).unwrap_or(Value::Null);
            enum_names_of(&fs, &mut enum_names);
            if dec.is_null() {
              un.add("server header extraction impl", h.to_string());
            }
            headers = json!({"ty": h, "fields": fs, "decode": dec});
          }
          None => un.add("server header struct", name.clone()),
        }
      } else if let Some(b) = body_extractor(&pat, &ty) {
        body = b;
      } else {
        un.add("handler argument", format!("{pat}: {ty}"));
      }
    }
    // request construction
    let mut ctor = Map::new();
    let mut saw_ctor = false;
    for s in &f.block.stmts {
      if let Stmt::Local(l) = s {
        if norm(&l.pat) == "request" {
          if let Some(Expr::Struct(es)) = l.init.as_ref().map(|i| &*i.expr) {
            saw_ctor = true;
            for fv in &es.fields {
              ctor.insert(norm(&fv.member), json!(norm(&fv.expr)));
            }
            if es.rest.is_some() {
              un.add("request construction with ..rest", name.clone());
            }
          }
        }
      }
    }
    let body_text = norm(&f.block);
    let call_ok = body_text.contains(&format!("service.{name}(request).await")) || (req_ty.is_none() && body_text.contains(&format!("service.{name}().await")));
    if !call_ok {
      un.add("handler does not call its trait method", name.clone());
    }
    server_ops.push(json!({"name": name, "route": [dm, dp], "request_ty": req_ty, "path": path, "query": query, "headers": headers, "body": body,
      "ctor": if saw_ctor { Value::Object(ctor) } else { Value::Null }}));
  }

  // ---- enum codecs of both runs
  let mut cenums = Map::new();
  let mut senums = Map::new();
  for n in &enum_names {
    cenums.insert(n.clone(), enum_json(&ct, n, &mut un));
    senums.insert(n.clone(), enum_json(&st, n, &mut un));
  }
  let _ = (cc, cstats, sstats);
  Ok(json!({
    "client": {"ops": client_ops, "consts": cconsts, "enums": cenums},
    "server": {"ops": server_ops, "routes": routes, "consts": sconsts, "enums": senums},
    "unreadable": un.0,
  }))
}
