//! C01 adapter.
//! `comp.post`  (tie K): a synthetic type graph through the REAL `PostprocessOutput::new`
//!              (NestedValidationProcessor -> SerdeUsage::{propagate, update_types} -> ModuleImports) ->
//!              per type: Serialize / Deserialize (derive or hand-written), derive list, `nested` members; `uses`.
//! `comp.gen`   (tie E): spec + flags through the whole generator (`k_gen::generate`) -> a digest of the
//!              emitted files for the well-formedness judge: items (kind, file, visibility, serde / Validate
//!              capabilities, members with the locally defined types they mention and HOW (plain / through a
//!              map), `nested`, separator attributes, constructor parameter lists, IntoResponse payloads),
//!              the names imported, the names mentioned per file.
use std::collections::{BTreeMap, BTreeSet};

use serde_json::{Value, json};

use crate::{
  OpResult, facts,
  generator::{
    GenerationTarget,
    ast::{
      DerivesProvider, Documentation, EnumDef, EnumToken, EnumVariantToken, FieldDef, FieldNameToken, RustPrimitive, RustType,
      SerdeImpl, StructDef, StructKind, TypeAliasDef, TypeAliasToken, TypeRef, ValidationAttribute, VariantContent, VariantDef,
    },
    postprocess::PostprocessOutput,
  },
  k_gen,
};

fn tref(dep: &Value) -> TypeRef {
  // dep: "Name" (plain custom type) | {"map": "Name"} (HashMap<String, Name>, as type_resolver::try_map_type builds it)
  let mut t = match dep {
    Value::String(s) => TypeRef::new(RustPrimitive::Custom(s.as_str().into())),
    other => {
      if let Some(n) = other["arr"].as_str() {
        // array whose items are an array (of) N: `TypeRef::new(item.to_rust_type()).with_vec()` in type_resolver
        TypeRef::new(format!("Vec<{n}>")).with_vec()
      } else {
        let n = other["map"].as_str().unwrap_or("X");
        TypeRef::new(format!("std::collections::HashMap<String, {n}>"))
      }
    }
  };
  if dep.get("vec").and_then(Value::as_bool).unwrap_or(false) {
    t = t.with_vec();
  }
  t
}

fn post(input: &Value) -> OpResult {
  let target = if input["target"] == "server" { GenerationTarget::Server } else { GenerationTarget::Client };
  let mut types = vec![];
  for n in input["nodes"].as_array().into_iter().flatten() {
    let name = n["name"].as_str().unwrap_or("");
    let deps: Vec<&Value> = n["deps"].as_array().map(|a| a.iter().collect()).unwrap_or_default();
    match n["kind"].as_str().unwrap_or("schema") {
      "enum" => {
        let mut variants: Vec<VariantDef> = deps
          .iter()
          .enumerate()
          .map(|(i, d)| VariantDef::builder().name(EnumVariantToken::new(format!("V{i}"))).content(VariantContent::Tuple(vec![tref(d)])).build())
          .collect();
        if variants.is_empty() {
          variants.push(VariantDef::builder().name(EnumVariantToken::new("A")).content(VariantContent::Unit).build());
        }
        types.push(RustType::Enum(
          EnumDef::builder()
            .name(EnumToken::new(name))
            .docs(Documentation::default())
            .variants(variants)
            .case_insensitive(n["ci"].as_bool().unwrap_or(false))
            .build(),
        ));
      }
      "alias" => {
        let t = deps.first().map(|d| tref(d)).unwrap_or_else(|| TypeRef::new(RustPrimitive::String));
        types.push(RustType::TypeAlias(TypeAliasDef::builder().name(TypeAliasToken::new(name)).docs(Documentation::default()).target(t).build()));
      }
      k => {
        let kind = match k {
          "request" => StructKind::OperationRequest,
          "path" => StructKind::PathParams,
          "query" => StructKind::QueryParams,
          "header" => StructKind::HeaderParams,
          _ => StructKind::Schema,
        };
        let mut fields: Vec<FieldDef> = deps
          .iter()
          .enumerate()
          .map(|(i, d)| FieldDef::builder().name(FieldNameToken::new(format!("f{i}"))).rust_type(tref(d)).build())
          .collect();
        if n["attrs"].as_bool().unwrap_or(false) {
          fields.push(
            FieldDef::builder()
              .name(FieldNameToken::new("own"))
              .rust_type(TypeRef::new(RustPrimitive::String))
              .validation_attrs(vec![ValidationAttribute::Email])
              .build(),
          );
        }
        types.push(RustType::Struct(StructDef::builder().name(name).fields(fields).kind(kind).build()));
      }
    }
  }
  let mut seeds: BTreeMap<EnumToken, (bool, bool)> = BTreeMap::new();
  for s in input["seeds"].as_array().into_iter().flatten() {
    seeds.insert(EnumToken::new(s[0].as_str().unwrap_or("")), (s[1].as_bool().unwrap_or(false), s[2].as_bool().unwrap_or(false)));
  }
  let out = PostprocessOutput::new(types, vec![], seeds, target, vec![]);
  let mut res = vec![];
  for t in &out.types {
    let imp = |s: SerdeImpl| match s {
      SerdeImpl::None => "none",
      SerdeImpl::Derive => "derive",
      SerdeImpl::Custom => "custom",
    };
    let (derives, nested): (Vec<String>, Vec<bool>) = match t {
      RustType::Struct(d) => (
        d.derives().iter().map(ToString::to_string).collect(),
        d.fields.iter().filter(|f| f.name.as_str() != "own").map(|f| f.validation_attrs.contains(&ValidationAttribute::Nested)).collect(),
      ),
      RustType::Enum(d) => (d.derives().iter().map(ToString::to_string).collect(), vec![]),
      _ => (vec![], vec![]),
    };
    res.push(json!({"name": t.type_name().to_string(), "ser": imp(t.is_serializable()), "de": imp(t.is_deserializable()), "derives": derives, "nested": nested}));
  }
  Ok(json!({"types": res, "uses": out.uses.iter().collect::<Vec<_>>()}))
}

// ------------------------------------------------------------------------------------------------------------
// digest of emitted files

/// (name, through_map, through_vec) for every single-segment path type below `ty` that is not a std wrapper
fn walk(ty: &syn::Type, map: bool, vec: bool, arr: bool, wrap: bool, out: &mut Vec<(String, bool, bool, bool, bool)>, paths: &mut Vec<String>) {
  match ty {
    syn::Type::Path(tp) => {
      let last = tp.path.segments.last().unwrap();
      let name = last.ident.to_string();
      let args: Vec<&syn::Type> = match &last.arguments {
        syn::PathArguments::AngleBracketed(a) => a.args.iter().filter_map(|g| if let syn::GenericArgument::Type(t) = g { Some(t) } else { None }).collect(),
        _ => vec![],
      };
      let single = tp.path.segments.len() == 1;
      match name.as_str() {
        // a TypeRef prints as Option<Vec<Box<base>>>; a Vec or an Option INSIDE a Vec can only come from a base
        // type whose atom is the whole text (`Vec<X>` / `Option<X>` built by array_item_type().to_rust_type())
        "Box" => args.iter().for_each(|a| walk(a, map, vec, arr, true, out, paths)),
        "Option" => args.iter().for_each(|a| walk(a, map, vec, arr || vec, true, out, paths)),
        "Vec" | "HashSet" | "BTreeSet" => args.iter().for_each(|a| walk(a, map, true, arr || vec, true, out, paths)),
        "HashMap" | "BTreeMap" => args.iter().for_each(|a| walk(a, true, vec, arr, true, out, paths)),
        _ => {
          if single {
            out.push((name, map, vec, arr, wrap));
          } else {
            paths.push(tp.path.segments.iter().map(|s| s.ident.to_string()).collect::<Vec<_>>().join("::"));
          }
          args.iter().for_each(|a| walk(a, map, vec, arr, true, out, paths));
        }
      }
    }
    syn::Type::Reference(r) => walk(&r.elem, map, vec, arr, wrap, out, paths),
    syn::Type::Tuple(t) => t.elems.iter().for_each(|e| walk(e, map, vec, arr, true, out, paths)),
    syn::Type::Array(a) => walk(&a.elem, map, vec, arr, true, out, paths),
    syn::Type::Slice(a) => walk(&a.elem, map, vec, arr, true, out, paths),
    _ => {}
  }
}

const PRELUDE: &[&str] = &[
  "String", "bool", "i8", "i16", "i32", "i64", "i128", "isize", "u8", "u16", "u32", "u64", "u128", "usize", "f32", "f64", "str", "char", "Self", "S", "T",
  "Option", "Vec", "Box", "Result", "Some", "None", "Ok", "Err", "Default", "From", "Into", "TryFrom", "TryInto", "Send", "Sync", "Clone", "Copy", "Debug",
  "PartialEq", "Eq", "Hash", "Iterator", "IntoIterator", "ToString", "AsRef", "Fn", "FnOnce", "FnMut", "Sized", "Display", "FromStr", "Future", "E", "D",
];

fn refs_of(ty: &str) -> (Vec<Value>, Vec<String>) {
  let mut out = vec![];
  let mut paths = vec![];
  if let Ok(t) = syn::parse_str::<syn::Type>(ty) {
    walk(&t, false, false, false, false, &mut out, &mut paths);
  }
  (
    out.into_iter().filter(|(n, _, _, _, _)| !PRELUDE.contains(&n.as_str())).map(|(n, m, v, a, w)| json!({"to": n, "map": m, "vec": v, "arr": a, "wrap": w})).collect(),
    paths,
  )
}

fn strs(v: &Value) -> Vec<String> {
  v.as_array().into_iter().flatten().filter_map(|x| x.as_str().map(str::to_string)).collect()
}

/// element type of `Vec<..>` below Option: Some("String") for Option<Vec<String>>
fn vec_elem(ty: &str) -> Option<String> {
  let t = ty.strip_prefix("Option<").and_then(|r| r.strip_suffix('>')).unwrap_or(ty);
  t.strip_prefix("Vec<").and_then(|r| r.strip_suffix('>')).map(str::to_string)
}

pub fn digest(files: &std::collections::HashMap<&'static str, String>) -> Value {
  let mut items = vec![];
  let mut imports: BTreeMap<String, BTreeSet<String>> = BTreeMap::new();
  let mut mentions: BTreeMap<String, BTreeSet<String>> = BTreeMap::new();
  let mut const_mentions: BTreeMap<String, BTreeSet<String>> = BTreeMap::new();
  let mut parse_errors = vec![];
  let mut impls: Vec<(String, String, String)> = vec![]; // (file, trait, self type)
  let mut hdr_opt: Vec<(String, String)> = vec![]; // (header struct, member read as Option by the HeaderMap conversion)
  let mut hdr_parse: Vec<(String, String)> = vec![]; // (header struct, member built with `value.parse()` from the HeaderMap)
  let mut helper_ctors: Vec<(String, Value)> = vec![]; // (enum, {variant, boxed: the payload expression is `Box::new(..)`})
  for (fname, code) in files {
    let f = facts::file_facts(code);
    if let Some(e) = f.get("parse_error") {
      parse_errors.push(format!("{fname}: {e}"));
      continue;
    }
    let cms = const_mentions.entry((*fname).to_string()).or_default();
    for m in strs(&f["mentions"]) {
      if let Some(c) = m.strip_prefix("const:") {
        cms.insert(c.to_string());
      }
    }
    let ms = mentions.entry((*fname).to_string()).or_default();
    for m in strs(&f["mentions"]) {
      if m.starts_with("const:") {
        continue;
      }
      // single-segment type paths, and the head of `Type::assoc` expression / constructor paths
      let m2 = m.strip_prefix("expr:").or_else(|| m.strip_prefix("ctor:")).unwrap_or(&m);
      let head = m2.split("::").next().unwrap_or("");
      if !m2.contains("::") || m.starts_with("expr:") || m.starts_with("ctor:") {
        if head.chars().next().is_some_and(char::is_uppercase) && !PRELUDE.contains(&head) {
          ms.insert(head.to_string());
        }
      }
    }
    for it in f["items"].as_array().into_iter().flatten() {
      let kind = it["kind"].as_str().unwrap_or("");
      let name = it["name"].as_str().unwrap_or("").to_string();
      let derives = strs(&it["derives"]);
      let attrs = strs(&it["attrs"]);
      let has = |d: &str| derives.iter().any(|x| x == d || x.ends_with(&format!("::{d}")));
      match kind {
        "struct" => {
          let fields: Vec<Value> = it["fields"]
            .as_array()
            .into_iter()
            .flatten()
            .map(|fd| {
              let ty = fd["ty"].as_str().unwrap_or("");
              let fa = strs(&fd["attrs"]);
              let (refs, _) = refs_of(ty);
              let sep = fa.iter().any(|a| a.starts_with("serde_as(") && a.contains("StringWith") && a.contains("Separator"));
              json!({"name": fd["name"], "refs": refs, "dur": ty.contains("chrono::Duration"), "opt": ty.starts_with("Option<"),
                "nested": fa.iter().any(|a| a.starts_with("validate(") && (a.contains("(nested") || a.contains(",nested"))),
                "len": fa.iter().any(|a| a.starts_with("validate(") && a.contains("length(")),
                "validated": fa.iter().any(|a| a.starts_with("validate(")),
                // `#[serde_as(as = "Option<…>")]`: does the adapter wrap in Option (must agree with the member type)
                "asOpt": fa.iter().any(|a| a.starts_with("serde_as(") && a.contains("as=\"Option<")),
                "serdeAsAttr": fa.iter().any(|a| a.starts_with("serde_as(")),
                "sep": sep, "sepStr": vec_elem(ty).is_some_and(|e| e == "String")})
            })
            .collect();
          items.push(json!({"file": fname, "kind": "struct", "name": name, "vis": it["vis"], "ser": has("Serialize"), "de": has("Deserialize"),
            "val": has("Validate"), "bare": derives.iter().filter(|d| !d.contains("::")).collect::<Vec<_>>(),
            "serdeAs": attrs.iter().any(|a| a.starts_with("serde_with::serde_as") || a == "serde_as"), "reqStruct": !has("PartialEq"), "fields": fields}));
        }
        "enum" => {
          let mut refs = vec![];
          let mut evstream = false;
          let mut vnames = vec![];
          let mut vboxed = vec![];
          for v in it["variants"].as_array().into_iter().flatten() {
            vnames.push(v["name"].clone());
            let fs = strs(&v["fields"]);
            if fs.len() == 1 {
              vboxed.push(json!({"variant": v["name"], "boxed": fs[0].starts_with("Box<")}));
            }
            for t in strs(&v["fields"]) {
              evstream |= t.contains("EventStream");
              refs.extend(refs_of(&t).0);
            }
          }
          let fields = vec![json!({"name": "", "refs": refs, "nested": false, "sep": false, "sepStr": false})];
          items.push(json!({"file": fname, "kind": "enum", "name": name, "vis": it["vis"], "ser": has("Serialize"), "de": has("Deserialize"),
            "val": false, "bare": derives.iter().filter(|d| !d.contains("::")).collect::<Vec<_>>(), "fields": fields, "variants": vnames, "vboxed": vboxed, "dflt": has("Default"), "evstream": evstream, "respEnum": !has("PartialEq") && !has("Serialize") && !has("Deserialize")}));
        }
        "type" => {
          let (refs, _) = refs_of(it["ty"].as_str().unwrap_or(""));
          items.push(json!({"file": fname, "kind": "alias", "name": name, "vis": it["vis"], "ser": false, "de": false, "val": false, "bare": [],
            "fields": [{"name": "", "refs": refs, "nested": false, "sep": false, "sepStr": false}]}));
        }
        "impl" => {
          let tr = it["trait"].as_str().unwrap_or("").to_string();
          let short = tr.split('<').next().unwrap_or("").rsplit("::").next().unwrap_or("").to_string();
          impls.push(((*fname).to_string(), short.clone(), name.clone()));
          // `impl TryFrom<&X> for http::HeaderMap`: which members of X does the conversion read as `Option`
          // (`if let Some(value) = &headers.<member>`)?
          if name == "http::HeaderMap" {
            if let Some(x) = tr.split("TryFrom<&").nth(1).map(|r| r.trim_end_matches('>').to_string()) {
              for m in it["methods"].as_array().into_iter().flatten() {
                let body = m["body"].as_str().unwrap_or("");
                for part in body.split("Some(value)=&headers.").skip(1) {
                  let f: String = part.chars().take_while(|c| c.is_alphanumeric() || *c == '_' || *c == '#').collect();
                  hdr_opt.push((x.clone(), f));
                }
              }
            }
          }
          // `impl TryFrom<&http::HeaderMap> for X`: which members are built with `value.parse()` (needs `FromStr`)?
          if tr.starts_with("core::convert::TryFrom<&http::HeaderMap>") || tr.starts_with("TryFrom<&http::HeaderMap>") {
            for m in it["methods"].as_array().into_iter().flatten() {
              let body = m["body"].as_str().unwrap_or("");
              let parts: Vec<&str> = body.split(":headers.get(").collect();
              for i in 0..parts.len().saturating_sub(1) {
                let f: String = parts[i].chars().rev().take_while(|c| c.is_alphanumeric() || *c == '_' || *c == '#').collect::<String>().chars().rev().collect();
                // the member's own expression ends where the next member's `,name:headers.get(` starts
                let own = if i + 2 == parts.len() { parts[i + 1] } else { &parts[i + 1][..parts[i + 1].rfind(',').unwrap_or(parts[i + 1].len())] };
                if own.contains(".parse()") {
                  hdr_parse.push((name.clone(), f));
                }
              }
            }
          }
          // helper constructors of enums: `fn f(..) -> Self { Self::V(<expr>) }` — is the payload expression boxed?
          if tr.is_empty() {
            for m in it["methods"].as_array().into_iter().flatten() {
              let body = m["body"].as_str().unwrap_or("");
              if m["output"] == "Self" {
                if let Some(rest) = body.strip_prefix("{Self::") {
                  let v: String = rest.chars().take_while(|c| c.is_alphanumeric() || *c == '_').collect();
                  let after = &rest[v.len()..];
                  if after.starts_with('(') {
                    helper_ctors.push((name.clone(), json!({"variant": v, "boxed": after.starts_with("(Box::new(")})));
                  }
                }
              }
            }
          }
          // constructor parameter lists (`fn new(..)`) of inherent impls
          if tr.is_empty() {
            for m in it["methods"].as_array().into_iter().flatten() {
              if m["name"] == "new" {
                let ps: Vec<Value> = m["inputs"].as_array().into_iter().flatten().map(|i| i["pat"].clone()).collect();
                items.push(json!({"file": fname, "kind": "ctor", "name": name, "vis": "", "ser": false, "de": false, "val": false, "bare": [], "fields": [], "params": ps,
                  "bon": strs(&it["attrs"]).iter().any(|a| a.starts_with("bon"))}));
              }
            }
          }
        }
        "use" => {
          let u = it["name"].as_str().unwrap_or("");
          let set = imports.entry((*fname).to_string()).or_default();
          // every identifier of the use tree counts as imported (over-approximation: module names too)
          for n in u.split(|c: char| !(c.is_alphanumeric() || c == '_')) {
            if !n.is_empty() {
              set.insert(n.to_string());
            }
          }
        }
        "fn" | "trait" | "const" | "static" => {
          let in_tys: Vec<String> = it["inputs"].as_array().into_iter().flatten().filter_map(|i| i["ty"].as_str().map(str::to_string)).collect();
          let bytes_body = in_tys.iter().any(|t| t.contains("axum::body::Bytes"));
          // an optional request body extracted as Option<String> / Option<Form<T>> / Option<Bytes>
          let opt_body = in_tys.iter().any(|t| t.starts_with("Option<") && (t == "Option<String>" || t.contains("Form<") || t.contains("Bytes")));
          items.push(json!({"file": fname, "kind": kind, "name": name, "vis": it["vis"], "ser": false, "de": false, "val": false, "bare": [], "fields": [], "bytesBody": bytes_body, "optBody": opt_body}));
        }
        _ => {}
      }
    }
  }
  for it in &mut items {
    if it["kind"] == "struct" {
      let sname = it["name"].as_str().unwrap_or("").to_string();
      for fd in it["fields"].as_array_mut().into_iter().flatten() {
        let fname = fd["name"].as_str().unwrap_or("").to_string();
        fd["hdrOpt"] = json!(hdr_opt.iter().any(|(x, f)| *x == sname && *f == fname));
        fd["hdrParse"] = json!(hdr_parse.iter().any(|(x, f)| *x == sname && *f == fname));
      }
    }
  }
  // hand-written impls count as capabilities of the type
  for it in &mut items {
    let (file, name) = (it["file"].as_str().unwrap_or("").to_string(), it["name"].as_str().unwrap_or("").to_string());
    if it["kind"] == "struct" || it["kind"] == "enum" {
      for (f, tr, ty) in &impls {
        if *f == file && *ty == name {
          match tr.as_str() {
            "Serialize" => it["ser"] = json!(true),
            "Deserialize" => it["de"] = json!(true),
            "Validate" => it["val"] = json!(true),
            "IntoResponse" => it["intoResp"] = json!(true),
            "FromStr" => it["fromStr"] = json!(true),
            "Default" => it["dflt"] = json!(true),
            _ => {}
          }
        }
      }
    }
  }
  for it in &mut items {
    if it["kind"] == "enum" {
      let n = it["name"].as_str().unwrap_or("").to_string();
      it["helperCtors"] = json!(helper_ctors.iter().filter(|(e, _)| *e == n).map(|(_, v)| v.clone()).collect::<Vec<_>>());
    }
  }
  json!({"items": items, "imports": imports, "mentions": mentions, "const_mentions": const_mentions, "parse_errors": parse_errors})
}

pub fn eval(op: &str, input: &mut Value) -> OpResult {
  match op {
    "comp.post" => post(input),
    "comp.gen" => {
      let (files, stats) = match k_gen::generate(input) {
        Ok(x) => x,
        Err(e) => return Ok(json!({"err": e})),
      };
      let mut d = digest(&files);
      d["warnings"] = stats["warnings"].clone();
      d["files"] = json!(files.keys().collect::<Vec<_>>());
      if input["want"].as_array().is_some_and(|a| a.iter().any(|x| x == "code")) {
        d["code"] = json!(files.iter().map(|(k, v)| ((*k).to_string(), v.clone())).collect::<BTreeMap<_, _>>());
      }
      Ok(json!({"ok": d}))
    }
    _ => Err(format!("unknown-op:{op}")),
  }
}
