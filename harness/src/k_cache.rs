//! Cache kernel (property C13): the REAL `CanonicalSchema::from_schema`, `entries_to_cache_key`,
//! `build_union_fingerprints`, `SharedSchemaCache` (scripted through its crate-visible API) and, for
//! tie E, the whole generator run on several specs derived from ONE case (combined spec, the same
//! spec plus an unrelated schema, and one "alone" spec per occurrence), observed through a
//! name-free *wire expansion* of the type each use site names.
use std::collections::{BTreeMap, BTreeSet, HashMap};

use oas3::spec::ObjectSchema;
use serde_json::{Map, Value, json};

use crate::{
  OpResult, facts,
  generator::{
    ast::{Documentation, RustPrimitive, RustType, TypeAliasDef, TypeAliasToken, TypeRef},
    converter::{cache::SharedSchemaCache, hashing::CanonicalSchema, union_types::entries_to_cache_key},
    naming::name_index::SchemaPrecomputed,
  },
  k_gen,
  utils::{SchemaExt, build_union_fingerprints},
};

fn schema_of(v: &Value) -> Result<ObjectSchema, String> {
  serde_json::from_value::<ObjectSchema>(v.clone()).map_err(|e| format!("schema-parse: {e}"))
}

/// undo `impl Debug for str` escaping (the canonical string is a private field; `Debug` is derived)
fn unescape_debug(s: &str) -> String {
  let cs: Vec<char> = s.chars().collect();
  let mut out = String::new();
  let mut i = 0;
  while i < cs.len() {
    if cs[i] != '\\' {
      out.push(cs[i]);
      i += 1;
      continue;
    }
    i += 1;
    match cs.get(i) {
      Some('n') => out.push('\n'),
      Some('r') => out.push('\r'),
      Some('t') => out.push('\t'),
      Some('0') => out.push('\0'),
      Some('u') => {
        // \u{XXXX}
        let mut j = i + 2;
        let mut n = 0u32;
        while j < cs.len() && cs[j] != '}' {
          n = n * 16 + cs[j].to_digit(16).unwrap_or(0);
          j += 1;
        }
        out.push(char::from_u32(n).unwrap_or('\u{fffd}'));
        i = j;
      }
      Some(c) => out.push(*c),
      None => {}
    }
    i += 1;
  }
  out
}

fn canon_string(s: &ObjectSchema) -> Result<String, String> {
  let c = CanonicalSchema::from_schema(s).map_err(|e| format!("canon: {e:#}"))?;
  let d = format!("{c:?}");
  let inner = d
    .strip_prefix("CanonicalSchema(\"")
    .and_then(|r| r.strip_suffix("\")"))
    .ok_or_else(|| format!("unexpected Debug shape: {d}"))?;
  Ok(unescape_debug(inner))
}

fn empty_spec(schemas: Option<&Value>) -> Result<oas3::Spec, String> {
  let mut doc = json!({"openapi": "3.1.0", "info": {"title": "t", "version": "1"}, "paths": {}});
  if let Some(s) = schemas {
    doc["components"] = json!({"schemas": s});
  }
  serde_json::from_value::<oas3::Spec>(doc).map_err(|e| format!("spec-parse: {e}"))
}

fn str_list(v: &Value) -> Vec<String> {
  v.as_array()
    .map(|a| a.iter().filter_map(|x| x.as_str().map(str::to_string)).collect())
    .unwrap_or_default()
}

fn dummy_type(name: &str) -> RustType {
  RustType::TypeAlias(TypeAliasDef {
    name: TypeAliasToken::from_raw(name),
    docs: Documentation::default(),
    target: TypeRef::new(RustPrimitive::String),
  })
}

/// derived, input-side classification of a schema (what the model is told about it; computed by
/// the real `SchemaExt` predicates, not under test here)
fn annotate(step: &mut Value) -> Result<Option<ObjectSchema>, String> {
  if step.get("schema").is_none() {
    return Ok(None);
  }
  let s = schema_of(&step["schema"])?;
  step["value"] = serde_json::to_value(&s).map_err(|e| e.to_string())?;
  step["relaxed"] = json!(s.is_relaxed_enum_pattern());
  step["relaxed_anyof"] = json!(s.has_relaxed_anyof_enum());
  Ok(Some(s))
}

pub fn eval(op: &str, input: &mut Value) -> OpResult {
  match op {
    "cache.canon" | "cache.canon_perm" => {
      let schemas = input["schemas"].as_array().cloned().ok_or("no schemas")?;
      let mut values = vec![];
      let mut out = vec![];
      for s in &schemas {
        match schema_of(s) {
          Ok(os) => {
            values.push(serde_json::to_value(&os).map_err(|e| e.to_string())?);
            out.push(match canon_string(&os) {
              Ok(c) => json!(c),
              Err(e) => json!({"err": e}),
            });
          }
          Err(e) => {
            values.push(Value::Null);
            out.push(json!({"err": e}));
          }
        }
      }
      input["values"] = Value::Array(values);
      Ok(json!({"canon": out}))
    }
    "cache.best_name" => {
      use crate::generator::naming::name_index::{compute_best_name, is_valid_common_name, longest_common_suffix};
      let cands: BTreeSet<(String, bool)> = input["cands"]
        .as_array()
        .ok_or("no cands")?
        .iter()
        .filter_map(|p| Some((p.get(0)?.as_str()?.to_string(), p.get(1)?.as_bool()?)))
        .collect();
      let used: BTreeSet<String> = str_list(&input["used"]).into_iter().collect();
      let names: Vec<&String> = cands.iter().map(|(n, _)| n).collect();
      let lcs = longest_common_suffix(&names);
      let upper: String = {
        let mut v: Vec<char> = cands.iter().flat_map(|(n, _)| n.chars()).filter(|c| c.is_uppercase()).collect();
        v.sort_unstable();
        v.dedup();
        v.into_iter().collect()
      };
      input["upper"] = Value::String(upper);
      Ok(json!({"best": compute_best_name(&cands, &used), "lcs": lcs, "valid": is_valid_common_name(&lcs)}))
    }
    "cache.name_scan" => {
      use crate::generator::naming::name_index::TypeNameIndex;
      let spec = empty_spec(input.get("schemas"))?;
      let mut schemas: BTreeMap<String, ObjectSchema> = BTreeMap::new();
      if let Some(c) = &spec.components {
        for (k, v) in &c.schemas {
          if let oas3::spec::ObjectOrReference::Object(o) = v {
            schemas.insert(k.clone(), o.clone());
          }
        }
      }
      let res = TypeNameIndex::new(&schemas, &spec).scan_and_compute_names().map_err(|e| format!("scan: {e:#}"))?;
      let mut names = vec![];
      for (k, v) in &res.names {
        let d = format!("{k:?}");
        let inner = d.strip_prefix("CanonicalSchema(\"").and_then(|r| r.strip_suffix("\")")).ok_or("debug shape")?;
        names.push(json!([unescape_debug(inner), v]));
      }
      let enum_names: Vec<Value> = res.enum_names.iter().map(|(k, v)| json!([k, v])).collect();
      Ok(json!({"names": names, "enum_names": enum_names}))
    }
    "cache.enum_key" => {
      let schemas = input["schemas"].as_array().cloned().ok_or("no schemas")?;
      let spec = empty_spec(input.get("env"))?;
      let mut keys = vec![];
      let mut relaxed = vec![];
      for s in &schemas {
        let os = schema_of(s)?;
        let entries = os.extract_enum_entries(&spec);
        keys.push(json!(entries_to_cache_key(&entries)));
        relaxed.push(json!(os.is_relaxed_enum_pattern()));
      }
      Ok(json!({"keys": keys, "relaxed": relaxed}))
    }
    "cache.union_fp" => {
      let obj = input["schemas"].as_object().cloned().ok_or("no schemas")?;
      let mut m = BTreeMap::new();
      for (k, v) in &obj {
        m.insert(k.clone(), schema_of(v)?);
      }
      let fp = build_union_fingerprints(&m);
      let rows: Vec<Value> = fp.iter().map(|(refs, name)| json!([refs.iter().collect::<Vec<_>>(), name])).collect();
      Ok(json!({"fp": rows}))
    }
    "cache.script" => {
      let steps = input["steps"].as_array().cloned().ok_or("no steps")?;
      let mut cache = SharedSchemaCache::new();
      let mut out = vec![];
      let mut steps_out = vec![];
      for mut st in steps {
        let os = annotate(&mut st)?;
        let kind = st["op"].as_str().unwrap_or("").to_string();
        let res: Value = match kind.as_str() {
          "pre" => {
            let mut names = BTreeMap::new();
            let mut meta = BTreeMap::new();
            let mut rows_out = vec![];
            for row in st["schemas"].as_array().cloned().unwrap_or_default() {
              let s = schema_of(&row[0])?;
              let c = CanonicalSchema::from_schema(&s).map_err(|e| e.to_string())?;
              names.insert(c.clone(), row[1].as_str().unwrap_or("").to_string());
              let key = if row[2].is_null() { None } else { Some(str_list(&row[2])) };
              meta.insert(c, SchemaPrecomputed { enum_cache_key: key });
              rows_out.push(json!([serde_json::to_value(&s).map_err(|e| e.to_string())?, row[1], row[2]]));
            }
            st["values"] = Value::Array(rows_out);
            let mut enums = BTreeMap::new();
            for row in st["enums"].as_array().cloned().unwrap_or_default() {
              enums.insert(str_list(&row[0]), row[1].as_str().unwrap_or("").to_string());
            }
            cache.set_precomputed_names(names, enums, meta);
            Value::Null
          }
          "top" => {
            cache
              .register_top_level_schema(os.as_ref().ok_or("schema")?, st["name"].as_str().unwrap_or(""))
              .map_err(|e| e.to_string())?;
            Value::Null
          }
          "get_type_name" => json!(cache.get_type_name(os.as_ref().ok_or("schema")?).map_err(|e| e.to_string())?),
          "get_enum_name" => json!(cache.get_enum_name(&str_list(&st["values_key"]))),
          "get_generated_enum_name" => json!(cache.get_generated_enum_name(&str_list(&st["values_key"]))),
          "precomputed_key" => json!(cache.get_precomputed_enum_cache_key(os.as_ref().ok_or("schema")?).map_err(|e| e.to_string())?),
          "preferred" => json!(
            cache
              .get_preferred_name(os.as_ref().ok_or("schema")?, st["base"].as_str().unwrap_or(""))
              .map_err(|e| e.to_string())?
          ),
          "reg" => {
            let key = if st["key"].is_null() { None } else { Some(str_list(&st["key"])) };
            let base = st["base"].as_str().unwrap_or("").to_string();
            let r = cache
              .prepare_registration(os.as_ref().ok_or("schema")?, &base, key)
              .map_err(|e| e.to_string())?;
            let o = json!({"name": r.assigned_name, "reg_enum": r.should_register_enum, "values": r.enum_values});
            let n = r.assigned_name.clone();
            cache.commit_registration(r, vec![], dummy_type(&n));
            o
          }
          "unique" => json!(cache.make_unique_name(st["base"].as_str().unwrap_or(""))),
          "mark" => {
            cache.mark_name_used(st["name"].as_str().unwrap_or("").to_string());
            Value::Null
          }
          "register_enum" => {
            cache.register_enum(str_list(&st["values_key"]), st["name"].as_str().unwrap_or("").to_string());
            Value::Null
          }
          "get_union" => {
            let refs: BTreeSet<String> = str_list(&st["refs"]).into_iter().collect();
            json!(cache.get_union_name(&refs, st["disc"].as_str()))
          }
          "register_union" => {
            let refs: BTreeSet<String> = str_list(&st["refs"]).into_iter().collect();
            cache.register_union(refs, st["disc"].as_str().map(str::to_string), st["name"].as_str().unwrap_or("").to_string());
            Value::Null
          }
          "conflicts" => json!(
            cache
              .name_conflicts_with_different_schema(st["name"].as_str().unwrap_or(""), os.as_ref().ok_or("schema")?)
              .map_err(|e| e.to_string())?
          ),
          other => return Err(format!("unknown-step:{other}")),
        };
        out.push(res);
        steps_out.push(st);
      }
      input["steps"] = Value::Array(steps_out);
      Ok(json!({"results": out}))
    }
    "share.sites" => share_sites(input),
    "share.resp" => share_resp(input),
    _ => Err(format!("unknown-op:{op}")),
  }
}

// ------------------------------------------------------------------------------------------
// wire expansion of emitted types

struct Defs {
  items: HashMap<String, Value>,
  impls: HashMap<String, Vec<Value>>,
  /// component types that are not occurrences of the case (the fixed pool): the expansion stops
  /// there, so that spec-global effects on them (e.g. a mapped discriminator rewriting the tag
  /// field of its members, property C14) are not attributed to type sharing
  opaque: Vec<String>,
}

fn defs_of(f: &Value) -> Defs {
  let mut items = HashMap::new();
  let mut impls: HashMap<String, Vec<Value>> = HashMap::new();
  for it in f["items"].as_array().cloned().unwrap_or_default() {
    let kind = it["kind"].as_str().unwrap_or("");
    let name = it["name"].as_str().unwrap_or("").to_string();
    match kind {
      "struct" | "enum" | "type" => {
        // a duplicate definition would not compile; keep the first and flag it
        if let Some(prev) = items.get_mut(&name) {
          let p: &mut Value = prev;
          p["duplicate"] = json!(true);
        } else {
          items.insert(name, it);
        }
      }
      "impl" => impls.entry(name).or_default().push(it),
      _ => {}
    }
  }
  Defs { items, impls, opaque: vec![] }
}

fn is_serde_attr(a: &str) -> bool {
  a.starts_with("serde(") || a.starts_with("serde_with") || a.starts_with("serde_as")
}

fn rename_of(attrs: &[String]) -> Option<String> {
  for a in attrs {
    if let Some(r) = a.strip_prefix("serde(rename=\"").and_then(|r| r.strip_suffix("\")")) {
      return Some(r.to_string());
    }
  }
  None
}

fn split_generic(ty: &str) -> Option<(&str, &str)> {
  let i = ty.find('<')?;
  if !ty.ends_with('>') {
    return None;
  }
  Some((&ty[..i], &ty[i + 1..ty.len() - 1]))
}

fn expand(d: &Defs, ty: &str, fuel: u32) -> Value {
  let ty = ty.trim();
  if let Some((head, inner)) = split_generic(ty) {
    match head {
      "Option" => return json!({"opt": expand(d, inner, fuel)}),
      "Box" => return expand(d, inner, fuel),
      "Vec" => return json!({"vec": expand(d, inner, fuel)}),
      "std::collections::BTreeSet" | "BTreeSet" => return json!({"set": expand(d, inner, fuel)}),
      "std::collections::HashMap" | "HashMap" => {
        let v = inner.split_once(',').map_or(inner, |p| p.1);
        return json!({"map": expand(d, v, fuel)});
      }
      _ => return json!({"generic": head, "arg": expand(d, inner, fuel)}),
    }
  }
  if d.opaque.iter().any(|o| o == ty) {
    return json!({"component": ty});
  }
  let Some(def) = d.items.get(ty) else {
    return json!({"prim": ty});
  };
  if fuel == 0 {
    return json!({"rec": true});
  }
  let strs = |v: &Value| -> Vec<String> { v.as_array().map(|a| a.iter().filter_map(|x| x.as_str().map(str::to_string)).collect()).unwrap_or_default() };
  let dup = def.get("duplicate").is_some();
  match def["kind"].as_str().unwrap_or("") {
    "type" => expand(d, def["ty"].as_str().unwrap_or(""), fuel - 1),
    "struct" => {
      let mut fields: Vec<Value> = def["fields"]
        .as_array()
        .cloned()
        .unwrap_or_default()
        .iter()
        .map(|f| {
          let attrs = strs(&f["attrs"]);
          let name = f["name"].as_str().unwrap_or("");
          let wire = rename_of(&attrs).unwrap_or_else(|| name.trim_start_matches("r#").to_string());
          let mut other: Vec<String> = attrs.into_iter().filter(|a| is_serde_attr(a) && !a.starts_with("serde(rename=")).collect();
          other.sort();
          json!({"wire": wire, "attrs": other, "ty": expand(d, f["ty"].as_str().unwrap_or(""), fuel - 1)})
        })
        .collect();
      fields.sort_by_key(|f| f["wire"].as_str().unwrap_or("").to_string());
      let mut attrs: Vec<String> = strs(&def["attrs"]).into_iter().filter(|a| is_serde_attr(a)).collect();
      attrs.sort();
      let mut o = json!({"struct": fields, "attrs": attrs});
      if dup {
        o["duplicate"] = json!(true);
      }
      o
    }
    "enum" => {
      let name = def["name"].as_str().unwrap_or("");
      let mut all_unit = true;
      let mut variants: Vec<Value> = def["variants"]
        .as_array()
        .cloned()
        .unwrap_or_default()
        .iter()
        .map(|v| {
          let mut attrs: Vec<String> = strs(&v["attrs"]).into_iter().filter(|a| is_serde_attr(a)).collect();
          attrs.sort();
          let fs: Vec<Value> = strs(&v["fields"]).iter().map(|t| expand(d, t, fuel - 1)).collect();
          if !fs.is_empty() {
            all_unit = false;
          }
          json!({"attrs": attrs, "fields": fs, "field_names": v["field_names"]})
        })
        .collect();
      let mut custom = vec![];
      let mut assoc = vec![];
      for im in d.impls.get(name).cloned().unwrap_or_default() {
        match im["trait"].as_str() {
          Some(t) if t.contains("Serialize") || t.contains("Deserialize") => {
            for m in im["methods"].as_array().cloned().unwrap_or_default() {
              custom.push(json!([t, m["name"], m["body"]]));
            }
          }
          None => {
            for a in strs(&im["assoc"]) {
              assoc.push(a);
            }
          }
          _ => {}
        }
      }
      if all_unit && custom.is_empty() {
        variants.sort_by_key(|v| v.to_string());
      }
      let mut attrs: Vec<String> = strs(&def["attrs"]).into_iter().filter(|a| is_serde_attr(a)).collect();
      attrs.sort();
      let serde_derives: Vec<String> = strs(&def["derives"]).into_iter().filter(|x| x.ends_with("Serialize") || x.ends_with("Deserialize")).collect();
      let mut o = json!({"enum": variants, "attrs": attrs, "custom": custom, "assoc": assoc, "derives_custom": serde_derives.is_empty()});
      if dup {
        o["duplicate"] = json!(true);
      }
      o
    }
    _ => json!({"prim": ty}),
  }
}

fn idents(ty: &str) -> Vec<String> {
  let mut out = vec![];
  let mut cur = String::new();
  for c in ty.chars().chain(std::iter::once(' ')) {
    if c.is_alphanumeric() || c == '_' {
      cur.push(c);
    } else if !cur.is_empty() {
      out.push(std::mem::take(&mut cur));
    }
  }
  out
}

fn base_names(d: &Defs, ty: &str) -> Vec<String> {
  idents(ty).into_iter().filter(|i| d.items.contains_key(i)).collect()
}

fn run_spec(input: &Value, spec: &Value) -> Result<Defs, String> {
  let req = json!({"spec": spec, "mode": input.get("mode").cloned().unwrap_or(json!("client-mod")), "cfg": input.get("cfg").cloned().unwrap_or(json!({"all_schemas": true}))});
  let (files, _stats) = k_gen::generate(&req)?;
  let types = files.get("types").ok_or("no types file")?;
  let f = facts::file_facts(types);
  if let Some(e) = f.get("parse_error") {
    return Err(format!("emitted types file does not parse: {e}"));
  }
  let mut d = defs_of(&f);
  d.opaque = str_list(&input["opaque"]);
  Ok(d)
}

/// the type a use site names.  site = {"kind":"named","name":N} | {"kind":"prop"|"items","holder":H,"prop":p}
fn site_type(d: &Defs, site: &Value) -> Result<String, String> {
  match site["kind"].as_str().unwrap_or("") {
    "named" => {
      let n = site["name"].as_str().unwrap_or("");
      if d.items.contains_key(n) { Ok(n.to_string()) } else { Err(format!("named type {n} not emitted")) }
    }
    "prop" | "items" => {
      let h = site["holder"].as_str().unwrap_or("");
      let p = site["prop"].as_str().unwrap_or("");
      let def = d.items.get(h).ok_or_else(|| format!("holder {h} not emitted"))?;
      let f = def["fields"]
        .as_array()
        .and_then(|a| a.iter().find(|f| f["name"].as_str().is_some_and(|n| n.trim_start_matches("r#") == p)))
        .ok_or_else(|| format!("field {h}.{p} not emitted"))?;
      Ok(f["ty"].as_str().unwrap_or("").to_string())
    }
    k => Err(format!("site kind {k}")),
  }
}

fn observe(input: &Value, spec: &Value, sites: &[Value]) -> Value {
  let d = match run_spec(input, spec) {
    Ok(d) => d,
    Err(e) => return json!({"err": e}),
  };
  let mut rows = vec![];
  for s in sites {
    match site_type(&d, s) {
      Ok(ty) => {
        let bases = base_names(&d, &ty);
        let wbase = bases.first().map(|b| expand(&d, b, 8)).unwrap_or(Value::Null);
        rows.push(json!({"ty": ty, "base": bases, "w": expand(&d, &ty, 8), "wbase": wbase}));
      }
      Err(e) => rows.push(json!({"err": e})),
    }
  }
  json!({"sites": rows})
}

fn share_sites(input: &mut Value) -> OpResult {
  let occs = input["occs"].as_array().cloned().ok_or("no occs")?;
  let mut occs_out = vec![];
  for mut o in occs.clone() {
    let s = schema_of(&o["schema"])?;
    o["value"] = serde_json::to_value(&s).map_err(|e| e.to_string())?;
    occs_out.push(o);
  }
  input["occs"] = Value::Array(occs_out);
  if let Some(x) = input.get("extra").filter(|x| !x.is_null()).cloned() {
    let s = schema_of(&x["schema"])?;
    input["extra"]["value"] = serde_json::to_value(&s).map_err(|e| e.to_string())?;
  }
  let sites: Vec<Value> = occs.iter().map(|o| o["site"].clone()).collect();
  let specs = input["specs"].clone();
  let combined = observe(input, &specs["combined"], &sites);
  let plus = if specs["plus"].is_null() { Value::Null } else { observe(input, &specs["plus"], &sites) };
  let mut alone = vec![];
  for (i, sp) in specs["alone"].as_array().cloned().unwrap_or_default().iter().enumerate() {
    let o = observe(input, sp, &sites[i..=i]);
    alone.push(if o.get("err").is_some() { o } else { o["sites"][0].clone() });
  }
  // the derived documents are not needed downstream
  if let Some(m) = input.as_object_mut() {
    m.remove("specs");
  }
  Ok(json!({"combined": combined, "plus": plus, "alone": alone}))
}

fn erase_enum(v: &mut Value) {
  match v {
    Value::Object(m) => {
      if m.contains_key("enum") && m.contains_key("variant") {
        m.insert("enum".into(), json!("_"));
      }
      for (_, x) in m.iter_mut() {
        erase_enum(x);
      }
    }
    Value::Array(a) => a.iter_mut().for_each(erase_enum),
    _ => {}
  }
}

fn observe_ops(input: &Value, spec: &Value, opreqs: &[String]) -> Value {
  let req = json!({"spec": spec, "mode": "client-mod", "cfg": {}});
  let (files, _stats) = match k_gen::generate(&req) {
    Ok(x) => x,
    Err(e) => return json!({"err": e}),
  };
  let Some(types) = files.get("types") else { return json!({"err": "no types file"}) };
  let f = facts::file_facts(types);
  if let Some(e) = f.get("parse_error") {
    return json!({"err": format!("emitted types file does not parse: {e}")});
  }
  let d = defs_of(&f);
  let mut rows = vec![];
  for r in opreqs {
    let mut chain = f["chains"].get(r).cloned().unwrap_or(Value::Null);
    erase_enum(&mut chain);
    let out_ty = d
      .impls
      .get(r)
      .and_then(|v| {
        v.iter().find_map(|im| {
          im["methods"].as_array().and_then(|ms| ms.iter().find(|m| m["name"] == "parse_response").map(|m| m["output"].as_str().unwrap_or("").to_string()))
        })
      })
      .unwrap_or_default();
    let bases = base_names(&d, &out_ty);
    let w = bases.first().map(|b| expand(&d, b, 8)).unwrap_or(Value::Null);
    rows.push(json!({"enum": bases.first(), "chain": chain, "w": w}));
  }
  let _ = input;
  json!({"ops": rows})
}

fn share_resp(input: &mut Value) -> OpResult {
  let opreqs: Vec<String> = str_list(&input["opreqs"]);
  let specs = input["specs"].clone();
  let combined = observe_ops(input, &specs["combined"], &opreqs);
  let mut alone = vec![];
  for (i, sp) in specs["alone"].as_array().cloned().unwrap_or_default().iter().enumerate() {
    let o = observe_ops(input, sp, &opreqs[i..=i]);
    alone.push(if o.get("err").is_some() { o } else { o["ops"][0].clone() });
  }
  if let Some(m) = input.as_object_mut() {
    m.remove("specs");
  }
  Ok(json!({"combined": combined, "alone": alone}))
}
