//! Lexical carriers of spec text (C19): the generator's own escaper and doc-line builders, and what proc_macro2 /
//! prettyplease / syn make of them.  The model takes the Unicode tables (`char::escape_debug` printing a character as
//! itself, `char::is_whitespace`) as parameters; the harness ships them per case (`pr`, `ws`).
use quote::{ToTokens, quote};
use serde_json::{Value, json};

use crate::{
  OpResult,
  generator::ast::{Documentation, RustPrimitive},
};

fn raw_printed(c: char) -> bool {
  let mut e = c.escape_debug();
  e.next() == Some(c) && e.next().is_none()
}

fn add_tables(input: &mut Value, s: &str) {
  let pr: String = {
    let mut v: Vec<char> = s.chars().filter(|c| raw_printed(*c)).collect();
    v.sort_unstable();
    v.dedup();
    v.into_iter().collect()
  };
  let ws: String = {
    let mut v: Vec<char> = s.chars().filter(|c| c.is_whitespace()).collect();
    v.sort_unstable();
    v.dedup();
    v.into_iter().collect()
  };
  input["pr"] = Value::String(pr);
  input["ws"] = Value::String(ws);
}

/// the emitted form of a documentation block in front of an item: the `#[doc]` values syn sees in the token stream, the
/// text prettyplease prints for them, and the `#[doc]` values syn reads back from that text
fn doc_facts(doc: &Documentation) -> Result<Value, String> {
  let ts = quote! { #doc struct X; };
  let file: syn::File = syn::parse2(ts).map_err(|e| format!("tokens do not parse: {e}"))?;
  let values = |f: &syn::File| -> Vec<String> {
    let mut out = vec![];
    if let Some(syn::Item::Struct(s)) = f.items.first() {
      for a in &s.attrs {
        if a.path().is_ident("doc")
          && let syn::Meta::NameValue(nv) = &a.meta
          && let syn::Expr::Lit(syn::ExprLit { lit: syn::Lit::Str(l), .. }) = &nv.value
        {
          out.push(l.value());
        }
      }
    }
    out
  };
  let attrs = values(&file);
  let printed = prettyplease::unparse(&file);
  let before = printed.strip_suffix("struct X;\n").map(str::to_string);
  let relexed = syn::parse_file(&printed).map(|f| values(&f)).map_err(|e| e.to_string());
  Ok(json!({
    "attrs": attrs,
    "printed": before,
    "printed_all": if before.is_none() { Value::String(printed.clone()) } else { Value::Null },
    "relexed": match relexed { Ok(v) => json!(v), Err(e) => json!({"error": e}) },
  }))
}

pub fn eval(op: &str, input: &mut Value) -> OpResult {
  match op {
    "lex.escape" => {
      let s = input["s"].as_str().ok_or("no s")?.to_string();
      add_tables(input, &s);
      let text = RustPrimitive::String.format_value(&Value::String(s));
      let lexed = syn::parse_str::<syn::LitStr>(&text).map(|l| l.value()).ok();
      Ok(json!({"text": text, "lexed": lexed}))
    }
    "lex.lit" => {
      let s = input["s"].as_str().ok_or("no s")?.to_string();
      add_tables(input, &s);
      // exactly what `quote! { #s }` puts into the token stream
      let ts = s.to_token_stream();
      let lit = ts.to_string();
      let lexed = syn::parse_str::<syn::LitStr>(&lit).map(|l| l.value()).ok();
      // followed by other tokens, as in emitted code
      let glued = format!("{lit}; tail()");
      let first = syn::parse_str::<proc_macro2::TokenStream>(&glued)
        .ok()
        .and_then(|t| t.into_iter().next())
        .map(|t| t.to_string());
      Ok(json!({"lit": lit, "lexed": lexed, "first_token": first}))
    }
    "lex.doc" => {
      let s = input["s"].as_str().ok_or("no s")?.to_string();
      add_tables(input, &s);
      let doc = Documentation::from_optional(Some(&s));
      let shown = doc.to_string();
      let lines: Vec<&str> = shown.split_terminator('\n').collect();
      let mut v = doc_facts(&doc)?;
      v["lines_joined"] = Value::String(shown.clone());
      v["lines"] = json!(lines);
      Ok(v)
    }
    "lex.opdoc" => {
      let summary = input["summary"].as_str().map(str::to_string);
      let description = input["description"].as_str().map(str::to_string);
      let path = input["path"].as_str().unwrap_or("/x").to_string();
      let method: http::Method = input["method"].as_str().unwrap_or("GET").parse().map_err(|_| "bad method")?;
      let all = format!("{}{}", summary.clone().unwrap_or_default(), description.clone().unwrap_or_default());
      add_tables(input, &all);
      let doc = Documentation::documentation()
        .maybe_summary(summary.as_deref())
        .maybe_description(description.as_deref())
        .method(&method)
        .path(&path)
        .call();
      let shown = doc.to_string();
      let mut v = doc_facts(&doc)?;
      v["lines_joined"] = Value::String(shown);
      Ok(v)
    }
    // C04, decoding clause: the support crate's `json_with_diagnostics` on an in-memory reqwest::Response
    "lex.decode" => {
      use oas3_gen_support::Diagnostics;
      #[derive(serde::Deserialize, serde::Serialize)]
      #[serde(deny_unknown_fields)]
      struct Pet {
        name: String,
      }
      let body = input["body"].as_str().ok_or("no body")?.to_string();
      let typed = input["ty"].as_str() == Some("pet");
      let mk = |b: String| {
        reqwest::Response::from(
          http::Response::builder()
            .status(200)
            .header("content-type", "application/json")
            .body(b)
            .unwrap(),
        )
      };
      let rt = tokio::runtime::Builder::new_current_thread().build().map_err(|e| e.to_string())?;
      let out = if typed {
        let r: Result<Pet, _> = rt.block_on(mk(body).json_with_diagnostics());
        r.map(|p| serde_json::to_value(p).unwrap()).map_err(|e| e.to_string())
      } else {
        let r: Result<Value, _> = rt.block_on(mk(body).json_with_diagnostics());
        r.map_err(|e| e.to_string())
      };
      Ok(match out {
        Ok(v) => json!({"ok": v}),
        Err(e) => json!({"err": e}),
      })
    }
    _ => Err(format!("unknown-op:{op}")),
  }
}
