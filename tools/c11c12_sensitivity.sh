#!/bin/bash
# Sensitivity of C11 / C12 to a source change, without touching /repo:
#   tools/c11c12_sensitivity.sh <patch.diff> <C11|C12> [workdir=/tmp/c11c12_sens]
# 1. copies /repo (without target/) to <workdir>/repo, applies the patch, builds the CLI offline into <workdir>/target;
# 2. translator: regenerates the hash-site / panic-site tables FROM THE PATCHED TREE into <workdir>/gen (VERIF_REPO +
#    VERIF_GEN_DIR) and prints the rows that are not in the checked-in tables (a new row = the theorem
#    `no_unjustified_hash_iteration` / `panic_sites_justified` no longer checks);
# 3. runs `bin/check <prop>` with VERIF_CLI=<patched binary>: the check's own case generators judge that binary.
# Exit status: 0 = the change was NOT noticed, 1 = noticed (by the tables and/or by a failing input).
set -u
patch="$1"; prop="$2"; work="${3:-/tmp/c11c12_sens}"
here="$(cd "$(dirname "$0")/.." && pwd)"
mkdir -p "$work/repo" "$work/gen"
( cd /repo && tar --exclude=./target -cf - . ) | ( cd "$work/repo" && tar xf - )
( cd "$work/repo" && git checkout -q -- . 2>/dev/null; git apply "$patch" ) || { echo "patch does not apply"; exit 2; }
( cd "$work/repo" && CARGO_NET_OFFLINE=true cargo build --offline -p oas3-gen --bin oas3-gen --target-dir "$work/target" 2>&1 | tail -1 ) || exit 2
noticed=0
VERIF_REPO="$work/repo" VERIF_GEN_DIR="$work/gen" python3 "$here/tools/extract.py" hashsites panicsites > "$work/extract.json"
for t in HashSites PanicSites; do
  new=$(diff <(grep -o '^  (.*' "$here/lean/Oas3Model/Oas3Model/Gen/$t.lean" | sed 's/[],]*$//' | sort) <(grep -o '^  (.*' "$work/gen/$t.lean" | sed 's/[],]*$//' | sort) | grep '^>' )
  if [ -n "$new" ]; then echo "translator: new rows in Gen/$t.lean:"; echo "$new"; noticed=1; fi
done
VERIF_CLI="$work/target/debug/oas3-gen" "$here/bin/check" "$prop" 2>&1 | grep -v '^KNOWN-FINDING' | tail -3
[ "${PIPESTATUS[0]}" != "0" ] && noticed=1
echo "noticed=$noticed"
exit $noticed
