#!/bin/bash
# tools/thorough_all.sh [PROP…] — run the thorough tier of every check once; list alarms and timings
cd "$(dirname "$0")/.."
props=${@:-$(ls bin/checks | sed -n 's/^c\([0-9][0-9]\)\.py$/C\1/p')}
mkdir -p .cache/thorough
for p in $props; do
  s=$(date +%s)
  bin/check $p --tier thorough > .cache/thorough/$p.log 2>&1; rc=$?
  e=$(date +%s)
  echo "$p rc=$rc $((e-s))s :: $(tail -1 .cache/thorough/$p.log | cut -c1-160)"
  [ $rc -ne 0 ] && cp evidence/replay/$p.json .cache/thorough/$p.replay.json 2>/dev/null
done
echo thorough-done
