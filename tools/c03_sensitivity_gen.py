#!/usr/bin/env python3
"""Regenerates corpus/C03_sensitivity.jsonl: the REAL extraction (harness on the unchanged tree) of the last line of
corpus/C03.jsonl, followed by copies with ONE hand-made modification of the `impl` facts each (see "note")."""
import copy, json, os, subprocess, sys
V = os.path.dirname(os.path.dirname(os.path.abspath(__file__)))
sys.path.insert(0, os.path.join(V, "bin"))
from checks import c03
case = json.loads([l for l in open(os.path.join(V, "corpus", "C03.jsonl"), encoding="utf-8") if l.strip()][-1])
out = subprocess.run([os.path.join(V, ".cache", "target", "debug", "hk")], input=json.dumps(c03.prepare(case)) + "\n", capture_output=True, text=True).stdout
base = json.loads(out.splitlines()[0])
del base["in"]["spec"]                       # the driver reads the operation description only
lines = [dict(base, note="unmodified extraction of the unchanged tree")]


def variant(note, f):
    t = copy.deepcopy(base)
    w = t["impl"]["wire"]
    f(w, w["ops"][0])
    t["note"] = note
    lines.append(t)


def qf(op, field):
    return next(x for x in op["query"]["fields"] if x["field"] == field)


def he(op, field):
    return next(x for x in op["headers"]["encode"] if x["field"] == field)


FOLD = "headers.x_scopes.iter().fold(String::new(),|mut acc,v|{if!acc.is_empty(){acc.push(',');}acc.push_str(&v.to_string());acc})"
variant("serde rename lost on the delimited array member tag_ids (tagIds goes out as tag_ids)", lambda w, o: qf(o, "tag_ids").update(key="tag_ids"))
variant("serde rename lost on the pipe-delimited path-level member filter_labels", lambda w, o: qf(o, "filter_labels").update(key="filter_labels"))
variant("serde rename lost on the scalar member page_size", lambda w, o: qf(o, "page_size").update(key="page_size"))
def fold(w, o):
    he(o, "x_scopes").update(form="other", text="&" + FOLD); he(o, "x_scopes").pop("sep")
    w["unreadable"].append("header value expression: let header_value=http::HeaderValue::try_from(&" + FOLD + ")?;")
variant("array header value built by a fold that skips the comma while the accumulator is empty", fold)
variant("pipeDelimited member carries the comma adapter", lambda w, o: qf(o, "filter_labels").update(serde_as="Option<oas3_gen_support::StringWithCommaSeparator>"))
variant("spaceDelimited member lost its separator adapter", lambda w, o: qf(o, "sort_by").update(serde_as=None))
variant("scalar member carries a separator adapter", lambda w, o: qf(o, "page_size").update(serde_as="Option<oas3_gen_support::StringWithCommaSeparator>"))
variant("required member tag_ids became an Option", lambda w, o: qf(o, "tag_ids").update(optional=True, ty="Option<Vec<String>>", serde_as="Option<oas3_gen_support::StringWithCommaSeparator>"))
variant("header-name constant X_TRACE has the value x_trace", lambda w, o: w["consts"].update(X_TRACE="x_trace"))
variant("header-name constant keeps the capitals (X-Scopes)", lambda w, o: w["consts"].update(X_SCOPES="X-Scopes"))
variant("insertion uses a constant that is not emitted", lambda w, o: he(o, "x_num").update(const="X_NUMBER"))
variant("header items joined with ';'", lambda w, o: he(o, "x_ids").update(sep=";"))
variant("array header sent through to_string()", lambda w, o: (he(o, "x_scopes").update(form="to_string"), he(o, "x_scopes").pop("sep")))
variant("integer header passed as it is (no to_string)", lambda w, o: he(o, "x_num").update(form="str"))
variant("optional header x_num inserted unconditionally", lambda w, o: he(o, "x_num").update(optional=False))
variant("required header x_trace inserted under `if let Some`", lambda w, o: he(o, "x_trace").update(optional=True))
variant("one header insertion missing", lambda w, o: o["headers"]["encode"].pop())
variant("one query member missing", lambda w, o: o["query"]["fields"].pop(0))
variant("two insertions swapped (x_ids written under X_NUM and vice versa)", lambda w, o: (he(o, "x_ids").update(const="X_NUM"), he(o, "x_num").update(const="X_IDS")))
with open(os.path.join(V, "corpus", "C03_sensitivity.jsonl"), "w", encoding="utf-8") as f:
    for l in lines:
        f.write(json.dumps(l, ensure_ascii=False) + "\n")
print(len(lines), "lines")
