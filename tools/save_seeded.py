#!/usr/bin/env python3
"""tools/save_seeded.py <confirm-log> <json: {"Cxx/mN": "detected_by text", …}> — copy confirmed mutations into seeded/"""
import json, os, shutil, re, sys
conf = {}
for l in open(sys.argv[1]):
    m = re.match(r'(C\d\d) (m\d+) ', l)
    if m:
        conf[(m.group(1), m.group(2))] = l.strip()
det = json.load(open(sys.argv[2]))
for key, text in det.items():
    p, m = key.split("/")
    line = conf.get((p, m))
    if not line:
        print("no confirmation line for", key); continue
    ok = 'demo_with_rc=0' not in line and 'demo_without_rc=0' in line and '494 passed; 0 failed' in line
    if not ok:
        print("NOT CONFIRMED", key, line[:200]); continue
    src = f'/tmp/mut/out/{p}/{m}'; dst = f'/verif/seeded/{p}/{m}'
    os.makedirs(dst, exist_ok=True)
    shutil.copyfile(src + '/patch.diff', dst + '/patch.diff')
    if os.path.isdir(dst + '/demo'):
        shutil.rmtree(dst + '/demo')
    shutil.copytree(src + '/demo', dst + '/demo', ignore=shutil.ignore_patterns('target', '*.log', 'Cargo.lock.bak', 'node_modules', '.harness-target'))
    meta = json.load(open(src + '/meta.json'))
    meta['confirmed_by_me'] = line
    meta['detected_by'] = text
    json.dump(meta, open(dst + '/meta.json', 'w'), indent=1, ensure_ascii=False)
    print("saved", key)
