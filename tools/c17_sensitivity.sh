#!/bin/bash
# tools/c17_sensitivity.sh <PROP> <patch.diff> [work-dir]
# Builds the harness against a PRIVATE patched copy of the generator sources (never touches /repo) and runs the
# case generators and judges of bin/checks/<prop>.py against it (tools/with_hk.py).  Exit 1 = the check reports
# the change (expected for a regression), 0 = the change goes unnoticed.  The copies are removed afterwards.
set -u
prop=$1; patch=$(readlink -f "$2"); work=${3:-/tmp/w_c17}
verif=$(cd "$(dirname "$0")/.." && pwd)
rm -rf "$work/repo_mut" "$work/harness_mut"
mkdir -p "$work/repo_mut" "$work/target_mut"
( cd /repo && tar cf - --exclude=./target --exclude=./.git . ) | ( cd "$work/repo_mut" && tar xf - )
( cd "$work/repo_mut" && patch -p1 -s < "$patch" ) || { echo "patch does not apply"; exit 2; }
cp -r "$verif/harness" "$work/harness_mut"
rm -rf "$work/harness_mut/target"
sed -i "s#\"/repo/#\"$work/repo_mut/#g" "$work/harness_mut/src/main.rs" "$work/harness_mut/src/sse.rs" "$work/harness_mut/Cargo.toml" 2>/dev/null
cp "$work/repo_mut/Cargo.lock" "$work/harness_mut/Cargo.lock"
# seed the private target dir with the dependency artefacts of the regular build (only the harness crate is rebuilt)
if [ ! -d "$work/target_mut/debug/deps" ] && [ -d "$verif/.cache/target/debug/deps" ]; then
  mkdir -p "$work/target_mut/debug"
  cp -r "$verif/.cache/target/debug/deps" "$verif/.cache/target/debug/build" "$verif/.cache/target/debug/.fingerprint" "$work/target_mut/debug/"
fi
( cd "$work/harness_mut" && CARGO_NET_OFFLINE=true CARGO_TARGET_DIR="$work/target_mut" cargo build --offline --bin hk --features all 2>&1 | tail -2 ) || exit 2
cp "$work/target_mut/debug/hk" "$work/hk_mut_$$"
python3 "$verif/tools/with_hk.py" "$prop" "$work/hk_mut_$$"
rc=$?
rm -rf "$work/repo_mut" "$work/harness_mut" "$work/hk_mut_$$"
exit $rc
