#!/usr/bin/env python3
"""Self-test of the hash-site scan (tools/extract.py: gen_hashsites) on a synthetic source tree: every shape of
"iteration over a hash container" below must produce a row, every lookup-only use must not.  Exit 1 on a miss."""
import json, os, subprocess, sys, tempfile

SRC = r'''
use std::collections::{HashMap, HashSet};
type Index = HashMap<String, usize>;
pub struct Filter { only: Option<HashSet<String>>, excluded: Option<HashSet<String>>, idx: Index, seen: std::rc::Rc<std::cell::RefCell<HashSet<String>>>, lookup_only: HashSet<u8> }
fn walk(items: impl IntoIterator<Item = String>) -> Vec<String> { items.into_iter().collect() }
fn walk_generic<I: IntoIterator<Item = String>>(n: usize, items: I) -> usize { n }
fn walk_where<I>(items: I) where I: Iterator<Item = String> {}
fn make() -> HashSet<String> { HashSet::new() }
impl Filter {
  fn a(&self) -> Vec<String> { let Some(ref included) = self.only else { return vec![] }; included.iter().cloned().collect() }
  fn b(&self) { if let Some(ex) = self.excluded.as_ref() { for x in ex { drop(x); } } }
  fn c(&self) -> Vec<&String> { self.idx.keys().collect() }
  fn d(&self, extra: &mut Vec<String>) { extra.extend(self.only.clone().unwrap_or_default()); }
  fn e(&self) -> Vec<String> { walk(self.only.clone().unwrap()) }
  fn f(&self, param_set: &HashSet<String>) -> usize { walk_generic(3, param_set.clone()) }
  fn g(&self) { let borrowed = self.seen.borrow(); for s in borrowed.iter() { drop(s); } }
  fn h(&self) -> bool { self.lookup_only.contains(&1) && self.lookup_only.len() > 2 }
  fn i(&self) -> Vec<String> { self.only.as_ref().map(|set| set.iter().cloned().collect()).unwrap_or_default() }
  fn j(&self) -> Vec<String> { make().into_iter().collect() }
  fn k(&self) { let made = make(); for m in &made {} }
  fn l(&self, other: &Filter) -> usize { match other.only { Some(ref theirs) => theirs.iter().count(), None => 0 } }
  fn m(a: HashSet<u8>, b: HashSet<u8>) -> Vec<u8> { a.union(&b).copied().collect() }
}
'''
OTHER = r'''
use super::Filter;
fn outside(filter: &Filter) -> Vec<String> { filter.excluded.iter().flatten().cloned().collect() }
fn outside_lookup(filter: &Filter) -> bool { filter.lookup_only.contains(&2) }
fn opt(maybe: Option<&std::collections::HashMap<String, u8>>) { if let Some(mm) = maybe { for (k, v) in mm.iter() {} } }
'''
EXPECT = [("generator/x.rs", "included", ".iter()"), ("generator/x.rs", "ex", "for-in"), ("generator/x.rs", "idx", ".keys()"), ("generator/x.rs", "only", "arg:extend"),
          ("generator/x.rs", "only", "arg:walk"), ("generator/x.rs", "param_set", "arg:walk_generic"), ("generator/x.rs", "borrowed", ".iter()"), ("generator/x.rs", "set", ".iter()"),
          ("generator/x.rs", "make()", ".into_iter()"), ("generator/x.rs", "made", "for-in"), ("generator/x.rs", "theirs", ".iter()"), ("generator/x.rs", "a", ".union("),
          ("generator/y.rs", "excluded", ".iter()"), ("generator/y.rs", "mm", ".iter()")]
FORBID = [("generator/x.rs", "lookup_only"), ("generator/y.rs", "lookup_only")]

with tempfile.TemporaryDirectory() as t:
    src = os.path.join(t, "repo", "crates", "oas3-gen", "src")
    for d in ("generator", "utils", "ui/commands"):
        os.makedirs(os.path.join(src, d))
    open(os.path.join(src, "generator", "x.rs"), "w").write(SRC)
    open(os.path.join(src, "generator", "y.rs"), "w").write(OTHER)
    for f in ("generate.rs", "list.rs"):
        open(os.path.join(src, "ui/commands", f), "w").write("fn main() {}\n")
    gen = os.path.join(t, "gen"); os.makedirs(gen)
    p = subprocess.run([sys.executable, os.path.join(os.path.dirname(os.path.abspath(__file__)), "extract.py"), "hashsites"], capture_output=True, text=True,
                       env=dict(os.environ, VERIF_REPO=os.path.join(t, "repo"), VERIF_GEN_DIR=gen))
    table = open(os.path.join(gen, "HashSites.lean")).read()
    it = table[table.index("def iterations"):]
    bad = 0
    for f, ident, op in EXPECT:
        row = f'("{f}".toList, "{ident}".toList, "{op}".toList)'
        if row not in it:
            print("MISSED", row); bad += 1
    for f, ident in FORBID:
        if f'("{f}".toList, "{ident}".toList, ' in it:
            print("SPURIOUS", f, ident); bad += 1
    print(json.dumps({"expected": len(EXPECT), "missed_or_spurious": bad, "report": p.stdout.strip()[-200:]}))
    if bad:
        print(it)
    sys.exit(1 if bad else 0)
