//! Run-time reproduction of the request-side route findings of C06 on the real axum 0.8.8 / matchit 0.8.4
//! (F-C06-6 raw-identifier capture -> 400, F-C06-7 suffix segment -> router() panics, F-C06-8 literal needing
//! percent-encoding -> 404) and of the significance of the trailing slash.  Not part of bin/check.
//! cp /repo/Cargo.lock . && CARGO_TARGET_DIR=../../.cache/arena-target cargo run --offline
use axum::{Router, body::Body, extract::Path, routing::get};
use tower_service::Service;
#[derive(serde::Deserialize)]
struct P { r#type: String }
#[derive(serde::Deserialize)]
struct Q { id: String }
async fn h(Path(p): Path<P>) -> String { p.r#type }
async fn g(Path(p): Path<Q>) -> String { p.id }
fn call(app: &mut Router, uri: &str) -> http::StatusCode {
  let req = http::Request::builder().uri(uri).body(Body::empty()).unwrap();
  futures::executor::block_on(app.call(req)).unwrap().status()
}
fn main() {
  let mut app = Router::new().route("/c/{r#type}", get(h)).route("/ok/{type}", get(h)).route("/g h/{id}", get(g)).route("/items", get(|| async { "x" }));
  println!("raw-ident capture  GET /c/abc        -> {}", call(&mut app, "/c/abc"));
  println!("plain capture      GET /ok/abc       -> {}", call(&mut app, "/ok/abc"));
  println!("encoded literal    GET /g%20h/1      -> {}", call(&mut app, "/g%20h/1"));
  println!("trailing slash     GET /items/       -> {}", call(&mut app, "/items/"));
  println!("no trailing slash  GET /items        -> {}", call(&mut app, "/items"));
  let r = std::panic::catch_unwind(|| Router::<()>::new().route("/d/{id}.json", get(g)));
  println!("suffix segment     route(\"/d/{{id}}.json\") -> {}", if r.is_err() { "panics" } else { "accepted" });
}
