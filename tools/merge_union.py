#!/usr/bin/env python3
"""resolve git conflict blocks by keeping both sides (ours first, then theirs) — review the result."""
import sys
for p in sys.argv[1:]:
    out, ours, theirs, state = [], [], [], 0
    for l in open(p, encoding="utf-8"):
        if l.startswith("<<<<<<< "):
            state, ours, theirs = 1, [], []
        elif l.startswith("=======") and state == 1:
            state = 2
        elif l.startswith(">>>>>>> ") and state == 2:
            out += ours + theirs      # never de-duplicate: identical lines (`return s`, cfg attributes) are often both needed
            state = 0
        elif state == 1:
            ours.append(l)
        elif state == 2:
            theirs.append(l)
        else:
            out.append(l)
    open(p, "w", encoding="utf-8").write("".join(out))
