#!/usr/bin/env python3
"""tools/with_hk.py <PROP> <path-to-hk> [--tier quick|thorough]

Runs the case generators and judges of bin/checks/<prop>.py against ANOTHER harness binary (for instance
one built from a patched copy of the generator sources, see tools/c07_sensitivity.sh) without touching
/repo, evidence/ or the harness build.  Prints the verdict lines and the first violations."""
import argparse, importlib, json, os, sys

sys.path.insert(0, os.path.join(os.path.dirname(os.path.dirname(os.path.abspath(__file__))), "bin"))
import vlib


def main():
    ap = argparse.ArgumentParser()
    ap.add_argument("prop"); ap.add_argument("hk"); ap.add_argument("--tier", default="quick")
    ap.add_argument("--sse", default=None, help="C20: another `sse` binary (default: the one built from /repo by the last bin/check C20)")
    a = ap.parse_args()
    os.chdir(vlib.VERIF)
    ctx = vlib.Ctx(a.prop, a.tier, int(os.environ.get("VERIF_SEED", "20260929")))
    ctx.replay = None
    hk = os.path.abspath(a.hk)
    def build_harness(features, bins=("hk",)):
        ctx.bins = {"hk": hk, "sse": os.path.abspath(a.sse) if a.sse else os.path.join(vlib.CACHE, "bin", f"sse-{a.prop}")}
        return True
    ctx.build_harness = build_harness
    ctx.translate = lambda needed: True
    ctx.audit = lambda m: 0
    ctx.leanchecker = lambda m: None
    def finish(**kw):
        for v in ctx.violations[:5]:
            print("VIOLATION", json.dumps(v["case"], ensure_ascii=False)[:600], "::", v.get("why"))
        for m in ctx.mismatches[:3]:
            print("MISMATCH", json.dumps(m["case"], ensure_ascii=False)[:400], "model=", json.dumps(m.get("model"))[:300])
        print(f"[{a.prop}] hk={hk} evaluations={ctx.evaluations} violations={len(ctx.violations)} mismatches={len(ctx.mismatches)} known={sorted(ctx.known_seen)}")
        return 1 if ctx.violations or ctx.mismatches else 0
    ctx.finish = finish
    mod = importlib.import_module(f"checks.{a.prop.lower()}")
    sys.exit(mod.run(ctx))


if __name__ == "__main__":
    main()
