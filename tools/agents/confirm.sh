#!/bin/bash
# usage: confirm.sh ID [demo args...]   (no git stash: the stash is shared by all worktrees)
ID=$1; shift
W=/tmp/mut/$ID; O=/tmp/mut/out/$ID
cd $W || exit 2
export CARGO_NET_OFFLINE=true
{
git checkout -q -- . ; git apply $O/patch.diff || echo "PATCH DOES NOT APPLY"
echo "== diff stat"; git diff --stat
echo "== build (changed)"; cargo build --offline 2>&1 | tail -1
echo "== tests (changed)"; cargo test --workspace --no-fail-fast --offline 2>&1 | grep -E "^test result|FAILED|failed" | head
echo "== demo (changed)"; (cd $O/demo && bash ./demo.sh $W/target/debug/oas3-gen "$@" 2>&1 | tail -40) > $O/confirm_changed.txt; cat $O/confirm_changed.txt | tail -25
git apply -R $O/patch.diff
echo "== status after reverting (must be empty)"; git status --short | grep -v '^??' 
echo "== build (unchanged)"; cargo build --offline 2>&1 | tail -1
echo "== demo (unchanged)"; (cd $O/demo && bash ./demo.sh $W/target/debug/oas3-gen "$@" 2>&1 | tail -40) > $O/confirm_unchanged.txt; cat $O/confirm_unchanged.txt | tail -25
git apply $O/patch.diff
echo "== differs:"; cmp -s $O/confirm_changed.txt $O/confirm_unchanged.txt && echo SAME || echo DIFFERENT
} > $O/confirm.log 2>&1
