#!/bin/bash
# tools/sweep.sh <seed-from> <seed-to> [PROP…] — run the quick tier under several seeds; list every alarm
cd "$(dirname "$0")/.."
from=$1; to=$2; shift 2
props=${@:-$(python3 -c "import json;print(' '.join(c['property'] for c in json.load(open('MANIFEST.json'))['checks']))" 2>/dev/null)}
[ -z "$props" ] && props=$(ls bin/checks | sed -n 's/^c\([0-9][0-9]\)\.py$/C\1/p')
mkdir -p .cache/sweep
for s in $(seq $from $to); do for p in $props; do
  VERIF_SEED=$s bin/check $p > .cache/sweep/$p.$s.log 2>&1; rc=$?
  if [ $rc -ne 0 ]; then echo "ALARM $p seed=$s rc=$rc"; cp evidence/replay/$p.json .cache/sweep/$p.$s.replay.json 2>/dev/null; fi
done; done
echo sweep-done
