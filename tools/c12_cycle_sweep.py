#!/usr/bin/env python3
"""Sweep of the C12 cycle grammar on the CLI binary (the one `bin/check C12` would judge, or VERIF_CLI=<path>):
every chain of 1..N composition keywords x {self, sibling} x {bare, rich}, judged by the Lean driver (`cli.outcome`).
Prints every run that fails and is NOT attributed to a known class, and a table failure-class -> count.
Used to calibrate the spec-side class predicates of Driver/Cli.lean against the UNCHANGED binary (they may only
cover shapes that are reproduced there) and as a sensitivity run against a patched binary.

usage: tools/c12_cycle_sweep.py [maxlen=2] [modes=types,client-mod]"""
import json, os, sys
sys.path.insert(0, os.path.join(os.path.dirname(os.path.abspath(__file__)), "..", "bin"))
import vlib, cligrammar as G
from checks import c12

maxlen = int(sys.argv[1]) if len(sys.argv) > 1 else 2
modes = (sys.argv[2] if len(sys.argv) > 2 else "types,client-mod").split(",")
ctx = vlib.Ctx("C12", "quick", 0)
ctx.prop = "C12sweep"
assert ctx.build_cli()
d = ctx.scratch("sweep")
cases, n = [], 0
for chain in G.all_chains(maxlen):
    for tgt in ("self", "sib"):
        for rich in (False, True):
            for back in ([None] if tgt == "self" else [None, "items", "allOf", "properties"]):
                if tgt == "sib" and back == chain[0]:
                    continue
                for mode in modes:
                    c = c12.run_one(ctx, d, G.cycle_doc(chain, tgt, rich, back), mode, "ok", f"s{n}"); n += 1
                    c["primary"].update({"chain": list(chain), "to": tgt, "rich": rich, "back": back})
                    cases.append(c)
tab, bad = {}, 0
for i in range(0, len(cases), 200):
    chunk = cases[i:i + 200]
    ans = ctx.run_model([{"op": c["op"], "in": c["in"], "impl": c["impl"]} for c in chunk])
    for c, a in zip(chunk, ans):
        j = a["judge"]
        key = "ok" if j["ok"] else ("+".join(j["known"]) or "UNATTRIBUTED")
        tab[key] = tab.get(key, 0) + 1
        if key == "UNATTRIBUTED":
            bad += 1
            p = c["primary"]
            print("UNATTRIBUTED", p["chain"], p["to"], "rich" if p["rich"] else "bare", "back=%s" % p["back"], p["mode"], "rc=%s" % c["impl"]["rc"], j["why"])
print(json.dumps({"runs": len(cases), "classes": tab}))
sys.exit(1 if bad else 0)
