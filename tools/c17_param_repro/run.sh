#!/bin/bash
# Reproduces finding F17-6 at run time: the query-parameter struct that `generate server-mod` emits for
# `?mem` (integer, default 5) / `?c` (string, const "k", required) is compiled against the documented crates
# (the C17 arena crate) and decoded from a request that omits both parameters.
# Prints the emitted struct, the decoded value and Default::default().  Needs bin/setup (harness built).
set -eu
cd "$(dirname "$0")/../.."
hk=.cache/target/debug/hk
[ -x "$hk" ] || { echo "harness not built (bin/setup)"; exit 2; }
dir=.cache/arena-c17-param
rm -rf "$dir"; mkdir -p "$dir/src"
cp arena/c17/Cargo.toml "$dir/Cargo.toml"; cp /repo/Cargo.lock "$dir/Cargo.lock"
PYTHONPATH=bin python3 - "$hk" "$dir" <<'PY'
import json, re, subprocess, sys
from checks import c17
M = lambda ty, **k: dict({"kind": {"scalar": {"ty": ty}}}, **k)
doc = {"mode": "server-mod", "builders": False, "comps": [], "params": [
    {"name": "c", "loc": "query", "m": M("string", const="k", required=True)},
    {"name": "mem", "loc": "query", "m": M("integer", default=5)}]}
case = c17.prepare({"op": "dflt.doc", "in": {"doc": doc}, "_want_code": True})
out = json.loads(subprocess.run([sys.argv[1]], input=json.dumps(case) + "\n", capture_output=True, text=True).stdout)
code = out["impl"]["code"]
m = re.search(r"((?:#\[[^\n]*\n)+)pub struct PqRequestQuery \{.*?\n\}", code, re.S)
struct = m.group(0)
print(struct)
open(sys.argv[2] + "/src/main.rs", "w").write("#![allow(warnings)]\nuse serde::Deserialize;\n" + struct + '''
fn main() {
    // what axum::extract::Query does: serde over the pairs that are present
    let both: Result<PqRequestQuery, _> = serde_json::from_str(r#"{"c":"k"}"#);
    println!("decode(?c=k)        = {:?}", both);
    let none: Result<PqRequestQuery, _> = serde_json::from_str("{}");
    println!("decode(no parameter) = {:?}", none.map_err(|e| e.to_string()));
    println!("Default::default()   = {:?}", PqRequestQuery::default());
}
''')
PY
( cd "$dir" && CARGO_NET_OFFLINE=true CARGO_TARGET_DIR="$PWD/../arena-target" cargo run --offline -q 2>&1 | tail -5 )
