#!/bin/bash
# Sensitivity of the C07 / C09 emitted-code judges: corpus/C07_sensitivity.jsonl holds real harness output on
# four documents plus hand-edited copies (see tools/c07_sensitivity_gen.py).  Every edited line must be judged
# ok=false with known=[] (an unlisted failure = VIOLATION), every control line ok=true.  Exit 0 iff so.
set -u
cd "$(dirname "$0")/.."
driver=lean/Oas3Model/.lake/build/bin/driver
[ -x "$driver" ] || { echo "driver not built (bin/setup)"; exit 2; }
python3 - "$driver" <<'PY'
import json, subprocess, sys
lines = [json.loads(l) for l in open("corpus/C07_sensitivity.jsonl") if l.strip()]
inp = "".join(json.dumps({"op": l["op"], "in": l["in"], "impl": l["impl"]}) + "\n" for l in lines)
out = subprocess.run([sys.argv[1]], input=inp, capture_output=True, text=True).stdout.splitlines()
bad = 0
for l, o in zip(lines, out):
    a = json.loads(o)
    j = a.get("judge") or {}
    good = (j.get("ok") is True) if l["expect_ok"] else (j.get("ok") is False and j.get("known") == [])
    bad += not good
    print(("ok  " if good else "FAIL"), l["op"], "| edit:", l["edit"], "| judge.ok=%s known=%s match=%s why=%s" % (j.get("ok"), j.get("known"), a.get("match"), (j.get("why") or "")[:140]))
print("%d lines, %d wrong" % (len(lines), bad))
sys.exit(1 if bad or len(out) != len(lines) else 0)
PY
