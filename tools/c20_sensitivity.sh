#!/bin/bash
# tools/c20_sensitivity.sh <patch.diff> <workdir> [quick|thorough]
# Runs the C20 case generators and judges against a harness built from a PATCHED PRIVATE COPY of the sources
# (git archive of /repo's HEAD + the patch), without touching /repo, evidence/ or the regular harness build.
# Expected for a regression of the property: VIOLATION lines (unlisted failures) and exit 1.
set -eu
patch=$(readlink -f "$1"); work=$(readlink -f "$2"); tier=${3:-quick}
here=$(cd "$(dirname "$0")/.." && pwd)
repo=${VERIF_REPO:-/repo}
mkdir -p "$work"
rm -rf "$work/repo" "$work/harness"
mkdir -p "$work/repo"
git -C "$repo" archive HEAD | tar -x -C "$work/repo"
( cd "$work/repo" && patch -p1 -s < "$patch" )
rsync -a --exclude target "$here/harness/" "$work/harness/"
grep -rl "$repo/" "$work/harness" --include='*.rs' --include=Cargo.toml | xargs sed -i "s#$repo/#$work/repo/#g"
cp "$repo/Cargo.lock" "$work/harness/Cargo.lock"
# git archive / rsync keep old mtimes: make cargo see the copies as changed, or a stale binary of an earlier patch is reused
find "$work/repo/crates" "$work/harness/src" -name '*.rs' -exec touch {} +
export CARGO_NET_OFFLINE=true CARGO_TARGET_DIR="$work/target"
# start from the regular build's artefacts when there are any (dependencies are the same)
[ -d "$work/target" ] || { [ -d "$here/.cache/target" ] && cp -r "$here/.cache/target" "$work/target" || true; }
( cd "$work/harness" && cargo build --offline --bin sse 2>&1 | tail -2 && cargo build --offline --bin hk --features k_gen 2>&1 | tail -2 )
cd "$here"
python3 tools/with_hk.py C20 "$work/target/debug/hk" --sse "$work/target/debug/sse" --tier "$tier" | cut -c1-700
exit "${PIPESTATUS[0]}"
