#!/bin/bash
# merge an agent clone's HEAD into /verif, resolving the additive conflicts in the shared registration files
set -e
cd /verif
src=$1; name=$2
git fetch -q "$src" HEAD:"$name"
git merge --no-edit "$name" >/dev/null 2>&1 || true
U=$(git diff --name-only --diff-filter=U)
[ -n "$U" ] && python3 tools/merge_union.py $U
python3 - <<'PY'
import re
p='/verif/harness/Cargo.toml'; s=open(p).read()
feats=sorted(set(re.findall(r'^(k_\w+) = ',s,flags=re.M)))
s=re.sub(r'all = \[[^\]]*\]\n','',s).rstrip('\n')
lines=s.split('\n'); idx=max(i for i,l in enumerate(lines) if re.match(r'^k_\w+ = ',l))
lines.insert(idx+1,'all = ['+', '.join(f'"{f}"' for f in feats)+']')
seen=set(); out=[]
for l in lines:
    m=re.match(r'^(k_\w+) = ',l)
    if m:
        if m.group(1) in seen: continue
        seen.add(m.group(1))
    out.append(l)
open(p,'w').write('\n'.join(out)+'\n')
p='/verif/lean/Oas3Model/Driver.lean'; s=open(p).read()
imports=sorted(set(re.findall(r'^import Oas3Model\.Driver\.(\w+)$',s,flags=re.M))-{'Util'})
order=['Naming','Sse','Resp','Path','Client','Server','Interop','Graph','Registry','Cli','Defaults','Enum','Cache']
order+=[i for i in imports if i not in order]
head="import Oas3Model.Driver.Util\n"+"".join(f"import Oas3Model.Driver.{i}\n" for i in order if i in imports)+"open Lean Oas3.Driver\n\n"
allops="def allOps : List (String × Handler) := List.flatten [\n"+"".join(f"  Oas3.Driver.{i}.ops,\n" for i in order if i in imports)+"  []]\n"
rest=s[s.index("def handleLine"):]
open(p,'w').write(head+allops+"\n"+rest)
import ast,json
ast.parse(open('/verif/bin/specgen.py').read()); ast.parse(open('/verif/tools/extract.py').read())
ids=[json.loads(l)['id'] for l in open('/verif/known_findings.jsonl') if l.strip()]
assert len(ids)==len(set(ids)), "duplicate finding ids"
print("merged; features:", feats)
PY
grep -n "<<<<<<<\|>>>>>>>" bin/specgen.py harness/src/main.rs tools/extract.py known_findings.jsonl lean/Oas3Model/Driver.lean harness/Cargo.toml || true
