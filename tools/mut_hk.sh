#!/bin/bash
# tools/mut_hk.sh <patch.diff|none> <out-hk> [workdir]
# Builds the kernel harness `hk` against a PRIVATE, patched copy of /repo's sources (never touches /repo):
# copy of /repo without target/ (reset to HEAD), the patch applied, harness/ copied with its absolute /repo paths
# rewritten to the copy, built --offline into <workdir>/target (seeded from .cache/target when present).
# Use the result with tools/with_hk.py <PROP> <out-hk>.  The workdir is left for further builds; remove it afterwards.
set -eu
patch=$1; out=$2; W=${3:-/tmp/mut_hk.$$}
V=$(cd "$(dirname "$0")/.." && pwd)
export CARGO_NET_OFFLINE=true
mkdir -p "$W"
if [ ! -d "$W/repo" ]; then
  mkdir -p "$W/repo"; (cd /repo && tar --exclude=./target -cf - .) | (cd "$W/repo" && tar xf -)
fi
(cd "$W/repo" && git checkout -q -- . && { [ "$patch" = none ] || git apply "$patch"; })
if [ ! -d "$W/target" ]; then
  mkdir -p "$W/target"; [ -d "$V/.cache/target/debug" ] && cp -r "$V/.cache/target/debug" "$W/target/"
fi
rm -rf "$W/harness" && cp -r "$V/harness" "$W/harness"
sed -i "s#\"/repo/#\"$W/repo/#g" "$W/harness/src/main.rs" "$W/harness/Cargo.toml"
cp "$W/repo/Cargo.lock" "$W/harness/Cargo.lock"
(cd "$W/harness" && CARGO_TARGET_DIR="$W/target" cargo build --offline --bin hk --features all 2>&1 | tail -2)
cp "$W/target/debug/hk" "$out"
(cd "$W/repo" && git checkout -q -- .)
echo "built $out from $patch (workdir $W)"
