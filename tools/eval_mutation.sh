#!/bin/bash
# tools/eval_mutation.sh <patch.diff> <check-id>...   : apply to /repo, run the checks, undo. Prints one line per check.
patch=$1; shift
cd /repo || exit 2
git -C /repo checkout -q -- . ; git -C /repo apply "$patch" || { echo "APPLY-FAILED $patch"; exit 2; }
for c in "$@"; do
  out=$(cd /verif && timeout 1500 bin/check "$c" 2>&1)
  rc=$?
  echo "== $c rc=$rc :: $(echo "$out" | grep -E '^VIOLATION' | head -2 | tr '\n' ' ') :: $(echo "$out" | tail -1 | cut -c1-220)"
  if [ -f /verif/evidence/replay/$c.json ]; then cp /verif/evidence/replay/$c.json /tmp/mut/replay_$(basename $(dirname $patch))_$c.json; rm -f /verif/evidence/replay/$c.json; fi
done
git -C /repo checkout -q -- .
git -C /repo status --short | head -3
