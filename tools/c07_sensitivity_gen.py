#!/usr/bin/env python3
"""Regenerates corpus/C07_sensitivity.jsonl: real harness output on four documents, then HAND-EDITED the way a
regression of the generator would change it (a referenced type no longer defined; an operation's request struct
gone while a component schema of that Rust name exists; a client method gone; an HTTP operation dropped from the
registry).  Every line is {"op","in","impl","edit","expect_ok"}; tools/c07_sensitivity.sh pipes them through the
Lean driver.  /repo is only read."""
import copy, json, os, subprocess, sys

ROOT = os.path.dirname(os.path.dirname(os.path.abspath(__file__)))
sys.path.insert(0, os.path.join(ROOT, "bin"))
from checks import c07, c09

HK = os.path.join(ROOT, ".cache", "target", "debug", "hk")


def impl_of(case):
    out = subprocess.run([HK], input=json.dumps(case) + "\n", capture_output=True, text=True, check=True).stdout
    return json.loads(out)


def drop_type(impl, name):
    impl = copy.deepcopy(impl)
    impl["defs"] = [d for d in impl["defs"] if d["name"] != name]
    impl["defined"].pop(name, None)
    return impl


lines = []
def add(t, impl, edit, expect_ok):
    lines.append({"op": t["op"], "in": t["in"], "impl": impl, "edit": edit, "expect_ok": expect_ok})

# 1. C07: two interleaved groups of operations with equal responses; the inline enum of `Alpha` loses its definition
t = impl_of(c07.prepare({"op": "graph.emit", "in": {"gops": [["opa", "Beta"], ["opb", "Alpha"], ["opc", "Beta"], ["opd", "Alpha"]], "inl": {"Alpha": "both", "Beta": "none"}, "scope": "default"}}))
add(t, t["impl"], "none (control)", True)
add(t, drop_type(t["impl"], "AlphaKind"), "type AlphaKind (inline enum of Alpha.kind, still referenced) removed from the item list", False)
add(t, drop_type(t["impl"], "OpcRequest"), "request struct OpcRequest (named by the client) removed from the item list", False)
# 2. C07: bare-name mapping under --only: the base enum names a child that is not emitted
t = impl_of(c07.prepare({"op": "graph.emit", "in": {"dbase": "Pet", "children": [["Cat", "bare", True], ["Dog", "ptr", True]], "holder": False, "scope": "default"}}))
add(t, t["impl"], "none (control)", True)
add(t, drop_type(t["impl"], "Dog"), "type Dog (mapped child, named by op2's request) removed from the item list", False)
# 3. C09: schema `createPetRequest` / `create_pet_response` next to operation createPet
d = {"kind": "opnames", "ops": [{"id": "createPet", "m": "post", "p": "/pets", "q": ["dry_run"], "body": "createPetRequest", "resp": "create_pet_response"},
                                  {"id": "lookupOwner", "m": "get", "p": "/owners/{id}", "resp": "create_pet_response"}],
     "schemas": [{"key": "createPetRequest", "members": ["pet_name", "pet_tag"]}, {"key": "create_pet_response", "members": ["pet_id", "pet_name"]}]}
t = impl_of(c09.prepare({"op": "naming.scopes", "in": d}))
add(t, t["impl"], "none (control)", True)
e = drop_type(drop_type(t["impl"], "CreatePetRequestParams"), "CreatePetRequestParamsQuery")
for m in e["client_methods"]:
    if m["name"] == "create_pet":
        m["request_ty"] = "CreatePetRequest"
add(t, e, "request struct of createPet missing: the client method takes `CreatePetRequest`, which is the struct of schema createPetRequest", False)
e = copy.deepcopy(t["impl"])
e["client_methods"] = [m for m in e["client_methods"] if m["name"] != "lookup_owner"]
add(t, e, "client method lookup_owner missing", False)
e = copy.deepcopy(t["impl"])
for dd in e["defs"]:
    if dd["name"] == "CreatePetResponse":
        dd["kind"], dd["variants"] = "enum", [{"name": "Created", "tys": [], "edges": []}, {"name": "Unknown", "tys": [], "edges": []}]
        dd.pop("fields", None)
e = drop_type(e, "CreatePetResponseEnum")
for m in e["client_methods"]:
    if m["name"] == "create_pet":
        m["output"] = "anyhow::Result<CreatePetResponse>"
add(t, e, "struct of schema create_pet_response replaced by the response enum of createPet under the same identifier", False)
# 4. C09: webhooks next to paths; the HTTP operation pets_create dropped in favour of the webhook of the same trimmed id
d = {"kind": "opnames", "ops": [{"id": "pets_list", "m": "get", "p": "/pets", "q": ["limit"], "resp": None}, {"id": "pets_create", "m": "post", "p": "/pets", "body": "inline", "resp": None}],
     "hooks": [{"id": "on_pet_create", "name": "petCreated", "m": "post", "h": ["X-Signature"], "body": "inline", "resp": None}, {"id": "on_pet_delete", "name": "petDeleted", "m": "post", "body": "inline", "resp": None}], "schemas": []}
t = impl_of(c09.prepare({"op": "naming.scopes", "in": d}))
add(t, t["impl"], "none (control)", True)
e = copy.deepcopy(t["impl"])
e["registry"] = [r for r in e["registry"] if r[0] != "pets_create"]
e["client_methods"] = [m for m in e["client_methods"] if m["name"] != "pets_create"]
e = drop_type(drop_type(e, "PetsCreateRequest"), "PetsCreateResponse")
add(t, e, "HTTP operation pets_create dropped (registry row, client method, request struct, response enum)", False)

with open(os.path.join(ROOT, "corpus", "C07_sensitivity.jsonl"), "w") as f:
    for l in lines:
        f.write(json.dumps(l) + "\n")
print(len(lines), "lines")
