#!/usr/bin/env python3
"""tools/par_matrix.py [-j N] [--root DIR] [--checks C05,C06] [--keep] [ID[/mN] ...]

Runs every seeded mutation (seeded/<ID>/<mN>/patch.diff) against the quick check of ITS property (plus --checks)
in PARALLEL, without touching /repo or /verif: each worker owns a private copy of /verif (committed + working files,
build caches seeded from .cache and .lake) and a private copy of /repo (HEAD, no target/), with the harness' and the
arenas' absolute `/repo/` paths rewritten to the copy and VERIF_REPO pointing at it.  `none` as a mutation id runs
the checks on the unpatched copy (false-alarm control).  Writes seeded/RESULTS.tsv (merged: rows of mutations that
were run are replaced) and prints one line per run.  The worker directories are removed at the end unless --keep.

A patch file outside seeded/ can be given as  ID=path/to/patch.diff ."""
import argparse, os, queue, shutil, subprocess, sys, threading, time

V = os.path.dirname(os.path.dirname(os.path.abspath(__file__)))


def sh(cmd, **kw):
    return subprocess.run(cmd, shell=isinstance(cmd, str), capture_output=True, text=True, **kw)


def make_worker(root, i):
    W = os.path.join(root, f"w{i}")
    shutil.rmtree(W, ignore_errors=True)
    os.makedirs(W)
    # /verif copy (working tree incl. build output, so that nothing is rebuilt from scratch)
    sh(f"rsync -a --exclude .git --exclude .cache/scratch --exclude 'evidence/replay' --exclude '.cache/*.lock' {V}/ {W}/verif/")
    sh(f"mkdir -p {W}/repo && cd /repo && git archive HEAD | tar -x -C {W}/repo && cd {W}/repo && git init -q && git add -A && git -c user.email=a@b -c user.name=w commit -qm base")
    R = f"{W}/repo/"
    sh(f"sed -i 's#\"/repo/#\"{R}#g' {W}/verif/harness/src/main.rs {W}/verif/harness/Cargo.toml {W}/verif/arena/*/Cargo.toml")
    sh(f"grep -rl '/repo/' {W}/verif/harness/src | xargs -r sed -i 's#\"/repo/#\"{R}#g'")
    return W


def run_one(W, pid, mid, patch, checks, tier):
    repo = f"{W}/repo"
    sh("git checkout -q -- . && git clean -fdq", cwd=repo)
    if patch:
        p = sh(["git", "apply", patch], cwd=repo)
        if p.returncode != 0:
            return [(pid, mid, c, "-", "patch does not apply to the current tree", 0) for c in checks]
    rows = []
    env = dict(os.environ, VERIF_REPO=repo, CARGO_NET_OFFLINE="true")
    for c in checks:
        t0 = time.time()
        try:
            p = subprocess.run(["bin/check", c, "--tier", tier], cwd=f"{W}/verif", capture_output=True, text=True, timeout=2400, env=env)
            out, rc = p.stdout + p.stderr, p.returncode
        except subprocess.TimeoutExpired:
            out, rc = "", "timeout"
        v = [l for l in out.splitlines() if l.startswith("VIOLATION")]
        verdict = (v[0].split(" replay=")[0] + (" no-failing-input-found" if "no-failing-input-found" in v[0] else "")) if v else "no alarm"
        why = ""
        rp = f"{W}/verif/evidence/replay/{c}.json"
        if v and os.path.exists(rp):
            try:
                import json
                d = json.load(open(rp))
                why = (str(d.get("why") or d.get("no_longer_checks") or "")[:160]).replace("\n", " ").replace("\t", " ")
            except Exception:
                pass
            os.remove(rp)
        rows.append((pid, mid, c, rc, verdict + ((" :: " + why) if why else ""), int(time.time() - t0)))
    sh("git checkout -q -- . && git clean -fdq", cwd=repo)
    return rows


def main():
    ap = argparse.ArgumentParser()
    ap.add_argument("-j", type=int, default=4)
    ap.add_argument("--root", default="/tmp/pm")
    ap.add_argument("--checks", default="")
    ap.add_argument("--tier", default="quick")
    ap.add_argument("--keep", action="store_true")
    ap.add_argument("ids", nargs="*")
    a = ap.parse_args()
    jobs = []
    ids = a.ids or sorted(d for d in os.listdir(f"{V}/seeded") if d.startswith("C") and os.path.isdir(f"{V}/seeded/{d}"))
    extra = [c for c in a.checks.split(",") if c]
    for x in ids:
        if "=" in x:
            pid, patch = x.split("=", 1)
            jobs.append((pid, os.path.basename(os.path.dirname(os.path.abspath(patch))) or "adhoc", os.path.abspath(patch)))
        elif x.startswith("none"):
            for pid in (x.split(":", 1)[1].split(",") if ":" in x else sorted(d for d in os.listdir(f"{V}/seeded") if d.startswith("C"))):
                jobs.append((pid, "none", None))
        elif "/" in x:
            pid, mid = x.split("/")
            jobs.append((pid, mid, f"{V}/seeded/{pid}/{mid}/patch.diff"))
        else:
            for mid in sorted(os.listdir(f"{V}/seeded/{x}")):
                if os.path.exists(f"{V}/seeded/{x}/{mid}/patch.diff"):
                    jobs.append((x, mid, f"{V}/seeded/{x}/{mid}/patch.diff"))
    q = queue.Queue()
    for j in jobs:
        q.put(j)
    results, lk = [], threading.Lock()

    def worker(i):
        W = make_worker(a.root, i)
        while True:
            try:
                pid, mid, patch = q.get_nowait()
            except queue.Empty:
                break
            rows = run_one(W, pid, mid, patch, [pid] + [c for c in extra if c != pid], a.tier)
            with lk:
                for r in rows:
                    results.append(r)
                    print("\t".join(map(str, r)), flush=True)
        if not a.keep:
            shutil.rmtree(W, ignore_errors=True)

    ths = [threading.Thread(target=worker, args=(i,)) for i in range(min(a.j, len(jobs)))]
    [t.start() for t in ths]
    [t.join() for t in ths]
    # merge into seeded/RESULTS.tsv
    path = f"{V}/seeded/RESULTS.tsv"
    old = {}
    if os.path.exists(path):
        for l in open(path).read().splitlines()[1:]:
            f = l.split("\t")
            if len(f) >= 5:
                old[(f[0], f[1], f[2])] = f
    for r in results:
        if r[1] == "adhoc":
            continue
        old[(r[0], r[1], r[2])] = list(map(str, r))
    with open(path, "w") as fh:
        fh.write("property\tmutation\tcheck\trc\tverdict\tseconds\n")
        for k in sorted(old):
            fh.write("\t".join(old[k]) + "\n")
    if not a.keep:
        try:
            os.rmdir(a.root)
        except OSError:
            pass


if __name__ == "__main__":
    main()
