#!/bin/bash
# tools/confirm_mutation.sh <PID> <mN>  — in the scratch worktree /tmp/mut/<PID>: apply, build, test suite, demo with/without.
pid=$1; m=$2; wt=/tmp/mut/$pid; out=/tmp/mut/out/$pid/$m
cd $wt || exit 2
git checkout -q -- . ; git clean -fdq -e target
git apply $out/patch.diff || { echo "$pid $m APPLY-FAILED"; exit 1; }
export CARGO_NET_OFFLINE=true
b=$(cargo build --workspace --offline 2>&1 | tail -1)
t=$(cargo test --workspace --no-fail-fast --offline 2>&1 | grep -E "^test result" | tr '\n' ' ')
bash $out/demo/run.sh $wt > $out/confirm_with.log 2>&1; rc_with=$?
git checkout -q -- . ; git clean -fdq -e target
cargo build --workspace --offline > /dev/null 2>&1
bash $out/demo/run.sh $wt > $out/confirm_without.log 2>&1; rc_without=$?
git checkout -q -- . ; git clean -fdq -e target
echo "$pid $m build=[$b] tests=[$t] demo_with_rc=$rc_with demo_without_rc=$rc_without"
