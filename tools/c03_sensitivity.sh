#!/bin/bash
# C03 query/header clause, sensitivity: every line of corpus/C03_sensitivity.jsonl is the REAL extraction of the unchanged
# tree with one hand-made modification of the `impl` facts (see the "note" of each line).  The first line is
# unmodified and must be accepted; every other line must be rejected by the judge WITHOUT a known class
# (judge.ok = false, known = []).  Exit 1 if any modification is accepted or attributed to a known finding.
set -u
cd "$(dirname "$0")/.."
DRIVER=lean/Oas3Model/.lake/build/bin/driver
[ -x "$DRIVER" ] || { echo "driver not built (run bin/setup)"; exit 2; }
python3 - "$DRIVER" <<'PY'
import json, subprocess, sys
driver = sys.argv[1]
lines = [l for l in open("corpus/C03_sensitivity.jsonl", encoding="utf-8") if l.strip()]
out = subprocess.run([driver], input="".join(lines), capture_output=True, text=True).stdout.splitlines()
bad = 0
for i, (l, o) in enumerate(zip(lines, out)):
    note = json.loads(l).get("note", "")
    a = json.loads(o)
    j = a.get("judge") or {}
    if i == 0:
        ok = j.get("ok") is True
        print(("ok      " if ok else "BROKEN  ") + "accepted   : " + note)
    else:
        ok = j.get("ok") is False and j.get("known") == []
        print(("ok      " if ok else "MISSED  ") + "rejected   : " + note + ("" if not ok else "  -- " + j.get("why", "")[:160]))
    bad += 0 if ok else 1
if len(out) != len(lines):
    print("driver answered %d of %d lines" % (len(out), len(lines))); bad += 1
sys.exit(1 if bad else 0)
PY
