#!/usr/bin/env python3
"""Writes /verif/MANIFEST.json from the table below (kept valid against /root/.vp/MANIFEST.schema.json)."""
import json, os, sys
V = os.path.dirname(os.path.dirname(os.path.abspath(__file__)))
TECH = "Lean 4 theorems over a hand-written executable model + differential correspondence with the compiled /repo sources (K) + tables regenerated from the Rust source (T)"
CLAIMED = {
    "C09": dict(
        text="Lean 4 proofs, for all strings and all transliteration tables, that the three sanitisers' outputs are legal identifiers in their position except for four explicitly characterised classes (recorded as known findings), that every Rust keyword is in the regenerated FORBIDDEN table, and that ensure_unique returns a fresh name; the model is tied to the code by a bounded-exhaustive + random differential run of the real functions on every check.",
        note="Trusted: Lean kernel (+ propext, Classical.choice, Quot.sound), any_ascii as a parameter of every theorem, inflections modelled on ASCII, the hand-written Rust keyword table, tools/extract.py, the harness. Scope-level uniqueness is judged on emitted code (E), not proved for the whole module.",
        ref="§6 C09"),
    "C20": dict(
        text="Lean 4 proofs over a model of the eventsource-stream parser and of EventStream::poll_next: completed lines are prefix-stable, draining is append-compatible, UTF-8 splitting is append-compatible, hence the inner result sequence is independent of chunking and Pending interleaving (chunk_invariance); poll_next yields one item per non-empty-data event, skips empty ones, continues after bad events, returns Pending only after an inner Pending and ends exactly at the end (poll_spec, no_lost_wakeup, exactly_once) — for all byte streams, chunkings and schedules. Tied to the code by running the real EventStream<Value> over scripted reqwest bodies (all chunkings of short streams + random).",
        note="Trusted: Lean kernel; Sem/Sse.lean as a model of eventsource-stream 0.2.3/nom (validated only by the differential runs); reqwest body plumbing; dec (serde_json) is a parameter. Two inner-crate defects (trailing bare CR, leading BOM panic) are reproduced by the model and recorded as known findings.",
        ref="§6 C20"),
    "C04": dict(
        text="Lean 4 proofs over status tables REGENERATED from status_codes.rs/http.rs/structs.rs on every run (token<->code<->http constant<->condition agree for every row; exact keys sort before their range key) and over a model of build_enum/build_status_handlers and of the emitted if-chain: for well-formed single-media responses the chain picks, for every status 100-599, the variant of the exact key, else NXX, else default/Unknown (dispatch_spec). The model's chain is compared with the chain emitted by the current sources (parsed with syn) and the emitted chain itself is judged for all 500 codes x 10 content types on every generated responses object.",
        note="Trusted: Lean kernel; translator for the tables; numeric values of http::StatusCode constants (hand table checked against the http crate each run); syn extraction of the chain; serde body decoding not modelled. Three defect classes (content-type fall-through, non-canonical keys, schema-suffix panic) are reproduced by the model and recorded as known findings.",
        ref="§6 C04"),
    "C03": dict(
        text="Lean 4 proofs over a model of the path-template tokenizer/segment builder and of url's push + percent-decode: an accepted template segment is the concatenation of its parts, literals are brace-free, the emitted format! template has exactly one {} per argument and no other brace, percent-decoding an encoded segment returns the original bytes for ALL byte strings and never contains a separator, path-level/operation-level parameter merge lets the operation win. Tied to the code by exhaustive templates through ParsedPath::parse, exhaustive short strings through the real url crate, and by judging the client method emitted by the current sources (method, pushes vs template, query/header presence, body encoder, validate-before-send) on random operations. Query and header parameters are judged member by member on the emitted code (serde key = exact original name, delimiter adapter per style/explode, Option-ness, header constant value = lower-cased name, value expression from a closed set of forms, conditional insertion iff optional) against clauses proved sound for the modelled serializers (a member/insertion the judge accepts yields exactly the prescribed pairs/value for every value of the parameter's shape; joined array values split back into their items, empty items included).",
        note="Trusted: Lean kernel; Sem/Url.lean as a model of url 2.5/percent-encoding (validated differentially); reqwest/serde_urlencoded wire encoding is not modelled (which builder call is emitted is). serde rename / serde_with separator adapters / serde_urlencoded are modelled as stated in Model/ClientWire.lean (sequence rejection reproduced at run time), the syn reading of query structs and header-map impls is trusted (unrecognised constructs fail the judge). Eight defect classes recorded as known findings (dot segments, control chars, empty first segment, OPTIONS/TRACE panic [fixed], parameter field clash, exploded query arrays, delimited arrays of non-strings, required header with default).",
        ref="§6 C03"),
    "C05": dict(
        text="Lean 4 proofs that the routing-function table is injective on the eight OpenAPI methods (so the `_ => get` arm is reached only by GET), that the status sent for every exact token equals its code over the regenerated tables, and (shared with C03) that the axum pattern of a segment is the template with parameters renamed; the router table, handler signatures, error mapping and IntoResponse tables emitted by the current sources in server-mod are parsed with syn, compared with the model (routes per path/method, status+encoding per variant from the C04 variant model) and judged against the spec on every generated multi-operation spec.",
        note="Trusted: Lean kernel; axum/matchit routing semantics as stated in Model/Server.lean (404/405 for undeclared routes follow from it, not from a proof about axum); extractor internals not modelled. Known findings: TRACE registered twice (oas3 crate), every payload sent as JSON, 3XX answered with 500.",
        ref="§6 C05"),
    "C06": dict(
        text="Composition of the C04 client-chain model and the C05 server-table model over ONE responses object: Lean counter-example theorems exhibit exactly the configurations where server status/encoding and client dispatch disagree (default sent as 200, range sent as its first code, same-status variants, JSON-encoded text); the check runs the generator twice (client-mod, server-mod), feeds every server variant's (status, encoding) into the client's emitted chain and compares the wire shapes of all types between the two runs. REQUEST side (same two runs, op `interop.req`): the client's method / URL push chain / query struct / header map / body encoder and the server's router entries / extractors / header lookups / body extractor, plus the string codecs of every enum that travels as a path, query or header parameter (client Display arms and serde renames; server FromStr arms WITH the scrutinee transform, hand-written Deserialize), are read with syn from the two emitted halves and judged by the decidable `reqInteropOk`; Lean theorems: route_roundtrip (pattern derived from the chain matches the emitted segments and captures exactly the pushed values, unbounded), enum_roundtrip_iff, req_interop_sound (judge true => serverExtract (clientRequest v) = v on the modelled parts), decide'd witnesses lowercase_breaks, trailing_slash_significant, param_suffix_rejected, raw_ident_capture_breaks; the route matcher is compared with the real matchit crate on every run (`interop.req.route`).",
        note="Trusted: Lean kernel; the C03/C04/C05 models; HTTP framing, serde payload encoding and axum extractors are not modelled. The positive interop theorem is proved for exact-code variants via C04's dispatch theorem; the other variant kinds are characterised by known-finding classes. Request side: trusted are the syn extraction (harness/src/k_req.rs; anything it cannot read is reported as unreadable and fails the judge), the stated axum/matchit route semantics (compared with matchit 0.8.4, not verified), std Display/FromStr of integers and booleans, serde_urlencoded/axum extractor internals beyond names and kinds; HTTP framing is not modelled. Five request-side classes are recorded (F-C06-6..10).",
        ref="§6 C06, §12.5"),
    "C07": dict(
        text="Lean 4 proofs over a model of SchemaRegistry::collect/reachable: the checked closure is sound (contains the seeds, closed under the dependency relation), minimal (everything in it is a seed or TC-reachable from one) and total (fuel suffices), so the emitted set is exactly the reachable set; collect covers every direct and nested member/union/allOf/items reference. The model's dependency map, cyclic set and reachable set are compared with the real SchemaRegistry on every case; the files emitted by the current sources are parsed with syn and judged: every mentioned type defined exactly once, every emitted schema type transitively referenced by a selected operation (spec-level closure incl. map values, mappings, both parameter levels).",
        note="Trusted: Lean kernel; petgraph DFS/SCC replaced by the proved closure and compared per case; syn extraction + external-crate allow-list. Four escape routes of collect are reproduced and recorded as known findings (additionalProperties $ref, nullable wrapper, single-$ref union, path-item parameters).",
        ref="§6 C07"),
    "C10": dict(
        text="Lean 4 proofs: box_breaks_cycles (a by-value relation that is a sub-relation of the dependency relation and never targets a node on a dependency cycle has no cycle, for any graph), cyclic_spec/cyclic_total (the executable cycle test equals `lies on a cycle` and always terminates), boxed_refs_acyclic. SchemaRegistry's cyclic set is compared with the model on every graph; the types emitted by the current sources are parsed with syn and their by-value containment graph and Default-construction graph are judged acyclic with the proved cycle test, exhaustively over all 2-schema graphs on the 8 edge kinds (thorough) and sampled 3-6-schema graphs. Emitted type graph with wrapper chains (EGraph): emittedCycleHasIndirection is a decidable rank certificate, proved sound for finite size (a layout rank exists, no by-value cycle, by-value containment is well-founded) and consistent with the cycle test; the boxing rule (expectBoxedAt) is the per-case model of every by-name reference; unions held by value by recursive structs (inline unions, structural copies of named unions, --no-helpers) and the first-accepting-variant semantics of untagged unions (chooseVariant_first, keysPreserved_of_first; permissive members before / after recursive ones, variant order read from the emitted enum) are generated and judged.",
        note="Trusted: Lean kernel; the reading of emitted field types into value/Option/Box/Vec/map wrapper chains; better_default's expansion rule; rustc E0072 itself is not run in the quick tier; round trips of deep documents are covered by C02's arena, not here. Two Default-recursion classes (union first variant, required-member cycle) are recorded as known findings, as are F10-3 (generator stack overflow on cycles of inline-union members with helper constructors), F10-4 (by-value cycle through a structural copy named via the schema-identity cache) and F10-5 (permissive union member listed first shadows the specific ones). Untagged decoding is modelled on key sets (members of one union use different member names).",
        ref="§6 C10"),
    "C08": dict(
        text="Lean 4 proofs over a model of OperationRegistry (filter on the base id during ingestion, uniquifying suffixes, common-affix trimming over the filtered set): selection is whole-identifier list membership, --exclude is the complement of --only, and (select_exact) when base ids are pairwise distinct and trimming is the identity on every sub-selection, `list` prints the base ids and --only/--exclude select exactly the listed rows, each once; counter-example theorems exhibit the configurations where today's code breaks the property. Tied to the code by comparing the model with OperationRegistry::with_filters on random operation sets and by running the REAL binary: `list operations`, then `generate --only/--exclude S` for subsets S of the printed ids, mapping emitted methods back to (METHOD, path).",
        note="Trusted: Lean kernel; regex parsing of the CLI table; doc lines to identify methods. Known findings: trimmed ids are not accepted by the filter, uniquified ids, silently dropped operations, trimming to a non-identifier (panic).",
        ref="§6 C08"),
    "C11": dict(
        text="Lean 4 proof, over a table REGENERATED from the sources on every run, that every iteration over a HashMap/HashSet in non-test generator code is one of the four justified ones (adding an iteration over a hash container breaks the proof), plus permutation-invariance of the sorted-map construction that models the parser's BTreeMaps; the remaining truth lives in the YAML front end and the process hash seed, so the check runs the REAL binary on shipped fixtures and generated specs across modes and compares the output byte for byte between the base document, a fresh re-run, random key-order permutations at every object level, YAML and key-permuted YAML.",
        note="Partial by nature: proof covers the hash-iteration site table and the order-insensitivity of map construction; `output = f(parsed spec)` for the whole generator is validated by the CLI comparison, not proved. Known finding: object-valued examples are rendered in input key order.",
        ref="§6 C11"),
    "C12": dict(
        text="Lean 4 proofs: (1) over a table REGENERATED from the sources on every run, every potentially panicking or token-re-parsing construct in non-test code (unwrap/expect/panic!/unreachable!/format_ident!/Ident::new/parse::<TokenStream>/syn::parse_*) is in a reviewed list that names why it cannot fire or which known finding it is — a new such construct breaks the proof; (2) the allOf-depth recursion returns iff no allOf cycle is reachable (depth_terminates_iff, with the explicit fuel bound) and never returns on a cycle (for all fuel); (3) the three-step module write leaves the target unchanged only when it fails before the first file. The rest of the truth lives in the parser, tokio and the OS, so the check runs the REAL binary on fixtures and generated specs pushed through structure-aware mutators x 4 modes and on unwritable / non-directory / half-blocked targets, observing exit status, signals, time limit and the directory listing with content hashes before/after.",
        note="Partial by nature: termination of the other loops is covered by Lean accepting the model definitions (structural or fuel with sufficiency lemmas in C07/C09/C10), not by a proof about the Rust code; the panic-site scan is regex-level. Known findings: allOf/alias cycles overflow the stack, OPTIONS/TRACE panic, identifier panics, schema-suffix variant panic, oas3 `$ref` parse panic, half-written module output.",
        ref="§6 C12"),
    "C18": dict(
        text="Lean 4 proofs over a decoration model (visibility on items and fields, bon::Builder derive and #[builder(..)] attributes): erase∘decorate is the identity for every flag setting, so any two settings erase to the same wire skeleton; every decorated item/field carries exactly the requested visibility; builder decorations exist only with builders on. The judge used on the implementation is that same erasure: for every corpus spec the generator is run in-process over the whole 3x2x2x2x{types, client-mod} lattice next to the default run, and the emitted items are compared after erasure (type definitions, members, member types, serde/validation attributes token-for-token), with only header constants, helper/builder methods and imports allowed to appear or disappear, and the requested visibility checked on every item, field, inherent method and associated constant.",
        note="Partial by nature: that the modelled decorations are ALL that the flags change is what the lattice comparison measures; it is not a theorem about the generator. Known finding: header constants are always `pub`.",
        ref="§6 C18"),
    "C19": dict(
        text="Lean 4 proofs: a brace-free literal used as a Rust format string prints exactly itself, while the kernel-decided witnesses `a{b}` (no such format string) and `{{x}}` (prints `{x}`) show what braces do; the format! template of a mixed path segment built from spec text is brace-safe with exactly one placeholder per argument (from C03); identifiers fed to Ident::new/format_ident! are legal (C09); every token re-parse site is in the regenerated, reviewed site table (C12). The relational part is measured: 21 injection payloads x 17 text-bearing positions x client/server x enum modes are generated in-process next to the same spec with inert text; after erasing string literals and doc attributes the token streams must be identical (identifier-deriving positions: identical shape), every literal that is a macro format string must print itself, and the payload must be recoverable from literals/docs (modulo the documented doc normalisation and Rust string escaping).",
        note="Partial by nature: syn/prettyplease printing is trusted; line-wrapping artefacts (trailing commas, braces around a match-arm body) are normalised before comparison. Known finding: enum values become the format string of write! in Display.",
        ref="§6 C19"),
}
PENDING = ["C01","C02","C03","C04","C05","C06","C07","C08","C10","C11","C12","C13","C14","C15","C16","C17","C18","C19","C20"]

def main():
    import glob
    for f in sorted(glob.glob(os.path.join(V, "manifest.C*.json"))):
        pid = os.path.basename(f).split(".")[1]
        d = json.load(open(f))
        CLAIMED.setdefault(pid, dict(text=d["text"], note=d["note"], ref=d.get("ref", "§6 " + pid)))
    checks = []
    for pid in sorted(CLAIMED):
        c = CLAIMED[pid]
        checks.append({
            "property_id": pid,
            "quick_cmd": f"bin/check {pid} --tier quick",
            "thorough_cmd": f"bin/check {pid} --tier thorough",
            "evidence_file": f"/verif/evidence/{pid}.json",
            "replay_cmd_template": f"bin/check {pid} --replay {{path}}",
            "engine": "lean4-model",
            "level_claimed": {"category": "proof", "text": c["text"], "design_ref": c["ref"]},
            "level_note": c["note"],
            "technique": c.get("technique", TECH),
        })
    m = {
        "version": 1,
        "setup_cmd": "bin/setup",
        "hooks": {"guard": "oas3_gen_verif", "enable": "none needed: the harness #[path]-includes /repo's sources; no hook commits exist",
                  "baseline_off_cmd": "cd /repo && cargo test --workspace --no-fail-fast --offline", "source_commits": [], "add_only": True},
        "engines": [{"name": "lean4-model", "path": "/verif/lean/Oas3Model", "serves_properties": sorted(CLAIMED),
                     "kind_free_text": "Lean 4 model + theorems (lake), JSON-lines driver exe, Rust harness including /repo sources, python verdict logic"}],
        "checks": checks,
        "not_applicable": [{"property_id": p, "reason": "not claimed yet: model/theorems for this property are still being built (see DESIGN.md §11); no check is registered rather than an unsound one"} for p in PENDING if p not in CLAIMED],
        "notes": "All checks: bin/check <id> --tier quick|thorough. Known findings: known_findings.jsonl. Seeded mutations: seeded/.",
    }
    json.dump(m, open(os.path.join(V, "MANIFEST.json"), "w"), indent=1)
    try:
        import jsonschema
        jsonschema.validate(m, json.load(open("/root/.vp/MANIFEST.schema.json")))
        print("MANIFEST valid")
    except ImportError:
        print("jsonschema not available; not validated")

if __name__ == "__main__":
    main()
