//! F03-7 / F03-8: the generated module only has to compile.
#![allow(dead_code, unused_imports)]
mod api;
fn main() {}
