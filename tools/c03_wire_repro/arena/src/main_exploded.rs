//! F03-6: `ids` is an array query parameter with explode = true (the default of style form).  The generated
//! query struct carries it as a plain `Vec<String>`; `.query(&request.query)` hands it to serde_urlencoded, which
//! has no representation for a sequence: the call fails before anything is sent.
#![allow(dead_code, unused_imports)]
mod api;
use api::*;

#[tokio::main(flavor = "current_thread")]
async fn main() {
  // nothing listens here; the call must fail earlier, while the request is built
  let client = ReproClient::with_base_url("http://127.0.0.1:9/api").unwrap();
  let request = OpRequest { query: OpRequestQuery { ids: vec!["1".to_string(), "2".to_string()] } };
  match client.op(request).await {
    Ok(_) => {
      println!("call succeeded");
      std::process::exit(1);
    }
    Err(e) => {
      let text = format!("{e:#}");
      println!("call failed: {text}");
      std::process::exit(if text.contains("unsupported value") || text.to_lowercase().contains("builder error") { 0 } else { 1 });
    }
  }
}
