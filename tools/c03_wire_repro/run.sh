#!/usr/bin/env bash
# C03 findings F03-6, F03-7, F03-8 reproduced on the real generator and the real crates (offline).
# usage: run.sh [oas3-gen binary]      (default: the CLI built by bin/setup)
#   exploded.json            array query parameter, explode = true  -> compiles; every call fails in serde_urlencoded
#   sep_int.json             delimited array of integers            -> generated types do not compile (E0271)
#   req_default_header.json  required header with a default        -> generated types do not compile (E0308)
# exit 0 = all three reproduce
set -u
here="$(cd "$(dirname "${BASH_SOURCE[0]}")" && pwd)"
verif="$(cd "$here/../.." && pwd)"
bin="${1:-}"
for c in "$verif/.cache/cli-target/debug/oas3-gen" /verif/.cache/cli-target/debug/oas3-gen; do
  [ -z "$bin" ] && [ -x "$c" ] && bin="$c"
done
[ -x "$bin" ] || { echo "no oas3-gen binary (run bin/setup)"; exit 2; }
export CARGO_TARGET_DIR="${C03_REPRO_TARGET:-$verif/.cache/c03-repro-target}"
rc=0
one() {   # <spec> <main file> <expect: run|E....>
  local work="$verif/.cache/scratch/c03_wire_repro/$1"
  rm -rf "$work" && mkdir -p "$work/src"
  cp "$here/arena/src/$2" "$work/src/main.rs"
  sed "s#@SUPPORT@#/repo/crates/oas3-gen-support#" "$here/arena/Cargo.toml.in" > "$work/Cargo.toml"
  cp /repo/Cargo.lock "$work/Cargo.lock"
  "$bin" generate client-mod -i "$here/$1.json" -o "$work/src/api" >"$work/generate.log" 2>&1 || { echo "$1: generator failed"; rc=1; return; }
  if (cd "$work" && cargo build --offline -q 2>"$work/build.log"); then
    if [ "$3" = run ]; then
      out=$("$CARGO_TARGET_DIR/debug/c03-wire-repro"); r=$?
      echo "$1: compiles; $out"
      [ $r -eq 0 ] || { echo "$1: NOT reproduced"; rc=1; }
    else
      echo "$1: compiles -- NOT reproduced (expected $3)"; rc=1
    fi
  else
    codes=$(grep -o 'error\[E[0-9]*\]' "$work/build.log" | sort | uniq -c | tr '\n' ' ')
    first=$(grep -m1 -A3 '^error\[' "$work/build.log" | tr '\n' ' ' | cut -c1-300)
    if [ "$3" != run ] && grep -q "error\[$3\]" "$work/build.log"; then echo "$1: does not compile: $codes:: $first"
    else echo "$1: build failed unexpectedly: $codes:: $first"; rc=1; fi
  fi
}
one exploded main_exploded.rs run
one sep_int main_empty.rs E0271
one req_default_header main_empty.rs E0308
exit $rc
