#!/usr/bin/env python3-vt
"""Independent validity oracle for C02: python `jsonschema` (Draft 2020-12).  Line protocol:
in  {"root": <schema with components>, "docs": [..]}   out  [true,false,..]"""
import json, sys
from jsonschema import Draft202012Validator

for line in sys.stdin:
    line = line.strip()
    if not line:
        continue
    req = json.loads(line)
    v = Draft202012Validator(req["root"])
    print(json.dumps([v.is_valid(d) for d in req["docs"]]), flush=True)
