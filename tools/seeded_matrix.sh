#!/bin/bash
# tools/seeded_matrix.sh [ID…] — apply every seeded mutation to /repo in turn, run the quick check of ITS property,
# undo; writes seeded/RESULTS.tsv (id, mutation, exit code, violation line). /repo must be clean; it is left clean.
cd "$(dirname "$0")/.."
[ -n "$(git -C /repo status --short)" ] && { echo "/repo is not clean"; exit 2; }
ids=${@:-$(ls seeded | grep '^C[0-9][0-9]$')}
out=seeded/RESULTS.tsv
[ $# -eq 0 ] && printf "property\tmutation\trc\tverdict\n" > $out
for id in $ids; do
  for d in seeded/$id/m*; do
    m=$(basename $d); p=$(realpath $d/patch.diff)
    if ! git -C /repo apply --check "$p" 2>/dev/null; then printf "%s\t%s\t-\tpatch does not apply to the current tree\n" $id $m | tee -a $out; continue; fi
    git -C /repo apply "$p"
    res=$(timeout 1500 bin/check $id 2>&1); rc=$?
    git -C /repo checkout -q -- . ; git -C /repo clean -fdq -e target 2>/dev/null
    v=$(echo "$res" | grep -E '^VIOLATION' | head -1 | sed 's|replay=[^ ]*||')
    [ -z "$v" ] && v="no alarm"
    printf "%s\t%s\t%s\t%s\n" $id $m $rc "$v" | tee -a $out
    rm -f evidence/replay/$id.json
  done
done
git -C /repo status --short | head -3
