"""Schema-graph spec builders for C07 / C10."""
import itertools

KINDS = ["req", "opt", "arr", "map", "oneOf", "anyOf", "allOf", "disc"]
# further ways a reference can sit inside a schema (used by the random compositions)
KINDS_EXTRA = ["allOfInline", "nested", "nestedArr"]
ODD_NAMES = ["org_unit", "staff-member", "commentThread", "x.y", "item2"]
REF = "#/components/schemas/"


def fld(n):
    import re
    return re.sub(r"[^a-z0-9]+", "_", n.lower())


def graph_schemas(names, edges):
    """edges: list of (src, kind, dst). Returns components.schemas dict."""
    out = {}
    for n in names:
        out[n] = {"type": "object", "properties": {"v": {"type": "string"}}}
    for (a, k, b) in edges:
        s = out[a]
        ref = {"$ref": REF + b}
        if k == "req":
            s["properties"]["r_" + fld(b)] = ref
            s.setdefault("required", []).append("r_" + fld(b))
        elif k == "opt":
            s["properties"]["o_" + fld(b)] = ref
        elif k == "arr":
            s["properties"]["a_" + fld(b)] = {"type": "array", "items": ref}
        elif k == "map":
            s["properties"]["m_" + fld(b)] = {"type": "object", "additionalProperties": ref}
        elif k in ("oneOf", "anyOf"):
            s.setdefault(k, []).append(ref)
        elif k == "allOf":
            s.setdefault("allOf", []).append(ref)
        elif k == "allOfInline":
            s.setdefault("allOf", []).append({"type": "object", "properties": {"x_" + fld(b): ref}})
        elif k == "nested":
            s["properties"]["n_" + fld(b)] = {"type": "object", "properties": {"q": ref}}
        elif k == "nestedArr":
            s["properties"]["na_" + fld(b)] = {"type": "array", "items": {"type": "object", "properties": {"q": ref}}}
        elif k == "disc":
            s["properties"]["kind"] = {"type": "string"}
            d = s.setdefault("discriminator", {"propertyName": "kind", "mapping": {}})
            d["mapping"]["t_" + fld(b)] = REF + b
            # the child extends the base
            c = out[b]
            if ref != {"$ref": REF + a} or True:
                if {"$ref": REF + a} not in c.setdefault("allOf", []):
                    c["allOf"].append({"$ref": REF + a})
    for n, s in out.items():
        # a pure union keeps no own properties (the common way unions are written)
        if ("oneOf" in s or "anyOf" in s) and set(s["properties"]) == {"v"} and "allOf" not in s and "discriminator" not in s:
            del s["properties"]; del s["type"]
    return out


def graph_spec(names, edges, roots=None, extra_ops=None):
    schemas = graph_schemas(names, edges)
    paths = {}
    for i, r in enumerate(roots if roots is not None else names[:1]):
        paths["/r%d" % i] = {"get": {"operationId": "op%d" % i, "responses": {"200": {"description": "ok", "content": {"application/json": {"schema": {"$ref": REF + r}}}}}}}
    for p, item in (extra_ops or {}).items():
        paths[p] = item
    return {"openapi": "3.1.0", "info": {"title": "g", "version": "1"}, "paths": paths, "components": {"schemas": schemas}}


def all_two_node_graphs():
    names = ["A", "B"]
    pairs = [("A", "A"), ("A", "B"), ("B", "A"), ("B", "B")]
    opts = [None] + KINDS
    for combo in itertools.product(opts, repeat=4):
        yield names, [(a, k, b) for (a, b), k in zip(pairs, combo) if k]


def three_node_graphs(max_edges=3):
    names = ["A", "B", "C"]
    pairs = [(a, b) for a in names for b in names]
    for ne in range(0, max_edges + 1):
        for ps in itertools.combinations(pairs, ne):
            for ks in itertools.product(KINDS, repeat=ne):
                yield names, [(a, k, b) for (a, b), k in zip(ps, ks)]


# ---- C07: reference position x kind of referenced schema -------------------------------------
TARGET_KINDS = {
    "object": {"type": "object", "properties": {"x": {"type": "string"}}},
    "strenum": {"type": "string", "enum": ["a", "b"]},
    "intenum": {"type": "integer", "enum": [1, 2]},
    "prim": {"type": "string"},
    "arr": {"type": "array", "items": {"type": "string"}},
    "map": {"type": "object", "additionalProperties": {"type": "integer"}},
    "nullable": {"oneOf": [{"$ref": REF + "Leaf"}, {"type": "null"}]},
    "union": {"oneOf": [{"$ref": REF + "Leaf"}, {"$ref": REF + "Leaf2"}]},
    "allofchild": {"allOf": [{"$ref": REF + "Leaf"}, {"type": "object", "properties": {"y": {"type": "integer"}}}]},
    "discbase": {"type": "object", "properties": {"kind": {"type": "string"}}, "required": ["kind"], "discriminator": {"propertyName": "kind", "mapping": {"l": REF + "DLeaf"}}},
}
# a schema whose conversion FAILS (a union variant is a reference into another document): the generator reports it as
# skipped; used by the fixed cases `extref_cases` only, not by the matrix
EXT_UNION = {"oneOf": [{"$ref": REF + "Leaf"}, {"$ref": "Other.json#/components/schemas/Lizard"}]}
POSITIONS = ["property", "item", "mapvalue", "oneof", "anyof", "allof", "nested", "mapping", "opparam", "pathparam", "reqbody", "respbody", "respbody2", "inlinedup", "headerparam", "nesteditem"]


# responses / request bodies under every status class x media category: `media:<where>:<status>:<media type>`
MEDIA_TYPES = ["application/json", "text/plain", "application/octet-stream", "image/png", "application/pdf", "application/xml", "text/event-stream",
               "application/x-www-form-urlencoded", "multipart/form-data", "application/vnd.api+json", "text/csv"]
MEDIA_STATUSES = ["200", "201", "404", "422", "default", "4XX", "5XX", "302"]
MEDIA_POSITIONS = ["media:resp:%s:%s" % (st, mt) for st in MEDIA_STATUSES for mt in MEDIA_TYPES] + ["media:req::%s" % mt for mt in MEDIA_TYPES]


def copy_schema(s):
    import copy
    return copy.deepcopy(s)


def position_spec(position, tkind):
    T = {"$ref": REF + "Tgt"}
    schemas = {"Tgt": EXT_UNION if tkind == "extunion" else TARGET_KINDS[tkind], "Leaf": {"type": "object", "properties": {"l": {"type": "string"}}}, "Leaf2": {"type": "object", "properties": {"m": {"type": "string"}}},
               "DLeaf": {"allOf": [{"$ref": REF + "Tgt"}, {"type": "object", "properties": {"z": {"type": "string"}}}]} if tkind == "discbase" else {"type": "object", "properties": {"z": {"type": "string"}}},
               "Unused": {"type": "object", "properties": {"u": {"type": "string"}}}}
    root = {"type": "object", "properties": {"id": {"type": "string"}}}
    op = {"operationId": "op0", "responses": {"200": {"description": "ok", "content": {"application/json": {"schema": {"$ref": REF + "Root"}}}}}}
    item = {"get": op}
    if position == "property":
        root["properties"]["p"] = T
    elif position == "item":
        root["properties"]["p"] = {"type": "array", "items": T}
    elif position == "mapvalue":
        root["properties"]["p"] = {"type": "object", "additionalProperties": T}
    elif position == "oneof":
        root = {"oneOf": [T, {"$ref": REF + "Leaf2"}]}
    elif position == "anyof":
        root = {"anyOf": [T, {"$ref": REF + "Leaf2"}]}
    elif position == "allof":
        root = {"allOf": [T, {"type": "object", "properties": {"id": {"type": "string"}}}]}
    elif position == "nested":
        root["properties"]["p"] = {"type": "object", "properties": {"q": T}}
    elif position == "mapping":
        root = {"type": "object", "properties": {"kind": {"type": "string"}}, "required": ["kind"], "discriminator": {"propertyName": "kind", "mapping": {"t": REF + "Tgt"}}}
    elif position == "opparam":
        op["parameters"] = [{"name": "f", "in": "query", "schema": T}]
    elif position == "pathparam":
        item["parameters"] = [{"name": "f", "in": "query", "schema": T}]
    elif position == "reqbody":
        item = {"post": op}
        op["requestBody"] = {"content": {"application/json": {"schema": T}}}
    elif position == "respbody":
        op["responses"]["201"] = {"description": "c", "content": {"application/json": {"schema": T}}}
    elif position == "respbody2":
        # a SECOND media type of the same response, with a schema reachable from nowhere else
        op["responses"]["200"]["content"]["text/plain"] = {"schema": T}
    elif position.startswith("media:"):
        _, where, st, mt = position.split(":", 3)
        if where == "resp":
            op["responses"].setdefault(st, {"description": "r"}).setdefault("content", {})[mt] = {"schema": T}
        else:
            item = {"post": op}
            op["requestBody"] = {"required": True, "content": {mt: {"schema": T}}}
    elif position == "headerparam":
        op["parameters"] = [{"name": "X-F", "in": "header", "schema": T}]
    elif position == "nesteditem":
        root["properties"]["p"] = {"type": "array", "items": {"type": "object", "properties": {"q": {"type": "array", "items": T}}}}
    elif position == "inlinedup":
        # Root.p is an INLINE object structurally identical to Tgt; Tgt itself is used only by the OTHER operation
        root["properties"]["p"] = copy_schema(TARGET_KINDS[tkind])
    schemas["Root"] = root
    other = {"get": {"operationId": "op1", "responses": {"200": {"description": "ok", "content": {"application/json": {"schema": {"$ref": REF + ("Tgt" if position == "inlinedup" else "Leaf2")}}}}}}}
    return {"openapi": "3.1.0", "info": {"title": "g", "version": "1"}, "paths": {"/r": item, "/other": other}, "components": {"schemas": schemas}}


def selected_ops(spec, only=None, exclude=None):
    out = []
    for p, item in spec["paths"].items():
        for m, op in item.items():
            if m == "parameters":
                continue
            oid = op.get("operationId")
            if only is not None and oid not in only:
                continue
            if exclude is not None and oid in exclude:
                continue
            out.append(op)
    return out


def has_allof_cycle(names, edges):
    """allOf parents (incl. the child->base edges implied by `disc`) must be acyclic: cyclic allOf chains
    crash the generator (recorded under C12) and are not what C07/C10 quantify over."""
    succ = {n: set() for n in names}
    for a, k, b in edges:
        if k in ("allOf", "allOfInline"):
            succ[a].add(b)
        elif k == "disc":
            succ[b].add(a)
    seen = {}
    def dfs(v):
        if seen.get(v) == 1: return True
        if seen.get(v) == 2: return False
        seen[v] = 1
        for w in succ[v]:
            if dfs(w): return True
        seen[v] = 2
        return False
    return any(dfs(n) for n in names)


# ---- C07: several operations per response shape; discriminator mappings in both spellings -----
INLINE_STYLES = ["none", "enum", "obj", "both"]


def shape_schema(name, style):
    """a response body schema; `style` says which INLINE member types (emitted right after the operations'
    own types) it carries"""
    s = {"type": "object", "required": ["id"], "properties": {"id": {"type": "string"}}}
    if style in ("enum", "both"):
        s["properties"]["kind"] = {"type": "string", "enum": ["plain", "fancy", name.lower()]}
    if style in ("obj", "both"):
        s["properties"]["origin"] = {"type": "object", "properties": {"country": {"type": "string"}, fld(name) + "_city": {"type": "string"}}}
    return s


def groups_spec(d):
    """d["gops"]: [[operationId, shape], ...] in PATH order; shape = a schema name (200 + JSON body of that
    schema), "arr:<name>" (array of it), "+404:<name>" (200 of it plus an empty 404) or None (204, no body).
    Operations with equal shapes have equal response signatures.  d["inl"]: {schema name: inline style}.
    d["qenum"]: ids of operations with a query parameter whose schema is an inline enum."""
    schemas, paths = {}, {}
    for n, style in (d.get("inl") or {}).items():
        schemas[n] = shape_schema(n, style)
    for i, (oid, shape) in enumerate(d["gops"]):
        op = {"operationId": oid, "responses": {}}
        if shape is None:
            op["responses"]["204"] = {"description": "done"}
        else:
            extra404 = shape.startswith("+404:")
            body = shape.split(":", 1)[1] if ":" in shape else shape
            schemas.setdefault(body, shape_schema(body, "none"))
            sch = {"$ref": REF + body}
            if shape.startswith("arr:"):
                sch = {"type": "array", "items": sch}
            op["responses"]["200"] = {"description": "ok", "content": {"application/json": {"schema": sch}}}
            if extra404:
                op["responses"]["404"] = {"description": "missing"}
        if oid in (d.get("qenum") or []):
            op["parameters"] = [{"name": "sort", "in": "query", "schema": {"type": "string", "enum": ["asc", "desc"]}}]
        paths["/p%d/%s" % (i, fld(oid))] = {"get": op}
    return {"openapi": "3.1.0", "info": {"title": "g", "version": "1"}, "paths": paths, "components": {"schemas": schemas}}


def discmap_spec(d):
    """d["dbase"]: name of a discriminated base; d["children"]: [[name, spelling, own_op], ...] with spelling
    "bare" (`tag: Cat`) or "ptr" (`tag: '#/components/schemas/Cat'`); a child with own_op is ALSO referenced by an
    operation of its own (response body for even positions, request body for odd ones).  op0 returns the base."""
    base = d["dbase"]
    mapping = {}
    schemas = {base: {"type": "object", "required": ["kind", "name"], "properties": {"kind": {"type": "string"}, "name": {"type": "string"}},
                      "discriminator": {"propertyName": "kind", "mapping": mapping}}}
    paths = {"/a0/base": {"get": {"operationId": "op0", "responses": {"200": {"description": "ok", "content": {"application/json": {"schema": {"$ref": REF + base}}}}}}}}
    k = 0
    for i, (name, spelling, own) in enumerate(d["children"]):
        mapping["t_" + fld(name)] = name if spelling == "bare" else REF + name
        schemas[name] = {"allOf": [{"$ref": REF + base}, {"type": "object", "properties": {"p_" + fld(name): {"type": "boolean"}, "mood": {"type": "string", "enum": ["calm", fld(name)]}}}]}
        if own:
            k += 1
            if i % 2 == 0:
                op = {"operationId": "op%d" % k, "responses": {"200": {"description": "ok", "content": {"application/json": {"schema": {"$ref": REF + name}}}}}}
                paths["/a%d/%s" % (k, fld(name))] = {"get": op}
            else:
                op = {"operationId": "op%d" % k, "requestBody": {"required": True, "content": {"application/json": {"schema": {"$ref": REF + name}}}}, "responses": {"204": {"description": "done"}}}
                paths["/a%d/%s" % (k, fld(name))] = {"post": op}
    if d.get("holder"):
        # a second way to the base: a member of another object
        schemas["Holder"] = {"type": "object", "properties": {"pet": {"$ref": REF + base}, "pets": {"type": "array", "items": {"$ref": REF + base}}}}
        k += 1
        paths["/a%d/holder" % k] = {"get": {"operationId": "op%d" % k, "responses": {"200": {"description": "ok", "content": {"application/json": {"schema": {"$ref": REF + "Holder"}}}}}}}
    return {"openapi": "3.1.0", "info": {"title": "g", "version": "1"}, "paths": paths, "components": {"schemas": schemas}}


def op_ids(spec):
    return [op["operationId"] for item in spec["paths"].values() for m, op in item.items() if m != "parameters"]


# ---- C10: unions that a recursive struct holds BY VALUE (the union itself need not be on a dependency cycle) ----
# further edge kinds (src, kind, dst); `dst` is what the union member / the copy refers to
#   uOne / uAny       member `u_dst`  = inline oneOf / anyOf [ $ref dst, <inline member> ]
#   uOneReq           the same, member required
#   uOneArr / uAnyArr member `ua_dst` = array whose ITEMS are such an inline union
#   uMap              member `um_dst` = map whose VALUES are such an inline union
#   uGrp              every uGrp edge of one source goes into ONE inline oneOf member `ug` (two or more $refs: the
#                     union has a fingerprint; one $ref: an integer is added)
#   dup / dupArr      member `d_dst` (items of `da_dst`) = a structural COPY of schema dst as it stands before the
#                     copies are made (what bundlers / partial dereferencers emit); a named union repeated inline is
#                     typed as the named union although no dependency edge leads to it
KINDS_UNION = ["uOne", "uAny", "uOneReq", "uOneArr", "uAnyArr", "uMap", "uGrp", "dup", "dupArr"]
# the inline (non-$ref) member of a union: `umix` gives one to NAMED unions, `INLINE_DEFAULT` to the inline ones
INLINE_MEMBERS = {
    "string": {"type": "string"},
    "uuid": {"type": "string", "format": "uuid"},
    "integer": {"type": "integer"},
    "object": {"type": "object", "required": ["note"], "properties": {"note": {"type": "string"}}},
    "loose": {"type": "object", "properties": {"note": {"type": "string"}}},
}


def graph_schemas_u(names, edges, umix=None, inline="string"):
    """graph_schemas for the plain kinds, then the union kinds on top.  umix: {union schema name: key of
    INLINE_MEMBERS} - the named union gets that inline member after its $ref members."""
    import copy
    out = graph_schemas(names, [e for e in edges if e[1] not in KINDS_UNION])
    for n, key in sorted((umix or {}).items()):
        s = out[n]
        k = "oneOf" if "oneOf" in s else "anyOf" if "anyOf" in s else None
        if k:
            s[k].append(copy.deepcopy(INLINE_MEMBERS[key]))
    member = INLINE_MEMBERS[inline]

    def props(a):
        s = out[a]
        return s.setdefault("properties", {})

    grp = {}
    for (a, k, b) in edges:
        ref = {"$ref": REF + b}
        if k in ("uOne", "uOneReq"):
            props(a)["u_" + fld(b)] = {"oneOf": [ref, copy.deepcopy(member)]}
            if k == "uOneReq":
                out[a].setdefault("required", []).append("u_" + fld(b))
        elif k == "uAny":
            props(a)["w_" + fld(b)] = {"anyOf": [ref, copy.deepcopy(member)]}
        elif k in ("uOneArr", "uAnyArr"):
            props(a)["ua_" + fld(b) if k == "uOneArr" else "wa_" + fld(b)] = {"type": "array", "items": {("oneOf" if k == "uOneArr" else "anyOf"): [ref, copy.deepcopy(member)]}}
        elif k == "uMap":
            props(a)["um_" + fld(b)] = {"type": "object", "additionalProperties": {"oneOf": [ref, copy.deepcopy(member)]}}
        elif k == "uGrp":
            grp.setdefault(a, [])
            if ref not in grp[a]:
                grp[a].append(ref)
    for a, refs in grp.items():
        props(a)["ug"] = {"oneOf": refs + ([{"type": "integer"}] if len(refs) < 2 else [])}
    snapshot = copy.deepcopy(out)
    for (a, k, b) in edges:
        if k == "dup":
            props(a)["d_" + fld(b)] = copy.deepcopy(snapshot[b])
        elif k == "dupArr":
            props(a)["da_" + fld(b)] = {"type": "array", "items": copy.deepcopy(snapshot[b])}
    return out


def graph_spec_u(names, edges, roots=None, umix=None, inline="string"):
    spec = graph_spec(names, [], roots)
    spec["components"]["schemas"] = graph_schemas_u(names, edges, umix, inline)
    return spec


def two_node_union_graphs():
    """one union-kind edge out of A (to A or to B), alone or with one plain edge out of B"""
    names = ["A", "B"]
    for k in KINDS_UNION:
        yield names, [("A", k, "A")]
        yield names, [("A", k, "B")]
        for k2 in KINDS + KINDS_UNION:
            for t in ("A", "B"):
                if k2 == "allOf" and t == "B":
                    continue
                yield names, [("A", k, "B"), ("B", k2, t)]


# documents people write: the shapes the two-node graphs abstract from, with their own names
UNION_TEMPLATES = [
    # a comment thread; the reply target union is repeated inline by a bundler
    {"names": ["Comment", "ReplyTarget"], "edges": [["ReplyTarget", "oneOf", "Comment"], ["Comment", "dup", "ReplyTarget"]], "umix": {"ReplyTarget": "uuid"}},
    {"names": ["Comment", "ReplyTarget"], "edges": [["ReplyTarget", "anyOf", "Comment"], ["Comment", "dupArr", "ReplyTarget"], ["Comment", "dup", "ReplyTarget"]], "umix": {"ReplyTarget": "object"}},
    # linked list / tree whose link is "the node or its id"
    {"names": ["TreeNode"], "edges": [["TreeNode", "uOne", "TreeNode"]]},
    {"names": ["TreeNode"], "edges": [["TreeNode", "uOneReq", "TreeNode"], ["TreeNode", "uAnyArr", "TreeNode"]]},
    # mutual recursion that runs only through inline unions
    {"names": ["Filter", "Negation"], "edges": [["Filter", "uAny", "Negation"], ["Negation", "uAny", "Filter"]], "inline": "integer"},
    {"names": ["Filter", "Negation", "Conjunction"], "edges": [["Filter", "uGrp", "Negation"], ["Filter", "uGrp", "Conjunction"], ["Negation", "opt", "Filter"], ["Conjunction", "arr", "Filter"]]},
    # expression tree: named union ON the cycle (the case the boxing rule was written for)
    {"names": ["Expr", "Literal", "BinaryOp"], "edges": [["Expr", "oneOf", "Literal"], ["Expr", "oneOf", "BinaryOp"], ["BinaryOp", "opt", "Expr"], ["BinaryOp", "req", "Expr"]]},
    {"names": ["Expr", "Literal", "BinaryOp"], "edges": [["Expr", "oneOf", "Literal"], ["Expr", "oneOf", "BinaryOp"], ["BinaryOp", "dup", "Expr"]]},
]


def json_text(v):
    import json
    return json.dumps(v, sort_keys=True)


def inline_union_cycle(schemas):
    """generation steering only (the judge has its own copy of this in the Lean driver): is there a cycle made of
    "schema -> $ref member of a union that sits INSIDE it" steps?  With helper constructors on, the unchanged
    generator overflows its stack on such documents (finding F10-3), so most of them are generated --no-helpers."""
    comps = [json_text(v) for v in schemas.values()]

    def refs(j, top):
        out = []
        if not isinstance(j, dict):
            return out
        if not top and json_text(j) in comps:
            return out          # a structural copy of a component is named through the schema-identity cache
        if not top:
            for k in ("oneOf", "anyOf"):
                for v in j.get(k) or []:
                    if isinstance(v, dict) and str(v.get("$ref", "")).startswith(REF):
                        out.append(v["$ref"][len(REF):])
        for v in (j.get("properties") or {}).values():
            out += refs(v, False)
        if isinstance(j.get("items"), dict):
            out += refs(j["items"], False)
        return out
    succ = {n: set(refs(s, True)) for n, s in schemas.items()}
    def reaches(a, b, seen):
        for w in succ.get(a, ()):
            if w == b or (w not in seen and not seen.add(w) and reaches(w, b, seen)):
                return True
        return False
    return any(reaches(n, n, set()) for n in schemas)


# ---- C10: round trip of recursive documents through unions (declaration order = matching order) ----
RT_KINDS = ["rec", "recArr", "recOpt", "loose", "strict", "closed"]


def rt_member(union, name, kind):
    """one object member of the union `union`; member names carry the member's name so that the members of one
    union never share a member name"""
    n = fld(name)
    u = {"$ref": REF + union}
    if kind == "rec":        # the specific recursive alternative: a required operator and two operands
        return {"type": "object", "required": ["op_" + n], "properties": {"op_" + n: {"type": "string"}, "left_" + n: u, "right_" + n: u}}
    if kind == "recArr":     # recursion through an array
        return {"type": "object", "required": ["all_" + n], "properties": {"all_" + n: {"type": "array", "items": u}}}
    if kind == "recOpt":     # recursive AND permissive: nothing required
        return {"type": "object", "properties": {"next_" + n: u, "label_" + n: {"type": "string"}}}
    if kind == "loose":      # permissive leaf: no required member, unknown members allowed
        return {"type": "object", "properties": {"value_" + n: {"type": "number"}, "unit_" + n: {"type": "string"}}}
    if kind == "strict":
        return {"type": "object", "required": ["name_" + n], "properties": {"name_" + n: {"type": "string"}}}
    if kind == "closed":
        return {"type": "object", "properties": {"value_" + n: {"type": "number"}, "unit_" + n: {"type": "string"}}, "additionalProperties": False}
    raise ValueError(kind)


def rt_spec(d):
    """d["rt"] = {"union": U, "kw": "oneOf"|"anyOf", "members": [[name, kind], ...]} (members in SPEC order)"""
    r = d["rt"]
    schemas = {}
    for name, kind in r["members"]:
        schemas[name] = rt_member(r["union"], name, kind)
    schemas[r["union"]] = {r["kw"]: [{"$ref": REF + name} for name, _ in r["members"]]}
    names = [r["union"]] + [m[0] for m in r["members"]]
    spec = graph_spec(names, [], names)
    spec["components"]["schemas"] = schemas
    return spec
