"""Spec builders shared by the checks (OpenAPI 3.1 documents as python dicts)."""
import copy

PET = {"type": "object", "required": ["name"], "properties": {"name": {"type": "string"}, "tag": {"type": "string"}}}
ERR = {"type": "object", "properties": {"m": {"type": "string"}}}


def base_spec():
    return {"openapi": "3.1.0", "info": {"title": "t", "version": "1"}, "paths": {}, "components": {"schemas": {"Pet": copy.deepcopy(PET), "Err": copy.deepcopy(ERR)}}}


def schema_of(kind):
    if kind is None:
        return None
    if kind.startswith("ref:"):
        return {"$ref": "#/components/schemas/" + kind[4:]}
    return {"type": kind}


def resp_spec(responses, method="get", path="/op", opid="op"):
    """responses: [[key, [[content_type, kind], …]], …] -> spec with one operation."""
    s = base_spec()
    rs = {}
    for key, medias in responses:
        r = {"description": "d" + key}
        if medias:
            r["content"] = {}
            for ct, kind in medias:
                m = {}
                sch = schema_of(kind)
                if sch is not None:
                    m["schema"] = sch
                r["content"][ct] = m
        rs[key] = r
    s["paths"][path] = {method: {"operationId": opid, "responses": rs}}
    return s
