"""Spec builders shared by the checks (OpenAPI 3.1 documents as python dicts)."""
import copy

PET = {"type": "object", "required": ["name"], "properties": {"name": {"type": "string"}, "tag": {"type": "string"}}}
ERR = {"type": "object", "properties": {"m": {"type": "string"}}}


def base_spec():
    return {"openapi": "3.1.0", "info": {"title": "t", "version": "1"}, "paths": {}, "components": {"schemas": {"Pet": copy.deepcopy(PET), "Err": copy.deepcopy(ERR)}}}


def schema_of(kind):
    if kind is None:
        return None
    if kind.startswith("ref:"):
        return {"$ref": "#/components/schemas/" + kind[4:]}
    return {"type": kind}


def resp_spec(responses, method="get", path="/op", opid="op"):
    """responses: [[key, [[content_type, kind], …]], …] -> spec with one operation."""
    s = base_spec()
    rs = {}
    for key, medias in responses:
        r = {"description": "d" + key}
        if medias:
            r["content"] = {}
            for ct, kind in medias:
                m = {}
                sch = schema_of(kind)
                if sch is not None:
                    m["schema"] = sch
                r["content"][ct] = m
        rs[key] = r
    s["paths"][path] = {method: {"operationId": opid, "responses": rs}}
    return s


def param_schema(t):
    if t == "array":
        return {"type": "array", "items": {"type": "string"}}
    if t == "intarray":
        return {"type": "array", "items": {"type": "integer"}}
    if t == "enum":
        return {"type": "string", "enum": ["a", "b"]}
    return {"type": t}


def op_spec(d):
    """d: {method, path, params:[{name,in,level,type,required,style?,explode?}], body:{ct,kind,required}|None, responses?}"""
    s = base_spec()
    op = {"operationId": d.get("opid", "op"), "responses": {"200": {"description": "ok"}}}
    item = {}
    for p in d.get("params", []):
        o = {"name": p["name"], "in": p["in"], "schema": param_schema(p.get("type", "string"))}
        if p.get("required") or p["in"] == "path":
            o["required"] = True
        for k in ("style", "explode"):
            if p.get(k) is not None:
                o[k] = p[k]
        if p.get("level") == "path":
            item.setdefault("parameters", []).append(o)
        else:
            op.setdefault("parameters", []).append(o)
    b = d.get("body")
    if b:
        content = {}
        for ct, kind in b["content"]:
            m = {}
            sch = schema_of(kind)
            if sch is not None:
                m["schema"] = sch
            content[ct] = m
        op["requestBody"] = {"content": content}
        if b.get("required"):
            op["requestBody"]["required"] = True
    if d.get("responses") is not None:
        op["responses"] = d["responses"]
    item[d["method"]] = op
    s["paths"][d["path"]] = item
    return s


# ---------------------------------------------------------------------------------------------
# C16: specs of the validation fragment.  desc = {schemas:[{name,fields:[{name,req,s}]}], aliases:[{name,to}],
# params:[{name,in,req,s}], body, resp, echo}; s = {"k":"prim","c":cons} | {"k":"arrP","c":cons,"items":cons} |
# {"k":"arrR","c":cons,"to":name} | {"k":"ref","to":name}; numbers in cons travel as decimal strings.
import re as _re

NUM_KEYS = ("minimum", "maximum", "exclusiveMinimum", "exclusiveMaximum")


def num_json(s):
    return int(s) if _re.fullmatch(r"-?\d+", s) else float(s)


def cons_schema(c):
    o = {}
    for k, v in c.items():
        if v is None:
            continue
        if k == "ty":
            o["type"] = v
        elif k == "enum":
            if v:
                o["enum"] = ["aa", "bb"]
        elif k in NUM_KEYS:
            o[k] = num_json(v)
        else:
            o[k] = v
    return o


def fs_schema(s):
    ref = lambda n: {"$ref": "#/components/schemas/" + n}
    k = s["k"]
    if k == "prim":
        return cons_schema(s["c"])
    if k == "arrP":
        return dict(cons_schema(s["c"]), items=cons_schema(s["items"]))
    if k == "arrR":
        return dict(cons_schema(s["c"]), items=ref(s["to"]))
    if k == "ref":
        return ref(s["to"])
    raise ValueError(k)


def valid_spec(desc):
    ref = lambda n: {"$ref": "#/components/schemas/" + n}
    names = [s["name"] for s in desc["schemas"]]
    if names != sorted(set(names)):
        raise ValueError("schemas must be sorted and distinct")
    comps = {}
    for s in desc["schemas"]:
        fn = [f["name"] for f in s["fields"]]
        if fn != sorted(set(fn)) or not all(_re.fullmatch(r"[a-z][a-z0-9_]*", x) for x in fn):
            raise ValueError("fields must be sorted, distinct snake_case")
        o = {"type": "object", "properties": {f["name"]: fs_schema(f["s"]) for f in s["fields"]}}
        req = [f["name"] for f in s["fields"] if f["req"]]
        if req:
            o["required"] = req
        comps[s["name"]] = o
    for a in desc.get("aliases", []):
        if a["name"] in comps:
            raise ValueError("alias name clash")
        comps[a["name"]] = {"type": "array", "items": ref(a["to"])}
    known = set(comps)
    for s in desc["schemas"]:
        for f in s["fields"]:
            t = f["s"].get("to")
            if t is not None and t not in known:
                raise ValueError("dangling ref")
    params, path = [], "/op"
    pn = [(p["name"], p["in"]) for p in desc.get("params", [])]
    if len(set(pn)) != len(pn):
        raise ValueError("duplicate parameter")
    for p in desc.get("params", []):
        if not _re.fullmatch(r"[a-z][a-z0-9_]*", p["name"]):
            raise ValueError("param name")
        if p["s"]["k"] not in ("prim", "arrP"):
            raise ValueError("param kind")
        o = {"name": p["name"], "in": p["in"], "schema": fs_schema(p["s"])}
        if p["in"] == "path":
            o["required"] = True
            path += "/{%s}" % p["name"]
        elif p["req"]:
            o["required"] = True
        params.append(o)
    op = {"operationId": "op", "responses": {"200": {"description": "ok"}}}
    if params:
        op["parameters"] = params
    for k in ("body", "resp", "echo"):
        if desc.get(k) is not None and desc[k] not in known:
            raise ValueError("dangling " + k)
    if desc.get("body") is not None:
        op["requestBody"] = {"required": True, "content": {"application/json": {"schema": ref(desc["body"])}}}
    if desc.get("resp") is not None:
        op["responses"]["200"]["content"] = {"application/json": {"schema": ref(desc["resp"])}}
    paths = {path: {"post": op}}
    if desc.get("echo") is not None:
        paths["/echo"] = {"get": {"operationId": "echo", "responses": {"200": {"description": "ok", "content": {"application/json": {"schema": ref(desc["echo"])}}}}}}
    # every schema must be reachable from an operation (ReferencedOnly scope drops the others)
    succ = {s["name"]: [f["s"]["to"] for f in s["fields"] if f["s"].get("to")] for s in desc["schemas"]}
    for a in desc.get("aliases", []):
        succ[a["name"]] = [a["to"]]
    seen, todo = set(), [desc.get(k) for k in ("body", "resp", "echo") if desc.get(k)]
    while todo:
        n = todo.pop()
        if n not in seen:
            seen.add(n)
            todo += succ.get(n, [])
    if seen != known:
        raise ValueError("unreachable schema")
    return {"openapi": "3.1.0", "info": {"title": "t", "version": "1"}, "paths": paths, "components": {"schemas": comps}}
