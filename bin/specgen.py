"""Spec builders shared by the checks (OpenAPI 3.1 documents as python dicts)."""
import copy

PET = {"type": "object", "required": ["name"], "properties": {"name": {"type": "string"}, "tag": {"type": "string"}}}
ERR = {"type": "object", "properties": {"m": {"type": "string"}}}


def base_spec():
    return {"openapi": "3.1.0", "info": {"title": "t", "version": "1"}, "paths": {}, "components": {"schemas": {"Pet": copy.deepcopy(PET), "Err": copy.deepcopy(ERR)}}}


def schema_of(kind):
    if kind is None:
        return None
    if kind.startswith("ref:"):
        return {"$ref": "#/components/schemas/" + kind[4:]}
    return {"type": kind}


def resp_spec(responses, method="get", path="/op", opid="op"):
    """responses: [[key, [[content_type, kind], …]], …] -> spec with one operation."""
    s = base_spec()
    rs = {}
    for key, medias in responses:
        r = {"description": "d" + key}
        if medias:
            r["content"] = {}
            for ct, kind in medias:
                m = {}
                sch = schema_of(kind)
                if sch is not None:
                    m["schema"] = sch
                r["content"][ct] = m
        rs[key] = r
    s["paths"][path] = {method: {"operationId": opid, "responses": rs}}
    return s


def param_schema(t):
    if t == "array":
        return {"type": "array", "items": {"type": "string"}}
    if t == "intarray":
        return {"type": "array", "items": {"type": "integer"}}
    if t == "enum":
        return {"type": "string", "enum": ["a", "b"]}
    return {"type": t}


def op_spec(d):
    """d: {method, path, params:[{name,in,level,type,required,style?,explode?}], body:{ct,kind,required}|None, responses?}"""
    s = base_spec()
    op = {"operationId": d.get("opid", "op"), "responses": {"200": {"description": "ok"}}}
    item = {}
    for p in d.get("params", []):
        o = {"name": p["name"], "in": p["in"], "schema": param_schema(p.get("type", "string"))}
        if p.get("required") or p["in"] == "path":
            o["required"] = True
        for k in ("style", "explode"):
            if p.get(k) is not None:
                o[k] = p[k]
        if p.get("level") == "path":
            item.setdefault("parameters", []).append(o)
        else:
            op.setdefault("parameters", []).append(o)
    b = d.get("body")
    if b:
        content = {}
        for ct, kind in b["content"]:
            m = {}
            sch = schema_of(kind)
            if sch is not None:
                m["schema"] = sch
            content[ct] = m
        op["requestBody"] = {"content": content}
        if b.get("required"):
            op["requestBody"]["required"] = True
    if d.get("responses") is not None:
        op["responses"] = d["responses"]
    item[d["method"]] = op
    s["paths"][d["path"]] = item
    return s


# ---- C13: type sharing -------------------------------------------------------------------------
SHARE_POOL = {
    "A": {"type": "object", "required": ["kind"], "properties": {"kind": {"type": "string"}, "x": {"type": "string"}}},
    "B": {"type": "object", "required": ["kind"], "properties": {"kind": {"type": "string"}, "y": {"type": "integer"}}},
    "C": {"type": "object", "required": ["kind"], "properties": {"kind": {"type": "string"}, "z": {"type": "boolean"}}},
}


def share_spec(occs, extra=None):
    """occs: [{"site": {"kind":"named","name":N} | {"kind":"prop"|"items","holder":H,"prop":p}, "schema": S}]
    -> one OpenAPI document with the fixed pool A,B,C, the named occurrences, and holder objects."""
    s = {"openapi": "3.1.0", "info": {"title": "t", "version": "1"}, "paths": {}, "components": {"schemas": copy.deepcopy(SHARE_POOL)}}
    sch = s["components"]["schemas"]
    for o in occs:
        site = o["site"]
        if site["kind"] == "named":
            if site["name"] in sch:
                raise ValueError("duplicate name")
            sch[site["name"]] = copy.deepcopy(o["schema"])
        else:
            h = sch.setdefault(site["holder"], {"type": "object", "properties": {}})
            if site["prop"] in h["properties"]:
                raise ValueError("duplicate site")
            body = copy.deepcopy(o["schema"])
            h["properties"][site["prop"]] = body if site["kind"] == "prop" else {"type": "array", "items": body}
    if extra:
        if extra["name"] in sch:
            raise ValueError("duplicate name")
        sch[extra["name"]] = copy.deepcopy(extra["schema"])
    return s


def multi_resp_spec(ops):
    """ops: [{"opid","path","responses":[[key,[[ct,kind]…]]…], "desc"?: str}] -> one document"""
    s = base_spec()
    for o in ops:
        one = resp_spec(o["responses"], path=o["path"], opid=o["opid"])
        item = one["paths"][o["path"]]
        if o.get("desc"):
            for r in item["get"]["responses"].values():
                r["description"] = o["desc"]
        s["paths"][o["path"]] = item
    return s
